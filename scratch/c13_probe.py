import sys; sys.path.insert(0,'/verif')
from fractions import Fraction
from pmv.frontend import Repo
from pmv import symx, terms as T
from pmv.rules import ret_term, find_calls
r=Repo(parse_gate=False)
FINDERS={'Mercury':['inferior_conjunction','superior_conjunction','western_elongation','eastern_elongation','station_longitude_1','station_longitude_2'],
'Venus':['inferior_conjunction','superior_conjunction','western_elongation','eastern_elongation','station_longitude_1','station_longitude_2'],
'Mars':['conjunction','opposition','station_longitude_1','station_longitude_2'],'Jupiter':['conjunction','opposition','station_longitude_1','station_longitude_2'],
'Saturn':['conjunction','opposition','station_longitude_1','station_longitude_2'],'Uranus':['conjunction','opposition'],'Neptune':['conjunction','opposition']}
def extract(p,q):
    t=ret_term(r,p,'%s.%s'%(p,q),arg_terms={'epoch':('epoch',T.sym('E'))})
    R=t[1] if t[0]=='tuple' else t
    assert R[0]=='epoch'
    rounds=set(find_calls(R,'round'))
    assert len(rounds)==1, len(rounds)
    rc=rounds.pop()
    X=rc[2]
    pairs=[]
    for x in T.walk(R):
        if x[0]=='add':
            nums=[s for s in x[1:] if s[0]=='num']; others=[s for s in x[1:] if s[0]!='num']
            if len(others)==1 and len(nums)==1:
                c,rest=T.split_coeff(others[0])
                if rest==rc: pairs.append((nums[0][1],c,x))
    return X,pairs,R,rc
for p,qs in FINDERS.items():
    for q in qs:
        X,pairs,R,rc=extract(p,q)
        print(p,q,T.show(X)[:90], [(float(a),float(b)) for a,b,_ in pairs])
print('-----')
import math
E=r.mod('Earth').literal('ORBITAL_ELEM')
def elem(tab,row,T_):
    c=tab[row]; return c[0]+T_*(c[1]+T_*(c[2]+T_*c[3]))
for p,qs in FINDERS.items():
    oe=r.mod(p).literal('ORBITAL_ELEM')
    syn=360.0*36525.0/abs(oe[0][1]-E[0][1])
    anom_rate=(E[0][1]-E[5][1])/36525.0
    for q in qs:
        X,pairs,R,rc=extract(p,q)
        for A,B,x in pairs:
            inpos=any(y[0]=='call' and y[1]=='pos' and y[2]==x for y in T.walk(R))
            if inpos: m0,m1=float(A),float(B)
            else: a,b=float(A)+2451545.0,float(B)
        Tc=(a-2451545.0)/36525.0
        dl=(elem(oe,0,Tc)-elem(E,0,Tc))%360
        ma=(elem(E,0,Tc)-elem(E,5,Tc))%360
        print('%-8s %-22s b-syn=%.2e  m1-exp=%.2e  dL=%.4f  m0-M=%.5f' % (p,q,b-syn,(m1-(b*anom_rate))%360 if abs((m1-(b*anom_rate))%360)<180 else (m1-(b*anom_rate))%360-360, dl, (m0-ma+180)%360-180))
