import sys; sys.path.insert(0,'/verif')
from fractions import Fraction
from pmv.frontend import Repo
from pmv import symx, terms as T
from pmv.rules import ret_term, find_calls, pure_polys, outcomes, all_value_terms
r=Repo(parse_gate=False)
F={'moon_phase':['new','first','full','last'],'moon_perigee_apogee':['perigee','apogee'],'moon_passage_nodes':['ascending','descending'],'moon_maximum_declination':['northern','southern']}
for q,targets in F.items():
    for tg in targets:
        outs=outcomes(r,'Moon','Moon.'+q,arg_terms={'epoch':('epoch',T.sym('E')),'target':('str',tg)})
        bag=all_value_terms(outs)
        rounds=set(find_calls(bag,'round'))
        assert len(rounds)==1
        rc=rounds.pop()
        # K-like: add(rc, num)
        Ks=[x for x in T.walk(bag) if x[0]=='add' and len(x)==3 and rc in x[1:] and any(y[0]=='num' for y in x[1:])]
        K=Ks[0] if Ks else rc
        off=[y for y in K[1:] if y[0]=='num'][0][1] if Ks else 0
        bag2=T.subst(T.subst(bag,{K:T.sym('K')}),{rc:T.sym('K')}) if Ks else T.subst(bag,{rc:T.sym('K')})
        ps=sorted(set(pure_polys(bag2,'K',min_degree=1)), key=lambda p:-abs(p[0]))
        print(q,tg,'offset',float(off),'rc:',T.show(rc)[:100])
        for p in ps:
            print('     ',[float(x) for x in p[:3]], 'deg',len(p)-1)
