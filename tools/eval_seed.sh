#!/bin/bash
# usage: eval_seed.sh <worktree> [name]
# Confirms a seeded change (tests unchanged, demo fails with / passes without the change) and
# runs all 20 checks against the worktree (PMV_REPO) - nothing is written to /repo.
WT="$1"; NAME="${2:-$(basename $WT)}"; mkdir -p /tmp/seed
cd "$WT" || exit 2
git diff -- pymeeus > /tmp/seed/$NAME.patch
echo "== patch: $(grep -c '^[+-][^+-]' /tmp/seed/$NAME.patch) changed lines in $(git diff --stat -- pymeeus | tail -1)"
T=$(PYTHONPATH=$WT /venv/bin/python -m pytest -q -p no:cacheprovider 2>&1 | tail -1)
echo "== tests with change: $T"
PYTHONPATH=$WT /venv/bin/python seed_demo.py > /tmp/seed/$NAME.demo_changed.txt 2>&1; echo "== demo with change: exit $? ($(tail -1 /tmp/seed/$NAME.demo_changed.txt | cut -c1-150))"
# (no `git stash`: the stash is shared by all worktrees of a repository, so parallel evaluations would swap patches)
git apply -R /tmp/seed/$NAME.patch
PYTHONPATH=$WT /venv/bin/python seed_demo.py > /tmp/seed/$NAME.demo_orig.txt 2>&1; echo "== demo on original: exit $?"
git apply /tmp/seed/$NAME.patch
cd /verif
for i in 01 02 03 04 05 06 07 08 09 10 11 12 13 14 15 16 17 18 19 20; do
  out=$(PMV_EVIDENCE_DIR=/tmp/seed/evidence PMV_REPO=$WT ./check C$i 2>&1); rc=$?
  if [ $rc -ne 0 ]; then echo "-- C$i rc=$rc"; echo "$out" | grep -v "^    \|^VIOLATION\|^KNOWN" | cut -c1-260 | head -6; fi
done
echo "== done $NAME"
