#!/usr/bin/env python3
"""For each behaviour-preserving change set under /verif/benign/<name>/patch.diff: apply it to a scratch worktree of /repo's HEAD
(outside /repo and /verif, removed afterwards), run all 20 checks against it (PMV_REPO) and print every check that is not
silent (non-zero exit, or more INCONCLUSIVE lines than on the unchanged tree).
usage: benign_matrix.py [name ...]   (results written to benign/matrix.json)"""
import json, os, subprocess, sys, glob, shutil, tempfile
from concurrent.futures import ThreadPoolExecutor
VERIF = os.path.dirname(os.path.dirname(os.path.abspath(__file__)))
BASE_INCONCLUSIVE = {"C08": 1}


def run_one(job):
    name, wt, pid, tmp = job
    env = dict(os.environ, PMV_REPO=wt, PMV_EVIDENCE_DIR=os.path.join(tmp, "ev_" + pid))
    o = subprocess.run([os.path.join(VERIF, "check"), pid], capture_output=True, text=True, env=env)
    inc = [l for l in o.stdout.splitlines() if l.startswith("INCONCLUSIVE")]
    lines = [l for l in o.stdout.splitlines() if ": R-" in l and not l.startswith(("KNOWN", "INCONCLUSIVE", "NOTE", "    "))]
    if o.returncode != 0 or len(inc) > BASE_INCONCLUSIVE.get(pid, 0):
        return name, pid, {"rc": o.returncode, "inconclusive": [l[:200] for l in inc], "lines": [l[:240] for l in lines][:6],
                           "stderr": o.stderr.strip()[-300:] if o.returncode not in (0, 1) else ""}
    return name, pid, None


def main():
    sets = sorted(glob.glob(os.path.join(VERIF, "benign", "*", "patch.diff")))
    only = sys.argv[1:]
    if only:
        sets = [s for s in sets if os.path.basename(os.path.dirname(s)) in only]
    tmp = tempfile.mkdtemp(prefix="pmvbenign_")
    jobs, wts = [], []
    res = {}
    try:
        for patch in sets:
            name = os.path.basename(os.path.dirname(patch))
            wt = os.path.join(tmp, name)
            subprocess.run(["git", "-C", "/repo", "worktree", "add", "-q", "--detach", wt, "HEAD"], check=True, capture_output=True)
            wts.append(wt)
            r = subprocess.run(["git", "-C", wt, "apply", patch], capture_output=True, text=True)
            if r.returncode != 0:
                res[name] = {"error": "patch does not apply: " + r.stderr.strip()[:200]}
                print(name, "ERROR", res[name]["error"], flush=True)
                continue
            res[name] = {}
            jobs.extend((name, wt, "C%02d" % i, tmp) for i in range(1, 21))
        with ThreadPoolExecutor(max_workers=14) as ex:
            for name, pid, out in ex.map(run_one, jobs):
                if out is not None:
                    res[name][pid] = out
                    print("## %s -> %s rc=%s inconclusive=%d" % (name, pid, out["rc"], len(out["inconclusive"])), flush=True)
                    for l in out["inconclusive"] + out["lines"]:
                        print("   ", l, flush=True)
                    if out["stderr"]:
                        print("    stderr:", out["stderr"], flush=True)
    finally:
        for wt in wts:
            subprocess.run(["git", "-C", "/repo", "worktree", "remove", "--force", wt], capture_output=True)
        shutil.rmtree(tmp, ignore_errors=True)
    noisy = {k: v for k, v in res.items() if v}
    print("benign sets: %d, silent on all 20 checks: %d" % (len(res), len(res) - len(noisy)))
    mpath = os.path.join(VERIF, "benign", "matrix.json")
    old = json.load(open(mpath)) if os.path.exists(mpath) else {}
    old.update(res)
    json.dump(old, open(mpath, "w"), indent=1, sort_keys=True)


if __name__ == "__main__":
    main()
