#!/bin/bash
# usage: prep_benign6.sh Cxx ... : confirm a benign round-6 change set in its worktree /tmp/benign6/Cxx (unedited tests + equivalence
# demo), and store it as /verif/benign/Cxx-b6 (patch.diff, equiv_demo.py, agent_meta.json, equiv_output.txt)
for c in "$@"; do
  WT=/tmp/benign6/$c
  [ -f $WT/equiv_demo.py ] && [ -f $WT/benign_meta.json ] || { echo "$c: not ready"; continue; }
  d=/verif/benign/$c-b6; mkdir -p $d
  git -C $WT diff -- pymeeus > $d/patch.diff
  T=$(cd $WT && PYTHONPATH=$WT /venv/bin/python -m pytest -q -p no:cacheprovider 2>&1 | tail -1)
  (cd $WT && PYTHONPATH=$WT timeout 1200 /venv/bin/python equiv_demo.py > $d/equiv_output_full.txt 2>&1); E=$?
  tail -5 $d/equiv_output_full.txt > $d/equiv_output.txt; rm -f $d/equiv_output_full.txt
  cp $WT/equiv_demo.py $d/; cp $WT/benign_meta.json $d/agent_meta.json
  echo "$c: tests[$T] equiv_exit=$E patch_lines=$(wc -l < $d/patch.diff)"
done
