#!/usr/bin/env python3
"""Print source of pymeeus functions without docstrings/comments. usage: src.py Module [qualname-substr ...]"""
import ast, sys
mod = sys.argv[1]
pats = sys.argv[2:]
path = f"/repo/pymeeus/{mod}.py"
src = open(path).read()
tree = ast.parse(src)
lines = src.splitlines()
def visit(node, prefix):
    for ch in node.body:
        if isinstance(ch, (ast.FunctionDef, ast.ClassDef)):
            q = prefix + ch.name
            if isinstance(ch, ast.ClassDef):
                visit(ch, q + ".")
                continue
            if q.endswith("main") and not pats: continue
            if pats and not any(p == q or p == ch.name for p in pats): continue
            body = ch.body
            start = ch.lineno
            ds_end = None
            if body and isinstance(body[0], ast.Expr) and isinstance(getattr(body[0], 'value', None), ast.Constant) and isinstance(body[0].value.value, str):
                ds_end = body[0].end_lineno
                ds_start = body[0].lineno
            print(f"### {mod}.{q} :{ch.lineno}-{ch.end_lineno}")
            for i in range(start, ch.end_lineno + 1):
                if ds_end and ds_start <= i <= ds_end: continue
                l = lines[i-1]
                if not l.strip(): continue
                if l.strip().startswith("#"): continue
                print(f"{i}: {l}")
visit(tree, "")
