#!/usr/bin/env python3
"""markdown rows of the catch matrix for the given rounds (e.g. `design_matrix.py 4 5`), from seeded/matrix.json and agent_meta.json"""
import json, os, sys, glob
V = os.path.dirname(os.path.dirname(os.path.abspath(__file__)))
mx = json.load(open(os.path.join(V, "seeded", "matrix.json")))
rounds = sys.argv[1:] or ["4", "5"]
print("| seed | change (as described by its author) | own | others |")
print("|---|---|---|---|")
for d in sorted(glob.glob(os.path.join(V, "seeded", "C??-r?"))):
    sid = os.path.basename(d)
    if sid[-1] not in rounds:
        continue
    am = json.load(open(os.path.join(d, "agent_meta.json")))
    summ = (am.get("summary") or "").replace("|", "/").replace("\n", " ")
    summ = summ[:170] + ("..." if len(summ) > 170 else "")
    prop = sid.split("-")[0]
    fired = {k: v.get("rules", []) for k, v in mx.get(sid, {}).items() if isinstance(v, dict)}
    own = ", ".join(fired.get(prop, [])) or ("**not caught**" if prop not in fired else "(fires)")
    others = "; ".join("%s %s" % (k, "/".join(v)) for k, v in sorted(fired.items()) if k != prop) or "-"
    print("| %s | %s | %s | %s |" % (sid, summ, own, others))
