#!/bin/bash
# usage: prep_benign.sh [dir-under-/verif/benign ...] : scratch worktree of /repo HEAD per stored benign change set, under /tmp/bn/<name>
mkdir -p /tmp/bn
git -C /repo worktree prune
for d in ${@:-$(ls /verif/benign)}; do
  [ -f /verif/benign/$d/patch.diff ] || continue
  git -C /repo worktree remove --force /tmp/bn/$d 2>/dev/null; rm -rf /tmp/bn/$d
  git -C /repo worktree add -q --detach /tmp/bn/$d HEAD
  A=$(cd /tmp/bn/$d && git apply -3 /verif/benign/$d/patch.diff 2>&1 | grep -ci "conflict\|error")
  echo "$d: conflicts=$A"
done
