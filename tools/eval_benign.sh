#!/bin/bash
# usage: eval_benign.sh <benign worktree> [name]
# A behaviour-preserving change set: confirm (suite unchanged, equivalence demo exits 0), then re-apply its diff to a fresh
# scratch worktree of /repo's HEAD and run all 20 checks there: every check must exit 0.
WT="$1"; NAME="${2:-$(basename $WT)}"; mkdir -p /tmp/seed
cd "$WT" || exit 2
git diff -- pymeeus > /tmp/seed/$NAME.benign.patch
echo "== patch: $(git diff --stat -- pymeeus | tail -1)"
T=$(PYTHONPATH=$WT /venv/bin/python -m pytest -q -p no:cacheprovider 2>&1 | tail -1)
echo "== tests with change: $T"
PYTHONPATH=$WT timeout 600 /venv/bin/python equiv_demo.py > /tmp/seed/$NAME.equiv.txt 2>&1; echo "== equivalence demo: exit $? ($(tail -1 /tmp/seed/$NAME.equiv.txt | cut -c1-120))"
FRESH=$(mktemp -d /tmp/pmvbenign_XXXX)/wt
git -C /repo worktree add -q --detach $FRESH HEAD
if ! git -C $FRESH apply /tmp/seed/$NAME.benign.patch; then echo "== patch does not apply to HEAD"; fi
cd /verif
for i in 01 02 03 04 05 06 07 08 09 10 11 12 13 14 15 16 17 18 19 20; do
  out=$(PMV_EVIDENCE_DIR=/tmp/seed/evidence PMV_REPO=$FRESH ./check C$i 2>&1); rc=$?
  if [ $rc -ne 0 ]; then echo "-- C$i rc=$rc"; echo "$out" | grep -v "^    \|^VIOLATION\|^KNOWN" | cut -c1-300 | head -8; fi
  inc=$(echo "$out" | grep -c "^INCONCLUSIVE")
  base=1; [ $i != 08 ] && base=0
  if [ $inc -gt $base ]; then echo "-- C$i inconclusive lines: $inc"; echo "$out" | grep "^INCONCLUSIVE" | cut -c1-250 | head -4; fi
done
git -C /repo worktree remove --force $FRESH; rmdir $(dirname $FRESH) 2>/dev/null
echo "== done $NAME"
