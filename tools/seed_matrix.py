#!/usr/bin/env python3
"""For each seeded change under /verif/seeded/<id>/patch.diff: apply it to a scratch worktree of /repo's HEAD
(outside /repo and /verif, removed afterwards), run all 20 checks against it (PMV_REPO), record which fire.
usage: seed_matrix.py [seed-id ...]   (results merged into seeded/matrix.json)"""
import json, os, subprocess, sys, glob, shutil, tempfile
from concurrent.futures import ThreadPoolExecutor
VERIF = os.path.dirname(os.path.dirname(os.path.abspath(__file__)))


def run_seed(patch):
    sid = os.path.basename(os.path.dirname(patch))
    tmp = tempfile.mkdtemp(prefix="pmvseed_")
    wt = os.path.join(tmp, "wt")
    out = {}
    try:
        subprocess.run(["git", "-C", "/repo", "worktree", "add", "-q", "--detach", wt, "HEAD"], check=True, capture_output=True)
        r = subprocess.run(["git", "-C", wt, "apply", patch], capture_output=True, text=True)
        if r.returncode != 0:
            return sid, {"error": "patch does not apply: " + r.stderr.strip()[:200]}
        for i in range(1, 21):
            pid = "C%02d" % i
            env = dict(os.environ, PMV_REPO=wt, PMV_EVIDENCE_DIR=os.path.join(tmp, "ev"))
            o = subprocess.run([os.path.join(VERIF, "check"), pid], capture_output=True, text=True, env=env)
            if o.returncode != 0:
                lines = [l for l in o.stdout.splitlines() if ": R-" in l and not l.startswith(("KNOWN", "INCONCLUSIVE", "NOTE"))]
                out[pid] = {"rc": o.returncode, "rules": sorted({l.split(": ")[1] for l in lines if len(l.split(": ")) > 2})}
        return sid, out
    finally:
        subprocess.run(["git", "-C", "/repo", "worktree", "remove", "--force", wt], capture_output=True)
        shutil.rmtree(tmp, ignore_errors=True)


def main():
    seeds = sorted(glob.glob(os.path.join(VERIF, "seeded", "*", "patch.diff")))
    only = sys.argv[1:]
    if only:
        seeds = [s for s in seeds if os.path.basename(os.path.dirname(s)) in only]
    mpath = os.path.join(VERIF, "seeded", "matrix.json")
    res = json.load(open(mpath)) if os.path.exists(mpath) else {}
    with ThreadPoolExecutor(max_workers=12) as ex:
        for sid, out in ex.map(run_seed, seeds):
            res[sid] = out
            own = sid.split("-")[0]
            status = "CAUGHT" if isinstance(out.get(own), dict) and out[own].get("rc") == 1 else ("ERROR" if "error" in out else "missed")
            print(sid, "own-property check:", status, "| fired:", {k: v.get("rules") for k, v in out.items() if isinstance(v, dict)}, flush=True)
    json.dump(res, open(mpath, "w"), indent=1, sort_keys=True)


if __name__ == "__main__":
    main()
