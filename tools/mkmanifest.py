#!/usr/bin/env python3
"""Generates /verif/MANIFEST.json from pmv/props/*.py metadata (MANIFEST dict in each
module).  Properties without an implemented check are listed under not_applicable."""
import ast, json, os, sys
HERE = os.path.dirname(os.path.dirname(os.path.abspath(__file__)))
props = [json.loads(l) for l in open(os.path.join(HERE, "properties.jsonl"))]
checks, na = [], []
PENDING = {}
for p in props:
    pid = p["id"]
    path = os.path.join(HERE, "pmv", "props", pid.lower() + ".py")
    meta = None
    if os.path.exists(path):
        tree = ast.parse(open(path).read())
        for n in tree.body:
            if isinstance(n, ast.Assign) and isinstance(n.targets[0], ast.Name) and n.targets[0].id == "MANIFEST":
                meta = ast.literal_eval(n.value)
    if meta is None or meta.get("not_applicable"):
        na.append({"property_id": pid, "reason": (meta or {}).get("not_applicable") or
                   "static check for this property not built yet in this round (see DESIGN.md section 4 for the plan); nothing is claimed"})
        continue
    checks.append({
        "property_id": pid,
        "quick_cmd": "./check %s --tier quick" % pid,
        "thorough_cmd": "./check %s --tier thorough" % pid,
        "evidence_file": "/verif/evidence/%s.json" % pid,
        "replay_cmd_template": "./check replay {path}",
        "engine": "pmv",
        "level_claimed": {"category": meta.get("level", "other"), "text": meta["text"], "design_ref": meta.get("design_ref", "DESIGN.md section 4, " + pid)},
        "level_note": meta["note"],
        "technique": meta["technique"],
    })
man = {
    "version": 1,
    "setup_cmd": "python3-vt -c 'import ast, fractions, json' && test -d /repo/pymeeus",
    "hooks": {"guard": "PYMEEUS_VERIF", "enable": "none needed: the checks read /repo/pymeeus/*.py as text (ast); no hook or instrumentation exists in the repository",
              "baseline_off_cmd": "cd /repo && /venv/bin/python -m pytest -ra -q -p no:cacheprovider --timeout=900 --continue-on-collection-errors",
              "source_commits": [], "add_only": True},
    "engines": [{"name": "pmv", "path": "/verif/pmv", "serves_properties": [c["property_id"] for c in checks],
                 "kind_free_text": "repository-specific static analysis over Python ast: symbolic term evaluation (value numbering), polynomial normal form modulo sin^2+cos^2=1, literal-table audits, CFG/dataflow rules, sibling comparison; never imports or runs pymeeus"}],
    "checks": checks,
    "not_applicable": na,
    "notes": "Technique family: static analysis only. Every check re-parses /repo/pymeeus on each run. Exit 2 + ANALYSIS-ERROR means the analysis could not be carried out (vanished anchor, floor not met); it is never reported as a pass. Known findings: /verif/known_findings.json.",
}
json.dump(man, open(os.path.join(HERE, "MANIFEST.json"), "w"), indent=1)
print("checks:", [c["property_id"] for c in checks], "n/a:", len(na))
