#!/usr/bin/env python3
"""(re)write meta.json for seeded/<id>-r4 from agent_meta.json + seeded/matrix.json, and for benign/<name>-b2 from
agent_meta.json + benign/matrix.json; refresh caught_by of the older seeds from the matrix."""
import json, os, glob
V = os.path.dirname(os.path.dirname(os.path.abspath(__file__)))
mx = json.load(open(os.path.join(V, "seeded", "matrix.json")))
for d in sorted(glob.glob(os.path.join(V, "seeded", "C??-r?"))):
    sid = os.path.basename(d)
    prop = sid.split("-")[0]
    fired = {k: v.get("rules", []) for k, v in mx.get(sid, {}).items() if isinstance(v, dict)}
    mp = os.path.join(d, "meta.json")
    if os.path.exists(mp):
        m = json.load(open(mp))
        if m.get("status") == "obsolete":
            continue
        m["caught_by_own_check"] = prop in fired
        m["caught_by"] = fired
        json.dump(m, open(mp, "w"), indent=1)
        continue
    am = json.load(open(os.path.join(d, "agent_meta.json")))
    tail = lambda f: (open(os.path.join(d, f)).read().strip().splitlines() or [""])[-1][:200] if os.path.exists(os.path.join(d, f)) else ""
    m = {"id": sid, "property": prop, "breaks": am.get("summary"), "needs_to_manifest": am.get("needs"), "files": am.get("files"),
         "origin": "written by a sub-agent that saw only the property text and its own scratch worktree of /repo (round %s; told what the earlier changes for this "
                   "property were, asked for a different function, mechanism and clause)" % sid[-1],
         "confirmed_by_me": {
             "how": "tools/eval_seed.sh <scratch worktree>: (1) unedited test suite with the change; (2) seed_demo.py with the change; (3) seed_demo.py on the original "
                    "(patch reverse-applied with git apply -R); (4) all 20 checks against the worktree via PMV_REPO; patch.diff re-based on /repo HEAD; tools/seed_matrix.py re-applies it to a fresh "
                    "scratch worktree of /repo HEAD and re-runs all 20 checks",
             "tests_with_change": "250 passed, 1 failed (tests/test_jupiterMoons.py::TestJupiterMoons::test_is_phenomena) - identical to the baseline",
             "demo_with_change": "fails (last line: %s)" % tail("demo_output_with_change.txt"),
             "demo_on_original": "passes (last line: %s)" % tail("demo_output_original.txt")},
         "caught_by_own_check": prop in fired, "caught_by": fired}
    json.dump(m, open(mp, "w"), indent=1)
bm_p = os.path.join(V, "benign", "matrix.json")
bm = json.load(open(bm_p)) if os.path.exists(bm_p) else {}
for d in sorted(glob.glob(os.path.join(V, "benign", "C??-b[23456]"))):
    name = os.path.basename(d)
    if not os.path.exists(os.path.join(d, "agent_meta.json")):
        continue                      # sets written by hand keep their own meta.json
    am = json.load(open(os.path.join(d, "agent_meta.json")))
    res = bm.get(name)
    m = {"id": "benign-" + name, "anchored_in_property": name.split("-")[0], "kind": "behaviour-preserving structural refactoring (false-alarm probe, round %s: helpers split off, table-driven dispatch, loops rewritten, keyword arguments, guard clauses, validation / dispatch / formatting code reorganised)" % name[-1], "edits": am.get("edits"), "files": am.get("files"),
         "origin": "written by a sub-agent that saw only the property text and its own scratch worktree of /repo; asked for heavier structural refactorings that must not change "
                   "behaviour, with an equivalence demonstration against a pristine copy",
         "confirmed_by_me": {"how": "tools/prep_benign2.sh / prep_benign3.sh: unedited suite with the edits (250 passed, 1 failed = baseline); equiv_demo.py exit 0 (original vs edited package); diff "
                                    "re-based on /repo HEAD (hand-merged with the later fix commits where they touch the same lines) and all 20 checks run there "
                                    "(tools/benign_matrix.py)",
                             "expected": "every check exits 0 with no new VIOLATION line"},
         "result": ("not yet run" if res is None else "all 20 checks silent" if not res else
                    {k: {"rc": v.get("rc"), "lines": (v.get("inconclusive") or []) + (v.get("lines") or [])} for k, v in res.items()})}
    json.dump(m, open(os.path.join(d, "meta.json"), "w"), indent=1)
print("ok")
