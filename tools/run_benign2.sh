#!/bin/bash
# usage: run_benign2.sh [Cxx ...]  - all 20 checks on the prepared benign2 trees /tmp/bn2/Cxx, print anything that is not silent
cd /verif
for b in ${@:-$(ls /tmp/bn2)}; do
  for i in 01 02 03 04 05 06 07 08 09 10 11 12 13 14 15 16 17 18 19 20; do
    out=$(PMV_EVIDENCE_DIR=/tmp/seed/evidence PMV_REPO=/tmp/bn2/$b ./check C$i 2>&1); rc=$?
    inc=$(echo "$out" | grep -c "^INCONCLUSIVE"); base=0; [ $i = 08 ] && base=1
    if [ $rc -ne 0 ] || [ $inc -gt $base ]; then echo "## benign2 $b -> C$i rc=$rc inconclusive=$inc"; echo "$out" | grep -v "^    \|^VIOLATION\|^KNOWN\|tier=" | cut -c1-260 | head -8; fi
  done
done
