#!/bin/bash
# usage: prep_benign2.sh Cxx ... : confirm (tests + equivalence demo) and re-base each benign2 change set on /repo HEAD under /tmp/bn2/Cxx
for c in "$@"; do
  WT=/tmp/benign2/$c
  [ -f $WT/equiv_demo.py ] || { echo "$c: not ready"; continue; }
  git -C $WT diff -- pymeeus > /tmp/seed/B2$c.patch
  T=$(cd $WT && PYTHONPATH=$WT /venv/bin/python -m pytest -q -p no:cacheprovider 2>&1 | tail -1)
  (cd $WT && PYTHONPATH=$WT timeout 900 /venv/bin/python equiv_demo.py > /tmp/seed/B2$c.equiv.txt 2>&1); E=$?
  rm -rf /tmp/bn2/$c; git -C /repo worktree prune; git -C /repo worktree add -q --detach /tmp/bn2/$c HEAD
  A=$(cd /tmp/bn2/$c && git apply -3 /tmp/seed/B2$c.patch 2>&1 | grep -ci "conflict")
  echo "$c: tests[$T] equiv_exit=$E conflicts=$A"
done
