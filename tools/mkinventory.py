#!/usr/bin/env python3
"""Freeze the names of the functions and module-level globals of /repo's current tree into pmv/inventory.json.
The symbolic evaluator keeps calls to these *known* functions opaque (the rules refer to them by name) and inlines
any function that is NOT in the inventory (a helper introduced by a later refactoring), so that extracting a helper
does not change what a rule sees.  Re-generate only deliberately (it is part of the checker's reference)."""
import json, os, sys
sys.path.insert(0, os.path.dirname(os.path.dirname(os.path.abspath(__file__))))
from pmv.frontend import Repo
repo = Repo()
inv = {}
for name, m in sorted(repo.modules.items()):
    inv[name] = {"functions": sorted(m.functions), "globals": sorted(m.globals), "classes": sorted(m.classes)}
out = os.path.join(os.path.dirname(os.path.dirname(os.path.abspath(__file__))), "pmv", "inventory.json")
json.dump(inv, open(out, "w"), indent=0, sort_keys=True)
print("inventory:", sum(len(v["functions"]) for v in inv.values()), "functions,", sum(len(v["globals"]) for v in inv.values()), "globals")
