"""R-UNITS / R-POS front ends over the abstract interpreter (absint)."""
from .absint import analysis_for
from .report import digest


def check_functions(repo, rep, funcs, prop_rule="R-UNITS"):
    """Report unit violations inside the listed (mod, qual) functions; records the
    number of trig sites analysed there."""
    an = analysis_for(repo)
    rep.rule(prop_rule, "no trig / inverse-trig / radians() / degrees() / Angle(.., radians=True) sink receives a value "
                        "that is definitely in the wrong unit (flow-sensitive deg/rad/ratio inference)")
    sites = set("%s.%s" % f for f in funcs)
    total = rad = 0
    for f in sorted(sites):
        repo.func(*f.split(".", 1))
        tb = an.trig_by_func.get(f, [0, 0])
        total += tb[0]
        rad += tb[1]
        rep.fn(*f.split(".", 1))
    evs = an.events_for("units", sites)
    bad_sites = set()
    for e in evs:
        bad_sites.add(e.site)
        rep.violation(prop_rule, e.site.split(".<locals>")[0], e.key, e.msg, construct="line %d" % e.node.lineno)
    for f in sorted(sites):
        if f not in bad_sites:
            tb = an.trig_by_func.get(f, [0, 0])
            rep.ok(prop_rule, f, "%d trig sites, %d with an argument proved to be radians, no definite unit conflict" % (tb[0], tb[1]),
                   sample=tb[0] > 0)
    rep.notes.append("%s: %d trig call sites in the family, %d with definitely-radian argument; package-wide %d/%d"
                     % (prop_rule, total, rad, an.trig_rad, an.trig_sites))
    return total, rad


def package_floor(repo, rep):
    an = analysis_for(repo)
    rep.floor("trig sites with a definite radian argument (package)", an.trig_rad, 1000)
    rep.floor("Angle(...) constructions classified (package)", an.angle_ctor, 200)


def first_component_pos(repo, rep, funcs, rule="R-POS"):
    """The first component of the value returned by each function is an Angle that
    is normalised (to_positive) on every returning path - using interprocedural
    return summaries."""
    an = analysis_for(repo)
    rep.rule(rule, "longitude-like first component of the result is to_positive()-normalised on every path "
                   "(Angle-range typestate, interprocedural)")
    for mod, qual in funcs:
        repo.func(mod, qual)
        rep.fn(mod, qual)
        key = "%s.%s" % (mod, qual)
        r = an.ret.get(key)
        if r is None or not r.elems:
            rep.violation(rule, key, "shape", "return value is not a tuple whose first component could be classified")
            continue
        first = r.elems[0]
        if first.only("angle+"):
            rep.ok(rule, key, "first component POS on every returning path")
        elif first.has("angle", "angle+"):
            rep.violation(rule, key, "lon-not-normalised",
                          "the longitude is returned without to_positive() after a correction was added on some path "
                          "(value may leave [0, 360))")
        else:
            rep.violation(rule, key, "shape", "first component is not an Angle on every path: %r" % (first,))


def check_optypes(repo, rep, funcs, rule="R-OPTYPE"):
    """No expression applies an operator that the operand's class does not define
    (definite TypeError on every execution of that expression)."""
    an = analysis_for(repo)
    rep.rule(rule, "no arithmetic expression on a value proved to be an Epoch uses an operator class Epoch does not define "
                   "(such an expression raises TypeError whenever it is reached)")
    sites = set("%s.%s" % f for f in funcs)
    bad = set()
    for e in an.events_for("optype", sites):
        bad.add(e.site)
        rep.violation(rule, e.site.split(".<locals>")[0], e.key, e.msg, construct="line %d" % e.node.lineno)
    for f in sorted(sites - bad):
        rep.ok(rule, f, "no definitely ill-typed operator application", sample=False)
