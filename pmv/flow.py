"""Structured control-flow helpers (the repository uses only structured code:
if/elif/else, for, while, try, early return/raise)."""
import ast

from .frontend import body_without_docstring


def can_complete(stmts):
    """True if execution can run off the end of the statement list."""
    for s in stmts:
        if not stmt_can_complete(s):
            return False
    return True


def stmt_can_complete(s):
    if isinstance(s, (ast.Return, ast.Raise)):
        return False
    if isinstance(s, ast.If):
        return can_complete(s.body) or can_complete(s.orelse)
    if isinstance(s, ast.While):
        # `while True:` without break never completes normally
        if isinstance(s.test, ast.Constant) and s.test.value is True:
            return any(isinstance(n, ast.Break) for n in ast.walk(s))
        return True
    if isinstance(s, ast.For):
        return True
    if isinstance(s, ast.Try):
        body_ok = can_complete(s.body + s.orelse)
        handlers_ok = any(can_complete(h.body) for h in s.handlers)
        if s.finalbody and not can_complete(s.finalbody):
            return False
        return body_ok or handlers_ok
    if isinstance(s, ast.With):
        return can_complete(s.body)
    return True


def returns(fn):
    """(value_returns, none_returns) Return nodes of fn itself (not nested defs)."""
    val, non = [], []

    def walk(stmts):
        for s in stmts:
            if isinstance(s, (ast.FunctionDef, ast.ClassDef, ast.Lambda)):
                continue
            if isinstance(s, ast.Return):
                if s.value is None or (isinstance(s.value, ast.Constant) and s.value.value is None):
                    non.append(s)
                else:
                    val.append(s)
            for f in ("body", "orelse", "finalbody"):
                if hasattr(s, f):
                    walk(getattr(s, f))
            if isinstance(s, ast.Try):
                for h in s.handlers:
                    walk(h.body)
    walk(fn.body)
    return val, non


def falls_off(fn):
    return can_complete(body_without_docstring(fn))
