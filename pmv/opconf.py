"""R-OPCONF: operator conformance for Angle and Epoch.  The Python data model fixes what
each special method must compute; the method bodies are evaluated symbolically and
compared (modulo algebra) with that meaning on the stored value (`_deg` / `_jde`)."""
import ast

from . import symx, terms as T
from .frontend import AnalysisError, norm_text, body_without_docstring
from .poly import Algebra
from .rules import outcomes, conjuncts, exc_name

INPLACE = {"__iadd__": ast.Add, "__isub__": ast.Sub, "__imul__": ast.Mult, "__idiv__": ast.Div, "__itruediv__": ast.Div,
           "__ipow__": ast.Pow, "__imod__": ast.Mod}


def norm(t):
    """float(x) -> x ; red(-x) -> -red(x)"""
    if not isinstance(t, tuple) or not t:
        return t
    h = t[0]
    if h in ("num", "sym", "str", "bool", "none", "opaque"):
        return t
    if h == "call" and t[1] == "float" and len(t) == 3:
        return norm(t[2])
    if h == "call" and t[1] == "red" and len(t) == 3:
        x = norm(t[2])
        if x[0] == "call" and x[1] == "red":
            return x
        c, rest = T.split_coeff(x)
        if c == -1 and rest[0] != "add":
            return T.neg(T.call("red", rest))      # reduce_deg keeps sign and magnitude: red(-x) = -red(x)
        return T.call("red", x)
    if h == "call":
        return ("call", t[1]) + tuple(norm(x) for x in t[2:])
    if h == "add":
        return T.add(*[norm(x) for x in t[1:]])
    if h == "mul":
        return T.mul(*[norm(x) for x in t[1:]])
    if h == "pow":
        return T.power(norm(t[1]), norm(t[2]))
    if not isinstance(h, str):
        return tuple(norm(x) for x in t)
    return (h,) + tuple(norm(x) if isinstance(x, tuple) else x for x in t[1:])


class Conformance:
    def __init__(self, repo, rep, mod, cls, kind, field):
        self.repo, self.rep, self.mod, self.cls, self.kind, self.field = repo, rep, mod, cls, kind, field
        self.m = repo.mod(mod)
        self.alg = Algebra()
        self.n = 0

    def site(self, meth):
        return "%s.%s.%s" % (self.mod, self.cls, meth)

    def has(self, meth):
        return self.m.has_func("%s.%s" % (self.cls, meth))

    def eval(self, meth, b=None, depth=0):
        """(list of (kind, cond, value)) with delegation to same-class methods resolved"""
        fn = self.repo.func(self.mod, "%s.%s" % (self.cls, meth))
        names = [a.arg for a in fn.args.args]
        at = {names[0]: (self.kind, T.sym("A"))}
        if len(names) > 1 and b is not None:
            at[names[1]] = b
        outs = outcomes(self.repo, self.mod, "%s.%s" % (self.cls, meth), arg_terms=at)
        res = []
        for o in outs:
            v = self.resolve(o.value, depth) if o.value is not None else None
            res.append((o.kind, self.resolve(o.cond, depth), v))
        return res

    def resolve(self, t, depth=0):
        """expand calls of this class's own methods on (self=A-kind term, arg)"""
        if depth > 4 or not isinstance(t, tuple) or not t:
            return t
        prefix = "%s.%s." % (self.mod, self.cls)
        mp = {}
        for x in T.walk(t):
            if x[0] == "call" and isinstance(x[1], str) and x[1].startswith(prefix) and len(x) >= 3 and x[2][0] == self.kind:
                meth = x[1][len(prefix):]
                if not self.has(meth):
                    continue
                fn = self.repo.func(self.mod, "%s.%s" % (self.cls, meth))
                names = [a.arg for a in fn.args.args]
                at = {names[0]: x[2]}
                for nme, val in zip(names[1:], x[3:]):
                    at[nme] = val
                outs = outcomes(self.repo, self.mod, "%s.%s" % (self.cls, meth), arg_terms=at)
                rt = symx.return_term(outs)
                if rt is not None:
                    mp[x] = self.resolve(rt, depth + 1)
        if not mp:
            return t
        r = T.subst(t, mp)
        # unary minus / not applied to a resolved Angle value
        return fix_kinds(r, self.kind)

    def value_eq(self, got, want):
        try:
            return self.alg.equal(norm(got), norm(want))
        except Exception:
            return norm(got) == norm(want)

    # ---------------------------------------------------------------- checks
    def binary(self, meth, want_fn, b_variants, result_kind):
        """want_fn(a, b) -> expected stored value; result is kind<value> (or plain value when result_kind is None)"""
        if not self.has(meth):
            return
        self.rep.fn(self.mod, "%s.%s" % (self.cls, meth))
        for bname, bterm, bval in b_variants:
            res = self.eval(meth, bterm)
            rets = [r for r in res if r[0] == "ret"]
            self.n += 1
            if not rets:
                self.rep.violation("R-OPCONF", self.site(meth), "no-return:" + bname, "%s with %s operand never returns a value" % (meth, bname))
                continue
            a = self.self_value()
            want = want_fn(a, bval)
            ok = True
            for kind_, cond, v in rets:
                val = v
                if result_kind is not None:
                    if v[0] != result_kind:
                        ok = False
                        break
                    val = v[1]
                if not self.value_eq(strip_outer_red(val), want):
                    ok = False
                    break
            if ok:
                self.rep.ok("R-OPCONF", self.site(meth) + "[" + bname + "]", "== " + T.show(norm(want))[:70], sample=(meth in ("__add__", "__rsub__", "__mod__")))
            else:
                self.rep.violation("R-OPCONF", self.site(meth), "meaning:" + bname,
                                   "%s with %s operand computes %s; the operator's meaning on the stored values is %s"
                                   % (meth, bname, T.show(norm(rets[0][2]))[:120], T.show(norm(want))[:80]))

    def self_value(self):
        return T.call("red", T.sym("A")) if self.kind == "angle" else T.sym("A")

    def inplace(self, meth):
        if not self.has(meth):
            return
        fn = self.repo.func(self.mod, "%s.%s" % (self.cls, meth))
        self.rep.fn(self.mod, "%s.%s" % (self.cls, meth))
        self.n += 1
        other = fn.args.args[1].arg
        want = INPLACE[meth]
        ok = False
        # accepted shapes:  self = self OP b ; return self   |   return self OP b   |   return self.__plain__(b)
        for node in ast.walk(fn):
            if isinstance(node, ast.Return) and node.value is not None:
                v = node.value
                if isinstance(v, ast.Name) and v.id == "self":
                    for a in ast.walk(fn):
                        if isinstance(a, ast.Assign) and len(a.targets) == 1 and isinstance(a.targets[0], ast.Name) and a.targets[0].id == "self" \
                                and isinstance(a.value, ast.BinOp) and isinstance(a.value.op, want) \
                                and isinstance(a.value.left, ast.Name) and a.value.left.id == "self" \
                                and isinstance(a.value.right, ast.Name) and a.value.right.id == other:
                            ok = True
                elif isinstance(v, ast.BinOp) and isinstance(v.op, want) and isinstance(v.left, ast.Name) and v.left.id == "self" \
                        and isinstance(v.right, ast.Name) and v.right.id == other:
                    ok = True
                elif isinstance(v, ast.Call) and isinstance(v.func, ast.Attribute) and isinstance(v.func.value, ast.Name) and v.func.value.id == "self" \
                        and len(v.args) == 1 and isinstance(v.args[0], ast.Name) and v.args[0].id == other:
                    plain = {"__itruediv__": ("__idiv__", "__truediv__", "__div__"), "__idiv__": ("__truediv__", "__div__")}.get(meth, (meth.replace("__i", "__", 1),))
                    if v.func.attr in plain or v.func.attr == meth.replace("__i", "__", 1):
                        ok = True
        if not ok:
            # semantic form: for a number operand the in-place method returns what the plain operator returns (helpers that
            # validate the operand, early raises and similar restructurings do not matter)
            plain_ = meth.replace("__i", "__", 1)
            cands = {"__itruediv__": ("__truediv__", "__div__"), "__idiv__": ("__div__", "__truediv__")}.get(meth, (plain_,))
            nb = T.sym("NUM_B")
            ri = [r for r in self.eval(meth, nb) if r[0] == "ret"]
            for pm in cands:
                if not self.has(pm):
                    continue
                rp = [r for r in self.eval(pm, nb) if r[0] == "ret"]
                if ri and rp and len(ri) == len(rp) and all(
                        a_[2] is not None and b_[2] is not None and a_[2][0] == b_[2][0]
                        and self.value_eq(a_[2][1] if a_[2][0] in ("angle", "epoch") else a_[2], b_[2][1] if b_[2][0] in ("angle", "epoch") else b_[2])
                        for a_, b_ in zip(ri, rp)):
                    ok = True
        # no store to the object's own field
        stores = [n for n in ast.walk(fn) if isinstance(n, ast.Attribute) and isinstance(n.ctx, ast.Store)]
        if ok and not stores:
            self.rep.ok("R-OPCONF", self.site(meth), "returns the value of `self %s other` as a new object (rebinding, no store to the operand)" % OPSYM[want], sample=(meth == "__iadd__"))
        else:
            self.rep.violation("R-OPCONF", self.site(meth), "inplace-form",
                               "in-place form does not return the value of the plain `self %s other` (or writes to the operand)" % OPSYM[want])

    def raises_zero(self, meth, b_variants, divisor_fn):
        if not self.has(meth):
            return
        for bname, bterm, bval in b_variants:
            res = self.eval(meth, bterm)
            a = self.self_value()
            d = divisor_fn(a, bval)
            ok = False
            for kind_, cond, v in res:
                if kind_ == "raise" and v == ("str", "ZeroDivisionError"):
                    for cj in conjuncts(cond):
                        if cj[0] == "cmp" and cj[1] == "Eq" and cj[3] == T.ZERO and self.value_eq(cj[2], d):
                            ok = True
            if not ok:
                # delegation through the operator itself: `return self / b` hands the zero divisor to the plain method
                fn = self.repo.func(self.mod, "%s.%s" % (self.cls, meth))
                names = [x.arg for x in fn.args.args]
                body_ = [st for st in fn.body if not (isinstance(st, ast.Expr) and isinstance(st.value, ast.Constant))]
                if len(body_) == 1 and isinstance(body_[0], ast.Return) and isinstance(body_[0].value, ast.BinOp) and len(names) == 2 \
                        and isinstance(body_[0].value.left, ast.Name) and body_[0].value.left.id == names[0] \
                        and isinstance(body_[0].value.right, ast.Name) and body_[0].value.right.id == names[1]:
                    plain = {ast.Div: ("__truediv__", "__div__"), ast.Mod: ("__mod__",), ast.FloorDiv: ("__floordiv__",)}.get(type(body_[0].value.op), ())
                    for target in plain:
                        if target != meth and self.has(target):
                            for kind_, cond, v in self.eval(target, bterm):
                                if kind_ == "raise" and v == ("str", "ZeroDivisionError"):
                                    for cj in conjuncts(cond):
                                        if cj[0] == "cmp" and cj[1] == "Eq" and cj[3] == T.ZERO and self.value_eq(cj[2], d):
                                            ok = True
                            if ok:
                                break
            if not ok:
                # pure delegation to a method of the class that does the check
                fn = self.repo.func(self.mod, "%s.%s" % (self.cls, meth))
                names = [x.arg for x in fn.args.args]
                at = {names[0]: (self.kind, T.sym("A"))}
                if len(names) > 1 and bterm is not None:
                    at[names[1]] = bterm
                raw = outcomes(self.repo, self.mod, "%s.%s" % (self.cls, meth), arg_terms=at)
                rets = [o for o in raw if o.kind == "ret"]
                prefix = "%s.%s." % (self.mod, self.cls)
                if len(rets) == 1 and rets[0].value[0] == "call" and rets[0].value[1].startswith(prefix) \
                        and rets[0].value[2] == (self.kind, T.sym("A")) and rets[0].value[3:] == (bterm,):
                    target = rets[0].value[1][len(prefix):]
                    sub = self.eval(target, bterm)
                    for kind_, cond, v in sub:
                        if kind_ == "raise" and v == ("str", "ZeroDivisionError"):
                            for cj in conjuncts(cond):
                                if cj[0] == "cmp" and cj[1] == "Eq" and cj[3] == T.ZERO and self.value_eq(cj[2], d):
                                    ok = True
            self.n += 1
            if ok:
                self.rep.ok("R-OPCONF", self.site(meth) + ":zero[" + bname + "]", "divisor == 0 -> ZeroDivisionError", sample=False)
            else:
                self.rep.violation("R-OPCONF", self.site(meth), "zero-division:" + bname, "division by zero is not turned into ZeroDivisionError on the divisor == 0 branch")


OPSYM = {ast.Add: "+", ast.Sub: "-", ast.Mult: "*", ast.Div: "/", ast.Pow: "**", ast.Mod: "%"}


def strip_outer_red(t):
    return t


def fix_kinds(t, kind):
    """-1 * kind<x>  ->  kind<-x>   (unary minus applied to an object of the class)"""
    if not isinstance(t, tuple) or not t:
        return t
    if t[0] == "mul" and len(t) == 3 and t[1] == T.num(-1) and t[2][0] == kind:
        return (kind, T.neg(t[2][1]))
    if isinstance(t[0], str) and t[0] in ("num", "sym", "str"):
        return t
    return tuple(fix_kinds(x, kind) if isinstance(x, tuple) else x for x in t)
