"""Helpers shared by the property modules."""
import ast
from fractions import Fraction

from . import symx, terms as T
from .frontend import AnalysisError, norm_text, body_without_docstring
from .poly import Algebra, Poly, Rat

D2R = symx.D2R


def outcomes(repo, mod, qual, **kw):
    outs, ctx = symx.eval_function(repo, mod, qual, **kw)
    return outs


def ret_term(repo, mod, qual, **kw):
    outs = outcomes(repo, mod, qual, **kw)
    t = symx.return_term(outs)
    if t is None:
        raise AnalysisError("%s.%s has no value-returning path" % (mod, qual))
    return t


def find_calls(t, name):
    return [x for x in T.walk(t) if x[0] == "call" and x[1] == name]


def strip_phi_true(t):
    return t


def radians_of_angle(t):
    """angle<X * d2r**-1>  ->  X (the radian expression handed to Angle(.., radians=True))."""
    if t[0] != "angle":
        return None
    v = t[1]
    if v[0] == "call" and v[1] == "pos":
        v = v[2]
    inv = T.power(D2R, T.num(-1))
    if v[0] == "mul" and inv in v[1:]:
        rest = [x for x in v[1:] if x != inv]
        return T.mul(*rest) if rest else T.ONE
    return None


def is_pos_angle(t):
    return t[0] == "angle" and t[1][0] == "call" and t[1][1] == "pos"


def rad_of(name):
    """Radian value of an Angle-typed parameter as symx represents it."""
    return T.mul(T.call("degof", T.sym(name)), D2R)


def sin_(x):
    return T.call("sin", x)


def cos_(x):
    return T.call("cos", x)


def guard_ifs(fn):
    """All `if test: raise X(...)` statements (any depth) -> (If node, exception name)."""
    out = []
    for n in ast.walk(fn):
        if isinstance(n, ast.If):
            for s in n.body:
                if isinstance(s, ast.Raise):
                    out.append((n, exc_name(s)))
                    break
    return out


def exc_name(r):
    e = r.exc
    if isinstance(e, ast.Call):
        e = e.func
    if isinstance(e, ast.Name):
        return e.id
    if isinstance(e, ast.Attribute):
        return e.attr
    return "?"


def disjuncts(c):
    if c[0] == "or":
        out = []
        for x in c[1:]:
            out.extend(disjuncts(x))
        return out
    return [c]


def conjuncts(c):
    if c[0] == "and":
        out = []
        for x in c[1:]:
            out.extend(conjuncts(x))
        return out
    return [c]


def refusal_check(outs, exc, wanted, describe):
    """R-RANGE-REFUSE on symx outcomes.  `wanted` is a list of predicates over a
    cmp term ('cmp', op, a, b); the rule holds iff some raise-outcome of class `exc`
    has a last path conjunct whose disjuncts satisfy every predicate, and every
    value-returning path carries the negation of that test in its path condition.
    Returns (ok, message)."""
    for o in outs:
        if o.kind != "raise" or o.value != ("str", exc):
            continue
        cj = conjuncts(o.cond)
        if not cj:
            continue
        test = cj[-1]
        ds = disjuncts(test)
        if all(any(p(d) for d in ds) for p in wanted):
            neg = T.lnot(test)
            bad = [r for r in outs if r.kind == "ret" and neg not in conjuncts(r.cond)]
            if bad:
                return False, "a value is returned on a path that does not pass the %s test" % describe
            return True, T.show(test)
    sem = _refusal_by_execution(outs, exc, wanted)
    if sem is not None:
        return sem
    return False, "no `raise %s` guarded by the %s test" % (exc, describe)


def _refusal_by_execution(outs, exc, wanted):
    """the refusal written another way (chained comparison, abs(), named constants, `not lo <= v <= hi`): the path conditions are executed
    on every class of the tested quantity against the stated bounds.  Returns (ok, message), or None when that cannot be done."""
    specs = [getattr(p_, "spec", None) for p_ in wanted]
    if not specs or any(s_ is None or s_[0] not in ("Lt", "Gt", "LtE", "GtE") for s_ in specs):
        return None
    pred = specs[0][1]
    cands = []
    for o in outs:
        for x in T.walk(o.cond):
            if x[0] == "cmp":
                for side in (x[2], x[3]):
                    if side[0] != "num" and pred(side) and side not in cands:
                        cands.append(side)
    if len(cands) != 1:
        return None
    V = T.sym("NUM_REFUSED_QUANTITY")
    import operator as _op
    ops = {"Lt": _op.lt, "Gt": _op.gt, "LtE": _op.le, "GtE": _op.ge}

    def prims(t_, env_):
        if t_[0] == "call" and t_[1] == "isinstance":
            return True
        return None
    reps = set()
    for _, _, b in specs:
        reps |= {b - 1, b - Fraction(1, 1000), b, b + Fraction(1, 1000), b + 1}
    try:
        for v in sorted(reps):
            env = {V: v}
            refused = returned = False
            for o in outs:
                c_ = T.subst(o.cond, {cands[0]: V})
                if o.kind == "raise" and o.value == ("str", exc) and eval_exact(c_, dict(env, **{"$memo": {}}), prims) is True:
                    refused = True
                elif o.kind == "ret" and eval_exact(c_, dict(env, **{"$memo": {}}), prims) is True:
                    returned = True
            want = any(ops[op_](v, b_) for op_, _, b_ in specs)
            if want and (returned or not refused):
                return False, "the value %s is %s although it lies outside the stated bounds" % (float(v), "accepted" if returned else "not refused with %s" % exc)
            if not want and refused:
                return False, "the value %s is refused although it lies inside the stated bounds" % float(v)
    except (NotEvaluable, TypeError, ValueError, KeyError):
        return None
    return True, "refusal decided by executing the path conditions on every class of the tested quantity against the bounds"


def cmp_is(op, lhs_pred, value):
    """predicate: ('cmp', op, a, b) with lhs_pred(a) and b == value (Fraction),
    or the mirrored comparison."""
    mirror = {"Lt": "Gt", "Gt": "Lt", "LtE": "GtE", "GtE": "LtE", "Eq": "Eq", "NotEq": "NotEq"}
    value = Fraction(value)

    def p(c):
        if c[0] != "cmp":
            return False
        _, o, a, b = c
        if o == op and lhs_pred(a) and b == ("num", value):
            return True
        if o == mirror.get(op) and lhs_pred(b) and a == ("num", value):
            return True
        return False
    p.spec = (op, lhs_pred, value)
    return p


def any_term(_):
    return True


def depends_on(t, pred):
    return any(pred(x) for x in T.walk(t))


def poly_in(alg, t, var):
    """Coefficients (as terms->Fractions when numeric) of t as a polynomial in the
    symbol `var`: returns dict degree -> Poly (in the other atoms)."""
    r = alg.rat(t)
    if not r.d.is_const():
        raise AnalysisError("not a polynomial (denominator depends on atoms)")
    n = r.n.scale(1 / r.d.const_value())
    out = {}
    va = ("V", var)
    for m, c in n.t.items():
        deg = 0
        rest = []
        for a, e in m:
            if a == va:
                deg = e
            else:
                rest.append((a, e))
        out.setdefault(deg, Poly())
        out[deg] = out[deg] + Poly({tuple(rest): c})
    return out


def numeric_poly(alg, t, var):
    """[c0, c1, ...] as Fractions; AnalysisError if a coefficient is not a number."""
    d = poly_in(alg, t, var)
    n = max(d) if d else 0
    coeffs = []
    for i in range(n + 1):
        p = d.get(i, Poly())
        if not p.is_const():
            raise AnalysisError("coefficient of %s^%d is not numeric: %r" % (var, i, p))
        coeffs.append(p.const_value())
    return coeffs


# --------------------------------------------------------------------------- R-TIMEARG
TIMEARG_EXCEPTIONS = {
    ("Coordinates.precession_newcomb", "36524.2199"): "Newcomb's theory counts tropical centuries from B1900 (2415020.3135)",
    ("Epoch.Epoch.get_date", "36524.25"): "mean Gregorian century of the calendar algorithm (Meeus ch.7), not a time argument",
    ("Epoch.Epoch.moslem2gregorian", "36524.25"): "same calendar algorithm block",
}
CENTURIES = (36525.0, 365250.0, 3652500.0)


def timearg_scan(repo, rep, funcs, rule="R-TIMEARG"):
    """Time arguments of the theories are clones of (E - L) / K.  For every such
    expression in the listed functions whose K is within 0.1 % of a Julian
    century/millennium/10 millennia, or whose L is within 40 days of J2000:
    K is exactly 36525 * 10**n and L exactly 2451545.0 (or JDE2000)."""
    rep.rule(rule, "every time argument (E - L)/K with K near a Julian century multiple or L near J2000 uses exactly "
                   "K in {36525, 365250, 3652500} and L = 2451545.0")
    n = 0
    for mod, qual in funcs:
        fn = repo.func(mod, qual)
        site = "%s.%s" % (mod, qual)
        for node in ast.walk(fn):
            if not (isinstance(node, ast.BinOp) and isinstance(node.op, ast.Div)):
                continue
            k = const_value(repo, mod, node.right)
            if k is None:
                continue
            left = node.left
            if not (isinstance(left, ast.BinOp) and isinstance(left.op, ast.Sub)):
                continue
            lval = const_value(repo, mod, left.right)
            near_k = any(abs(k - c) / c < 1e-3 for c in CENTURIES)
            near_l = lval is not None and abs(lval - 2451545.0) < 40.0
            if not (near_k or near_l):
                continue
            n += 1
            ktxt = norm_text(node.right)
            if (site, ktxt) in TIMEARG_EXCEPTIONS:
                rep.ok(rule, site, "listed exception K=%s: %s" % (ktxt, TIMEARG_EXCEPTIONS[(site, ktxt)]), sample=False)
                continue
            problems = []
            if near_k and k not in CENTURIES:
                problems.append("divisor %s is not exactly a Julian century multiple" % ktxt)
            if near_l and lval != 2451545.0:
                problems.append("origin %s is not exactly J2000 (2451545.0)" % norm_text(left.right))
            if near_k and lval is not None and not near_l and k in CENTURIES and abs(lval - 2451545.0) < 400:
                problems.append("origin %s is close to but not J2000" % norm_text(left.right))
            if problems:
                rep.violation(rule, site, "timearg:" + norm_text(node)[:70], "; ".join(problems), construct=norm_text(node)[:120])
            else:
                rep.ok(rule, site, norm_text(node)[:80], sample=(n <= 3))
    return n


def const_value(repo, mod, node):
    """numeric value of a literal / JDE2000 / module constant expression, else None"""
    if isinstance(node, ast.Constant) and isinstance(node.value, (int, float)) and not isinstance(node.value, bool):
        return float(node.value)
    if isinstance(node, ast.Name):
        if node.id == "JDE2000":
            t = symx.lookup(symx.Ctx(repo, mod), "JDE2000", {})
            if t[0] == "epoch" and t[1][0] == "num":
                return float(t[1][1])
            return None
        m = repo.mod(mod)
        if node.id in m.globals:
            try:
                v = m.literal(node.id)
                if isinstance(v, (int, float)):
                    return float(v)
            except AnalysisError:
                return None
    if isinstance(node, ast.UnaryOp) and isinstance(node.op, ast.USub):
        v = const_value(repo, mod, node.operand)
        return -v if v is not None else None
    return None


# --------------------------------------------------------------------------- pure time polynomials
def is_pure(t, allowed):
    """t is built from numbers and the allowed symbols with + * ** only"""
    h = t[0]
    if h == "num":
        return True
    if h == "sym":
        return t[1] in allowed
    if h in ("add", "mul"):
        return all(is_pure(x, allowed) for x in t[1:])
    if h == "pow":
        return is_pure(t[1], allowed) and t[2][0] == "num"
    return False


def pure_polys(term, var, min_degree=2):
    """maximal subterms of `term` that are polynomials in the single symbol `var`
    of degree >= min_degree; returns list of coefficient tuples (Fractions, c0..cn)."""
    alg = Algebra()
    out = []
    seen = set()

    def rec(t, parent_pure):
        if not isinstance(t, tuple) or not t:
            return
        if id(t) in seen:
            return
        seen.add(id(t))
        h = t[0]
        if not isinstance(h, str):
            for x in t:
                rec(x, False)
            return
        pure = h in ("add", "mul", "pow", "num", "sym") and is_pure(t, {var})
        if pure and not parent_pure:
            if any(x == ("sym", var) for x in T.walk(t)):
                try:
                    cs = numeric_poly(alg, t, var)
                except (AnalysisError, ZeroDivisionError):
                    cs = None
                if cs is not None and len(cs) - 1 >= min_degree:
                    out.append(tuple(cs))
            return
        if h == "add" and not pure:
            # the pure summands of a mixed sum form one polynomial (e.g. J0 + P*k + ... + sin terms)
            ps = [x for x in t[1:] if is_pure(x, {var})]
            if len(ps) >= 2 and any(any(y == ("sym", var) for y in T.walk(x)) for x in ps):
                g = T.add(*ps)
                try:
                    cs = numeric_poly(alg, g, var)
                except (AnalysisError, ZeroDivisionError):
                    cs = None
                if cs is not None and len(cs) - 1 >= min_degree:
                    out.append(tuple(cs))
                for x in t[1:]:
                    if x not in ps and isinstance(x, tuple):
                        rec(x, False)
                return
        if h == "mul" and not pure:
            # the pure factors of a mixed product form one polynomial (e.g. t*(a + b*t)*d2r)
            ps = [x for x in t[1:] if is_pure(x, {var})]
            if len([x for x in ps if any(y == ("sym", var) for y in T.walk(x))]) >= 2:
                g = T.mul(*ps)
                try:
                    cs = numeric_poly(alg, g, var)
                except (AnalysisError, ZeroDivisionError):
                    cs = None
                if cs is not None and len(cs) - 1 >= min_degree:
                    out.append(tuple(cs))
                    for x in t[1:]:
                        if x not in ps and isinstance(x, tuple):
                            rec(x, False)
                    return
        for x in t[1:]:
            if isinstance(x, tuple):
                rec(x, pure)
    rec(term, False)
    return out


def all_value_terms(outs):
    """every term reachable from the outcomes of a function (return values and the
    local environment at each return)"""
    vals = []
    for o in outs:
        if o.value is not None:
            vals.append(o.value)
        if o.kind == "ret":
            for k, v in o.env.items():
                if not k.startswith("$") and isinstance(v, tuple):
                    vals.append(v)
    return ("bag",) + tuple(vals)


# --------------------------------------------------------------------------- even-function normal form
def lead_negative(arg):
    """canonical sign of a sum: True if the summand with the smallest (coefficient-free) key has a negative coefficient"""
    c, rest = T.split_coeff(arg)
    if rest[0] == "mul":
        sums = [f for f in rest[1:] if f[0] == "add"]
        if len(sums) == 1:
            inner_neg = lead_negative(sums[0])
            return (c < 0) != inner_neg
        return c < 0
    if rest[0] == "add":
        best = None
        for s in rest[1:]:
            cc, rr = T.split_coeff(s)
            k = T.sortkey(rr)
            if best is None or k < best[0]:
                best = (k, cc)
        return (c < 0) != (best[1] < 0)
    return c < 0


def canon_sign(arg):
    """canonical representative of {arg, -arg}: positive numeric coefficient and a sum whose
    leading summand (smallest coefficient-free key) is positive"""
    c, rest = T.split_coeff(arg)

    def flip(sm):
        return T.add(*[T.neg(x) for x in sm[1:]])
    if rest[0] == "add":
        sm = flip(rest) if lead_negative(rest) else rest
        return T.mul(T.num(abs(c)), sm)
    if rest[0] == "mul":
        sums = [f for f in rest[1:] if f[0] == "add"]
        if len(sums) == 1:
            others = [f for f in rest[1:] if f is not sums[0]]
            sm = flip(sums[0]) if lead_negative(sums[0]) else sums[0]
            return T.mul(T.num(abs(c)), sm, *others)
    return T.mul(T.num(abs(c)), rest)


def even_norm(t, _memo=None):
    """rewrite cos(x) and sin(x)**(2k) so that x has canonical sign (cos(-x) = cos(x),
    sin(-x)^2 = sin(x)^2); everything else is rebuilt unchanged."""
    if _memo is None:
        _memo = {}
    if not isinstance(t, tuple) or not t:
        return t
    if id(t) in _memo:
        return _memo[id(t)][1]
    h = t[0]
    if not isinstance(h, str):
        r = tuple(even_norm(x, _memo) for x in t)
    elif h in ("num", "sym", "str", "bool", "none", "opaque"):
        r = t
    elif h == "call" and t[1] == "cos" and len(t) == 3:
        a = even_norm(t[2], _memo)
        r = ("call", "cos", canon_sign(a))
    elif h == "pow" and t[2][0] == "num" and t[2][1].denominator == 1 and t[2][1] % 2 == 0 \
            and t[1][0] == "call" and t[1][1] == "sin" and len(t[1]) == 3:
        a = even_norm(t[1][2], _memo)
        r = ("pow", ("call", "sin", canon_sign(a)), t[2])
    elif h == "call":
        r = ("call", t[1]) + tuple(even_norm(x, _memo) for x in t[2:])
    elif h == "add":
        r = T.add(*[even_norm(x, _memo) for x in t[1:]])
    elif h == "mul":
        r = T.mul(*[even_norm(x, _memo) for x in t[1:]])
    elif h == "pow":
        r = T.power(even_norm(t[1], _memo), even_norm(t[2], _memo))
    else:
        r = (h,) + tuple(even_norm(x, _memo) if isinstance(x, tuple) else x for x in t[1:])
    _memo[id(t)] = (t, r)
    return r


def assume(t, decide, _memo=None):
    """rebuild t with every condition for which decide(cond) returns True/False replaced by that
    truth value (phi nodes collapse to the chosen branch; and/or/not fold)."""
    if _memo is None:
        _memo = {}
    if not isinstance(t, tuple) or not t:
        return t
    k = id(t)
    if k in _memo:
        return _memo[k][1]
    h = t[0]
    if h in ("cmp", "and", "or", "not"):
        d = decide(t)
        if d is not None:
            r = ("bool", bool(d))
            _memo[k] = (t, r)
            return r
    if h == "phi":
        d = decide(t[1])            # a condition of any shape (e.g. a bare call) may be decided directly
        if d is not None:
            r = assume(t[2] if d else t[3], decide, _memo)
            _memo[k] = (t, r)
            return r
    if h in ("and", "or", "not"):
        # operands of a connective are conditions whatever their shape (e.g. a bare call)
        parts = (h,) + tuple(("bool", bool(decide(x))) if decide(x) is not None else assume(x, decide, _memo) for x in t[1:])
    else:
        parts = tuple(assume(x, decide, _memo) for x in t)
    if h == "phi":
        r = T.phi(parts[1], parts[2], parts[3])
    elif h == "not":
        r = T.lnot(parts[1])
    elif h == "and":
        if any(x == ("bool", False) for x in parts[1:]):
            r = ("bool", False)
        else:
            r = T.land(*parts[1:])
    elif h == "or":
        if any(x == ("bool", True) for x in parts[1:]):
            r = ("bool", True)
        else:
            rest = tuple(x for x in parts[1:] if x != ("bool", False))
            r = ("bool", False) if not rest else rest[0] if len(rest) == 1 else ("or",) + rest
    elif h == "add":
        r = T.add(*parts[1:])
    elif h == "mul":
        r = T.mul(*parts[1:])
    else:
        r = parts
    _memo[k] = (t, r)
    return r


class NotEvaluable(Exception):
    pass


def inline_repo_calls(repo, t, depth=2, only_mod=None):
    """calls of repository functions that were left as `call` nodes (inventory functions are not inlined by the evaluator) replaced by the
    callee's own return term with the actual arguments substituted - for rules that compare formulas, where `f(x) = g(-x)` is as good as
    writing g's formula out.  Positional arguments only; anything else is left alone."""
    if depth <= 0:
        return t
    mp = {}
    for x in set(y for y in T.walk(t) if y[0] == "call" and isinstance(y[1], str) and "." in y[1] and not y[1].startswith(".")):
        mod, _, q = x[1].partition(".")
        if only_mod is not None and mod != only_mod:
            continue
        m = repo.modules.get(mod)
        if m is None or q not in m.functions or any(a[0] == "kw" for a in x[2:]):
            continue
        fn = m.functions[q]
        names = [a.arg for a in fn.args.args]
        if fn.args.vararg or fn.args.kwarg or len(x) - 2 > len(names) or len(x) - 2 < len(names) - len(fn.args.defaults):
            continue
        syms = [T.sym("INL@%s@%d" % (x[1], i)) for i in range(len(x) - 2)]
        args = dict(zip(names, syms))
        acts = dict(zip(syms, x[2:]))
        if names and names[0] in ("self", "cls"):
            # a method: only on a receiver whose kind the evaluator models (an Epoch / Angle value)
            if len(x) < 3 or x[2][0] not in ("epoch", "angle"):
                continue
            args[names[0]] = (x[2][0], syms[0])
            acts[syms[0]] = x[2][1]
        try:
            body = ret_term(repo, mod, q, arg_terms=args)
        except Exception:
            continue
        mp[x] = inline_repo_calls(repo, T.subst(body, acts), depth - 1, only_mod)
    return T.subst(t, mp) if mp else t


def repo_prims(repo, base=None, unroll=64):
    """primitive hook for eval_exact that gives a call of a repository function (static method / module function kept as a
    `call` node because it is part of the frozen inventory) the meaning of its own extracted return term: the term is derived
    once per callee with symbolic arguments and executed exactly on the evaluated actuals.  `base` is consulted first."""
    cache = {}

    def prims(t, env):
        if base is not None:
            v = base(t, env)
            if v is not None:
                return v
        if t[0] == "sym" and isinstance(t[1], str) and "." in t[1] and not t[1].startswith("NUM_"):
            # a module-level name computed at import time by a call of a module function without arguments (a table built by a loop):
            # the function's own return term, loops unrolled, evaluated once
            key = ("global", t[1])
            if key not in cache:
                cache[key] = None
                mod, _, nm = t[1].partition(".")
                m_ = repo.modules.get(mod)
                node = m_.globals.get(nm) if m_ is not None and "." not in nm else None
                if isinstance(node, ast.Call) and isinstance(node.func, ast.Name) and not node.args and not node.keywords and node.func.id in m_.functions:
                    try:
                        gt = ret_term(repo, mod, node.func.id, unroll=1024)
                        cache[key] = (eval_exact(gt, {"$memo": {}}, prims),)
                    except (AnalysisError, NotEvaluable, RecursionError):
                        cache[key] = None
            return cache[key][0] if cache[key] is not None else None
        if t[0] != "call" or not isinstance(t[1], str) or t[1].startswith(".") or "." not in t[1]:
            return None
        name = t[1]
        if name not in cache:
            mod, _, q = name.partition(".")
            cache[name] = None
            try:
                fn = repo.func(mod, q)
            except Exception:
                fn = None
            if fn is not None and not fn.args.vararg and not fn.args.kwarg:
                names = [a.arg for a in fn.args.args]
                if names is not None:
                    syms = [T.sym("NUM_@%s@%d" % (name, i)) for i in range(len(names))]
                    if names and names[0] in ("self", "cls"):
                        syms[0] = T.sym("self")        # the receiver stays symbolic: a method that reads its object's state is not executable this way
                    dfl = [None] * (len(names) - len(fn.args.defaults))
                    for d_ in fn.args.defaults:
                        if isinstance(d_, ast.Constant) and isinstance(d_.value, (int, float)) and not isinstance(d_.value, bool):
                            dfl.append(Fraction(str(d_.value)))
                        elif isinstance(d_, ast.Constant) and isinstance(d_.value, bool):
                            dfl.append(d_.value)
                        else:
                            dfl.append(None)
                    try:
                        cache[name] = (syms, ret_term(repo, mod, q, arg_terms=dict(zip(names, syms)), unroll=unroll), dfl)
                    except Exception:
                        cache[name] = None
        ent = cache[name]
        if ent is None or len(t) - 2 > len(ent[0]) or any(a_[0] == "kw" for a_ in t[2:]):
            return None
        e2 = {"$memo": {}}
        for i_, s_ in enumerate(ent[0]):
            if s_ == T.sym("self"):
                continue
            if i_ < len(t) - 2:
                e2[s_] = eval_exact(t[2 + i_], env, prims)
            elif ent[2][i_] is not None:
                e2[s_] = ent[2][i_]
            else:
                return None
        return eval_exact(ent[1], e2, prims)
    return prims


def eval_exact(t, env=None, prims=None):
    """exact evaluation (Fractions / bools) of a closed term built from numbers, env symbols, + * **, floor, mod, int,
    abs, comparisons, and/or/not and phi; raises NotEvaluable naming the first construct that is none of these.
    With env["$memo"] = {} shared subterms (terms are DAGs) are evaluated once per environment."""
    import math
    env = env or {}
    memo = env.get("$memo")
    if memo is not None and isinstance(t, tuple) and t and t[0] in ("add", "mul", "call", "phi", "cmp", "idx", "pow"):
        k_ = id(t)
        if k_ in memo:
            return memo[k_][1]
        r_ = _eval_exact(t, env, prims)
        memo[k_] = (t, r_)
        return r_
    return _eval_exact(t, env, prims)


def _eval_exact(t, env, prims):
    import math
    h = t[0]
    if h == "sym" and t in env:
        return env[t]
    if h == "num":
        return t[1]
    if h == "bool":
        return t[1]
    if h == "str":
        return t[1]
    if h == "inloop":
        return True                       # marker conjunct of path conditions inside a loop body
    if h == "none":
        return None
    if h == "add":
        return sum((eval_exact(x, env, prims) for x in t[1:]), Fraction(0))
    if h == "mul":
        r = Fraction(1)
        for x in t[1:]:
            r *= eval_exact(x, env, prims)
        return r
    if h == "pow":
        b, e = eval_exact(t[1], env, prims), eval_exact(t[2], env, prims)
        if e.denominator != 1:
            raise NotEvaluable("fractional power")
        return b ** int(e)
    if h == "phi":
        return eval_exact(t[2] if eval_exact(t[1], env, prims) else t[3], env, prims)
    if h == "cmp":
        a, b = eval_exact(t[2], env, prims), eval_exact(t[3], env, prims)
        import operator as _op
        f_ = {"Eq": _op.eq, "NotEq": _op.ne, "Lt": _op.lt, "LtE": _op.le, "Gt": _op.gt, "GtE": _op.ge}.get(t[1])
        if t[1] in ("Is", "IsNot") and (a is None or b is None):
            return (a is b) if t[1] == "Is" else (a is not b)
        if t[1] in ("In", "NotIn") and isinstance(b, tuple):
            return (a in b) if t[1] == "In" else (a not in b)
        if f_ is None:
            raise NotEvaluable("comparison %s" % t[1])
        try:
            return f_(a, b)
        except TypeError:
            raise NotEvaluable("comparison of %s with %s" % (type(a).__name__, type(b).__name__))
    if h == "and":
        return all(eval_exact(x, env, prims) for x in t[1:])
    if h == "or":
        return any(eval_exact(x, env, prims) for x in t[1:])
    if h == "not":
        return not eval_exact(t[1], env, prims)
    if h == "call":
        if t[1] == "bool" and len(t) == 3:
            return bool(eval_exact(t[2], env, prims))
        if t[1] in ("floor", "int", "abs", "mod", "float", "round", "floordiv"):
            args = [eval_exact(x, env, prims) for x in t[2:]]
            if t[1] == "floordiv" and len(args) == 2 and args[1] != 0:
                return Fraction(args[0] // args[1])
            if t[1] == "floor":
                return Fraction(math.floor(args[0]))
            if t[1] == "int":
                return Fraction(int(args[0]))
            if t[1] == "abs":
                return abs(args[0])
            if t[1] == "float":
                return args[0]
            if t[1] == "mod":
                return args[0] % args[1]
        if prims is not None:
            r = prims(t, env)
            if r is not None:
                return r
        if t[1] in ("any", "all", "len", "min", "max", "sum", "list", "tuple") and len(t) == 3:
            v = eval_exact(t[2], env, prims)
            if isinstance(v, tuple):
                if t[1] in ("list", "tuple"):
                    return v
                if t[1] == "len":
                    return Fraction(len(v))
                if t[1] in ("any", "all"):
                    return {"any": any, "all": all}[t[1]](v)
                if v or t[1] == "sum":
                    return {"min": min, "max": max, "sum": lambda z: sum(z, Fraction(0))}[t[1]](v)
        if t[1] in ("min", "max") and len(t) > 3:
            return {"min": min, "max": max}[t[1]](eval_exact(x, env, prims) for x in t[2:])
        if t[1] in ("frozenset", "set", "tuple", "list", "sorted") and len(t) == 3:
            v = eval_exact(t[2], env, prims)
            if isinstance(v, tuple):
                if t[1] in ("frozenset", "set"):
                    seen = []
                    for x in v:
                        if x not in seen:
                            seen.append(x)
                    return tuple(seen)           # a set is represented by the tuple of its distinct members (membership and length are what matters)
                try:
                    return tuple(sorted(v)) if t[1] == "sorted" else v
                except TypeError:
                    raise NotEvaluable("sorted() of mixed values")
        raise NotEvaluable("call of %s" % t[1])
    if h in ("tuple", "list"):
        return tuple(eval_exact(x, env, prims) for x in t[1:])
    if h == "idx":
        i = eval_exact(t[2], env, prims)
        b = t[1]
        if b[0] in ("list", "tuple") and i.denominator == 1 and -(len(b) - 1) <= i < len(b) - 1:
            return eval_exact(b[1:][int(i)], env, prims)
        if b[0] == "dict":
            for k, v in b[1]:
                if k[0] == "num" and k[1] == i:
                    return eval_exact(v, env, prims)
        if b[0] not in ("list", "tuple", "dict"):
            bv = eval_exact(b, env, prims)
            if isinstance(bv, tuple) and i.denominator == 1 and -len(bv) <= i < len(bv):
                return bv[int(i)]
        raise NotEvaluable("subscript out of range / of a non-literal")
    if h == "attr" and prims is not None:
        r = prims(t, env)
        if r is not None:
            return r
    if h == "sym":
        if prims is not None:
            r = prims(t, env)
            if r is not None:
                return r
        raise NotEvaluable("free symbol %s" % t[1])
    raise NotEvaluable("term kind %s" % (h,))


def lift_phi(t):
    """distribute + and * over phi so that every phi sits above the arithmetic: a + phi(c, x, y) -> phi(c, a + x, a + y)"""
    if not isinstance(t, tuple) or not t:
        return t
    h = t[0]
    if h == "phi":
        return T.phi(t[1], lift_phi(t[2]), lift_phi(t[3]))
    if h in ("add", "mul"):
        args = [lift_phi(x) for x in t[1:]]
        for i, a in enumerate(args):
            if a[0] == "phi":
                mk = T.add if h == "add" else T.mul
                return T.phi(a[1], lift_phi(mk(*(args[:i] + [a[2]] + args[i + 1:]))), lift_phi(mk(*(args[:i] + [a[3]] + args[i + 1:]))))
        return (T.add if h == "add" else T.mul)(*args)
    return t


def formula_dnf(f, limit=256):
    """disjunctive normal form of a condition term whose connectives are and/or/not/phi/bool; literals are
    (atom, polarity) pairs; contradictory conjunctions are dropped.  Returns a list of frozensets, or None if too large."""
    def pos(x, pol):
        h = x[0]
        if h == "bool":
            return [frozenset()] if x[1] == pol else []
        if h == "not":
            return pos(x[1], not pol)
        if h in ("and", "or"):
            conj = (h == "and") == pol
            parts = [pos(y, pol) for y in x[1:]]
            if conj:
                acc = [frozenset()]
                for p in parts:
                    acc = [a | b for a in acc for b in p]
                    acc = [a for a in acc if not any((t, not q) in a for t, q in a)]
                    if len(acc) > limit:
                        raise OverflowError
                return acc
            out = []
            for p in parts:
                out.extend(p)
            return out
        if h == "phi":
            # phi(c, a, b) as a condition: (c and a) or (not c and b)
            g = ("or", ("and", x[1], x[2]), ("and", ("not", x[1]), x[3]))
            return pos(g, pol)
        return [frozenset([(x, pol)])]
    try:
        out = pos(f, True)
    except OverflowError:
        return None
    return [a for a in out if not any((t, not q) in a for t, q in a)]


def with_new_helpers(repo, mod, fn, depth=3):
    """fn plus the FunctionDefs of the helpers it (transitively) calls that are not in the frozen inventory - the code a
    refactoring may have moved out of fn.  For syntax-level rules that look for a construct 'inside fn'."""
    from .symx import inventory
    m = repo.mod(mod)
    inv = inventory().get(mod)
    out, seen = [fn], {id(fn)}
    frontier = [fn]
    for _ in range(depth):
        nxt = []
        for f in frontier:
            for n in ast.walk(f):
                if isinstance(n, ast.Call):
                    nm = n.func.attr if isinstance(n.func, ast.Attribute) else n.func.id if isinstance(n.func, ast.Name) else None
                    if nm is None:
                        continue
                    for q, g in m.functions.items():
                        if q.split(".")[-1] == nm and (inv is None or q not in inv["functions"]) and id(g) not in seen:
                            seen.add(id(g))
                            out.append(g)
                            nxt.append(g)
                    imp = m.imports.get(nm)
                    if imp and imp[0] and imp[0].startswith("pymeeus."):
                        om = repo.modules.get(imp[0].split(".", 1)[1])
                        oinv = inventory().get(imp[0].split(".", 1)[1])
                        g = om.functions.get(imp[1]) if om is not None else None
                        if g is not None and (oinv is None or imp[1] not in oinv["functions"]) and id(g) not in seen:
                            seen.add(id(g))          # a new helper living in another module of the package
                            out.append(g)
                            nxt.append(g)
        frontier = nxt
    return out


def walk_with_helpers(repo, mod, fn):
    for f in with_new_helpers(repo, mod, fn):
        for n in ast.walk(f):
            yield n


# ---------------------------------------------------------------------------------------------
# integer interval sets of one symbol from a boolean term
# ---------------------------------------------------------------------------------------------
IINF = 10 ** 12


def iset_inter(a, b):
    out = []
    for l1, h1 in a:
        for l2, h2 in b:
            lo_, hi_ = max(l1, l2), min(h1, h2)
            if lo_ <= hi_:
                out.append((lo_, hi_))
    return iset_union(out, [])


def iset_union(a, b):
    out = []
    for l_, h_ in sorted(list(a) + list(b)):
        if out and l_ <= out[-1][1] + 1:
            out[-1] = (out[-1][0], max(out[-1][1], h_))
        else:
            out.append((l_, h_))
    return out


def iset_compl(a):
    out, cur = [], -IINF
    for l_, h_ in iset_union(a, []):
        if cur < l_:
            out.append((cur, l_ - 1))
        cur = max(cur, h_ + 1)
    if cur <= IINF:
        out.append((cur, IINF))
    return out


def int_set(c, var):
    """(intervals, exact): the set of *integer* values of symbol `var` satisfying boolean term c,
    as sorted disjoint closed intervals.  Atoms that do not compare var with a number make the
    answer inexact; they are taken as satisfiable both ways (over-approximation in either polarity)."""
    import math
    full = [(-IINF, IINF)]
    exact = [True]

    def go(c, pos):
        h = c[0]
        if h == "bool":
            return full if bool(c[1]) == pos else []
        if h == "not":
            return go(c[1], not pos)
        if h in ("and", "or"):
            conj = (h == "and") == pos
            r = full if conj else []
            for x in c[1:]:
                s = go(x, pos)
                r = iset_inter(r, s) if conj else iset_union(r, s)
            return r
        if h == "cmp":
            op, a, b = c[1], c[2], c[3]
            if b == var and a[0] == "num":
                a, b = b, a
                op = {"Lt": "Gt", "Gt": "Lt", "LtE": "GtE", "GtE": "LtE"}.get(op, op)
            if a == var and b[0] == "num":
                v = b[1]
                fl, ce = math.floor(v), math.ceil(v)
                if op == "Lt":
                    s = [(-IINF, ce - 1)]
                elif op == "LtE":
                    s = [(-IINF, fl)]
                elif op == "Gt":
                    s = [(fl + 1, IINF)]
                elif op == "GtE":
                    s = [(ce, IINF)]
                elif op == "Eq":
                    s = [(fl, fl)] if fl == ce else []
                elif op == "NotEq":
                    s = iset_compl([(fl, fl)]) if fl == ce else full
                else:
                    exact[0] = False
                    return full
                return s if pos else iset_compl(s)
        exact[0] = False
        return full

    return go(c, True), exact[0]


# ---------------------------------------------------------------------------------------------
# sign-case equivalence prover
#   t == m for all inputs, decided by splitting on the sign (0 / + / -) of the operands of the comparisons with
#   zero that occur in either term; in each case the conditions fold and the residues are compared as polynomials.
#   Sound: every case assumption is applied to both terms; cases are exhaustive; nothing is sampled.
# ---------------------------------------------------------------------------------------------
def sign_of(x, facts):
    """'0' '+' '-' '>=0' '<=0' or None"""
    try:
        if x in facts:
            return facts[x]
    except TypeError:
        return None
    h = x[0]
    if h == "num":
        return "0" if x[1] == 0 else "+" if x[1] > 0 else "-"
    if h == "call":
        if x[1] == "abs" and len(x) == 3:
            s = sign_of(x[2], facts)
            return "+" if s in ("+", "-") else "0" if s == "0" else ">=0"
        if x[1] == "mod" and len(x) == 4 and sign_of(x[3], facts) == "+":
            return "0" if sign_of(x[2], facts) == "0" else ">=0"
        if x[1] in ("int", "floor") and len(x) == 3:
            s = sign_of(x[2], facts)
            return {"0": "0", "+": ">=0", ">=0": ">=0"}.get(s) if x[1] == "int" or s != "-" else None
        if x[1] == "float" and len(x) == 3:
            return sign_of(x[2], facts)
        return None
    if h == "mul":
        ss = [sign_of(y, facts) for y in x[1:]]
        if "0" in ss:
            return "0"
        if any(s is None for s in ss):
            return None
        neg = sum(1 for s in ss if s in ("-", "<=0")) % 2 == 1
        strict = all(s in ("+", "-") for s in ss)
        return ("-" if neg else "+") if strict else ("<=0" if neg else ">=0")
    if h == "add":
        ss = [sign_of(y, facts) for y in x[1:]]
        if all(s == "0" for s in ss):
            return "0"
        if all(s in ("+", ">=0", "0") for s in ss):
            return "+" if "+" in ss else ">=0"
        if all(s in ("-", "<=0", "0") for s in ss):
            return "-" if "-" in ss else "<=0"
    return None


def sign_simplify(t, facts, _memo=None):
    """fold comparisons with zero, abs, and closed int/mod/floor calls under the sign facts"""
    import math
    if _memo is None:
        _memo = {}
    if not isinstance(t, tuple) or not t or not isinstance(t[0], str):
        return t
    k = id(t)
    if k in _memo:
        return _memo[k][1]
    h = t[0]
    if h in ("num", "str", "bool", "sym", "opaque", "none"):
        r = t
    elif h == "cmp":
        a, b = sign_simplify(t[2], facts, _memo), sign_simplify(t[3], facts, _memo)
        r = ("cmp", t[1], a, b)
        s = None
        if a[0] == "num" and b[0] == "num":
            s = "0" if a[1] == b[1] else "+" if a[1] > b[1] else "-"
        elif b == T.num(0):
            s = sign_of(a, facts)
        elif a == T.num(0):
            s = {"+": "-", "-": "+", "0": "0", ">=0": "<=0", "<=0": ">=0"}.get(sign_of(b, facts))
        if s is not None:
            table = {"Gt": {"+": True, "0": False, "-": False, "<=0": False},
                     "GtE": {"+": True, "0": True, "-": False, ">=0": True},
                     "Lt": {"-": True, "0": False, "+": False, ">=0": False},
                     "LtE": {"-": True, "0": True, "+": False, "<=0": True},
                     "Eq": {"0": True, "+": False, "-": False},
                     "NotEq": {"0": False, "+": True, "-": True}}
            v = table.get(t[1], {}).get(s)
            if v is not None:
                r = ("bool", v)
    elif h == "call":
        args = tuple(sign_simplify(x, facts, _memo) for x in t[2:])
        r = ("call", t[1]) + args
        if t[1] == "abs" and len(args) == 1:
            s = sign_of(args[0], facts)
            if s in ("+", ">=0", "0"):
                r = args[0]
            elif s in ("-", "<=0"):
                r = T.neg(args[0])
        elif t[1] in ("int", "floor") and len(args) == 1 and args[0][0] == "call" and args[0][1] in ("int", "floor") and len(args[0]) == 3:
            r = args[0]                                 # int(floor(x)) == floor(x), floor(int(x)) == int(x)
        elif t[1] == "int" and len(args) == 1 and args[0][0] != "num" and sign_of(args[0], facts) in ("+", ">=0", "0"):
            r = ("call", "floor", args[0])              # truncation == floor for a non-negative argument
        elif t[1] in ("int", "floor") and len(args) == 1 and args[0][0] == "num":
            r = T.num(Fraction(int(args[0][1]) if t[1] == "int" else math.floor(args[0][1])))
        elif t[1] == "mod" and len(args) == 2 and args[0][0] == "num" and args[1][0] == "num" and args[1][1] != 0:
            r = T.num(args[0][1] % args[1][1])
        elif t[1] == "float" and len(args) == 1 and args[0][0] == "num":
            r = args[0]
    else:
        kids = tuple(sign_simplify(x, facts, _memo) if isinstance(x, tuple) else x for x in t[1:])
        if h == "add":
            r = T.add(*kids)
        elif h == "mul":
            r = T.mul(*kids)
        elif h == "pow":
            r = T.power(*kids)
        elif h == "phi":
            r = T.phi(*kids)
        elif h == "not":
            r = T.lnot(kids[0])
        elif h == "and":
            r = ("bool", False) if any(x == ("bool", False) for x in kids) else T.land(*kids)
        elif h == "or":
            if any(x == ("bool", True) for x in kids):
                r = ("bool", True)
            else:
                rest = tuple(x for x in kids if x != ("bool", False))
                r = ("bool", False) if not rest else rest[0] if len(rest) == 1 else ("or",) + rest
        else:
            r = (h,) + kids
    _memo[k] = (t, r)
    return r


def _alg_equal(a, b):
    from .poly import Algebra
    if a == b:
        return True
    if a[0] in ("tuple", "list") and b[0] == a[0] and len(a) == len(b):
        return all(_alg_equal(x, y) for x, y in zip(a[1:], b[1:]))
    if a[0] in ("tuple", "list", "str", "bool") or b[0] in ("tuple", "list", "str", "bool"):
        return False
    try:
        return bool(Algebra(atomize=True).equal(a, b))
    except Exception:
        return False


def signcase_equal(t, m, facts=None, depth=6, stats=None, trail=()):
    """(True, None) when t == m in every sign case; (False, (case, t', m')) when some fully split case leaves two
    different residues; (None, why) when the split does not terminate within `depth` or no atom is left to split on
    although the residues still contain conditions."""
    facts = dict(facts or {})
    t1, m1 = sign_simplify(t, facts), sign_simplify(m, facts)
    if stats is not None:
        stats["cases"] = stats.get("cases", 0) + 1
    if _alg_equal(t1, m1):
        return True, None
    atoms = []
    for src in (t1, m1):
        for x in T.walk(src):
            if x[0] == "cmp" and (x[3] == T.num(0) or x[2] == T.num(0)):
                a = x[2] if x[3] == T.num(0) else x[3]
                if not any(y[0] in ("phi", "cmp") for y in T.walk(a)) and a[0] != "num":
                    atoms.append(a)
    if not atoms:
        has_cond = any(x[0] in ("phi", "cmp") for x in T.walk(("bag", t1, m1)))
        if has_cond:
            return None, "conditions other than comparisons with zero remain"
        return False, (trail, t1, m1)
    if depth == 0:
        return None, "more than the allowed nesting of sign cases"
    x = min(atoms, key=lambda a: len(T.show(a)))
    s = sign_of(x, facts)
    cases = {">=0": ("0", "+"), "<=0": ("0", "-")}.get(s, ("0", "+", "-"))
    for c in cases:
        f2 = dict(facts)
        if c == "0":
            t2, m2 = T.subst(t1, {x: T.num(0)}), T.subst(m1, {x: T.num(0)})
            f2 = {T.subst(k, {x: T.num(0)}): v for k, v in f2.items()}
        else:
            t2, m2 = t1, m1
            f2[x] = c
        ok, why = signcase_equal(t2, m2, f2, depth - 1, stats, trail + ((T.show(x)[:40], {'0': '== 0', '+': '> 0', '-': '< 0'}[c]),))
        if ok is not True:
            return ok, why
    return True, None


# ---------------------------------------------------------------------------------------------
# real-valued simplification of path conditions; splitting of phi-valued outcomes
# ---------------------------------------------------------------------------------------------
_COMPL = {"Lt": "GtE", "GtE": "Lt", "Gt": "LtE", "LtE": "Gt", "Eq": "NotEq", "NotEq": "Eq"}


def simplify_cond(c):
    """negation normal form over the reals: not (a < b) is a >= b; a conjunction holding a comparison and its complement
    is False, a disjunction holding both is True; nested and/or flattened.  (NaN is outside the model.)"""
    def nnf(t, neg):
        h = t[0]
        if h == "not":
            return nnf(t[1], not neg)
        if h == "bool":
            return ("bool", bool(t[1]) != neg)
        if h == "cmp" and t[1] in _COMPL:
            return ("cmp", _COMPL[t[1]], t[2], t[3]) if neg else t
        if h in ("and", "or"):
            conj = (h == "and") != neg
            parts = []
            for x in t[1:]:
                y = nnf(x, neg)
                if y[0] == ("and" if conj else "or"):
                    parts.extend(y[1:])
                else:
                    parts.append(y)
            out = []
            for y in parts:
                if y == ("bool", conj):
                    continue
                if y == ("bool", not conj):
                    return ("bool", not conj)
                if y not in out:
                    out.append(y)
            for y in out:
                if y[0] == "cmp" and y[1] in _COMPL and ("cmp", _COMPL[y[1]], y[2], y[3]) in out:
                    return ("bool", not conj)
            if conj:
                # absorb: a and (a or b) == a ; drop a disjunct list containing a sibling's complement literal
                keep = []
                for y in out:
                    if y[0] == "or":
                        alts = [z for z in y[1:] if not (z[0] == "cmp" and z[1] in _COMPL and ("cmp", _COMPL[z[1]], z[2], z[3]) in out)
                                and not (z[0] == "and" and any(w[0] == "cmp" and w[1] in _COMPL and ("cmp", _COMPL[w[1]], w[2], w[3]) in out for w in z[1:]))]
                        if any(z in out for z in alts):
                            continue
                        if not alts:
                            return ("bool", False)
                        y = alts[0] if len(alts) == 1 else ("or",) + tuple(alts)
                        if y[0] == "and":
                            keep.extend(w for w in y[1:] if w not in keep and w not in out)
                            continue
                    keep.append(y)
                out = keep
            if not out:
                return ("bool", conj)
            if len(out) == 1:
                return out[0]
            return (("and",) if conj else ("or",)) + tuple(out)
        return ("not", t) if neg else t
    prev = None
    cur = c
    for _ in range(4):
        if cur == prev:
            break
        prev, cur = cur, nnf(cur, False)
    return cur


def phi_leaves(t, conds=()):
    if t[0] == "phi":
        yield from phi_leaves(t[2], conds + (t[1],))
        yield from phi_leaves(t[3], conds + (T.lnot(t[1]),))
    else:
        yield conds, t


def split_phi_outcomes(outs, simplify=True):
    """one outcome per leaf of a phi-valued return (as produced when a helper with several returns was inlined); path
    conditions simplified over the reals, infeasible outcomes dropped"""
    res = []
    for o in outs:
        leaves = list(phi_leaves(o.value)) if (o.kind == "ret" and o.value is not None and o.value[0] == "phi") else [((), o.value)]
        for conds, leaf in leaves:
            c = T.land(o.cond, *conds)
            if simplify:
                c = simplify_cond(c)
            if c == ("bool", False):
                continue
            res.append(symx.Outcome(o.kind, c, leaf, o.env, o.node))
    return res


def prop_unsat(c, max_atoms=14):
    """True when the condition is propositionally unsatisfiable (comparisons and their complements `a < b` / `a >= b`
    share one variable; every other atom is its own variable); None when there are too many atoms.  Exhaustive truth table."""
    import itertools
    atoms = {}

    def lit(t):
        if t[0] == "cmp" and t[1] in ("GtE", "LtE", "NotEq"):
            return ("cmp", _COMPL[t[1]], t[2], t[3]), False
        return t, True

    def collect(t):
        h = t[0]
        if h in ("and", "or"):
            for x in t[1:]:
                collect(x)
        elif h == "not":
            collect(t[1])
        elif h != "bool":
            a, _ = lit(t)
            atoms.setdefault(a, len(atoms))
    collect(c)
    if len(atoms) > max_atoms:
        return None

    def ev(t, val):
        h = t[0]
        if h == "bool":
            return bool(t[1])
        if h == "and":
            return all(ev(x, val) for x in t[1:])
        if h == "or":
            return any(ev(x, val) for x in t[1:])
        if h == "not":
            return not ev(t[1], val)
        a, pol = lit(t)
        return val[atoms[a]] == pol
    for val in itertools.product((False, True), repeat=len(atoms)):
        if ev(c, val):
            return False
    return True


def stateless_scan(repo, rep, fam, rule="R-STATELESS"):
    """the functions of `fam` (and the helpers a refactoring split off from them) do not retain a caller's mutable object
    between calls: a store to a class attribute / global whose value holds a parameter object by reference (not a copy or
    a number derived from it) lets a later call compare against, or serve results for, an object the caller has since
    changed.  Value-keyed memos (epoch.jde(), Epoch(epoch), float(x)) are not flagged."""
    import ast as _ast
    rep.rule(rule, "no class-attribute / global store retains a parameter object by reference (a memo keyed on a mutable argument serves stale results)")
    n = 0
    for mod, qual in fam:
        try:
            fn = repo.func(mod, qual)
        except Exception:
            continue
        for f in with_new_helpers(repo, mod, fn):
            n += 1
            params = {a.arg for a in f.args.args + f.args.kwonlyargs} - {"self", "cls"}
            objects = set()
            for node in _ast.walk(f):
                if isinstance(node, _ast.Call) and isinstance(node.func, _ast.Name) and node.func.id == "isinstance" and len(node.args) == 2 \
                        and isinstance(node.args[0], _ast.Name) and node.args[0].id in params:
                    names = {x.id for x in _ast.walk(node.args[1]) if isinstance(x, _ast.Name)}
                    if names - {"int", "float", "str", "bool", "complex"}:
                        objects.add(node.args[0].id)
                if isinstance(node, _ast.Call) and isinstance(node.func, _ast.Attribute) and isinstance(node.func.value, _ast.Name) \
                        and node.func.value.id in params:
                    objects.add(node.func.value.id)
            local_names = set(params)
            for s_ in _ast.walk(f):
                if isinstance(s_, _ast.Name) and isinstance(s_.ctx, _ast.Store):
                    local_names.add(s_.id)
            globs = set()
            for node in _ast.walk(f):
                if isinstance(node, (_ast.Global, _ast.Nonlocal)):
                    globs.update(node.names)

            def bare_params(v):
                """parameter objects that v holds by reference: bare names, possibly inside tuple/list/dict displays"""
                if isinstance(v, _ast.Name):
                    return {v.id} & objects
                if isinstance(v, (_ast.Tuple, _ast.List, _ast.Set)):
                    return set().union(*[bare_params(e) for e in v.elts]) if v.elts else set()
                if isinstance(v, _ast.Dict):
                    return set().union(*[bare_params(e) for e in list(v.keys) + list(v.values) if e is not None]) if v.values else set()
                if isinstance(v, _ast.IfExp):
                    return bare_params(v.body) | bare_params(v.orelse)
                return set()
            for node in _ast.walk(f):
                if not isinstance(node, (_ast.Assign, _ast.AugAssign, _ast.AnnAssign)) or getattr(node, "value", None) is None:
                    continue
                targets = node.targets if isinstance(node, _ast.Assign) else [node.target]
                for tg in targets:
                    base = tg
                    while isinstance(base, (_ast.Attribute, _ast.Subscript)):
                        base = base.value
                    persistent = (isinstance(tg, _ast.Name) and tg.id in globs) or \
                                 (isinstance(tg, (_ast.Attribute, _ast.Subscript)) and isinstance(base, _ast.Name)
                                  and base.id not in local_names - globs and base.id != "self")
                    if persistent:
                        kept = bare_params(node.value)
                        if kept:
                            rep.violation(rule, "%s.%s" % (mod, qual), "state:" + norm_text(tg),
                                          "`%s` keeps the caller's object `%s` by reference between calls: once the caller changes that object in place, "
                                          "results cached for it are served for the new value" % (norm_text(tg), ", ".join(sorted(kept))),
                                          construct="line %d" % node.lineno)
    rep.ok(rule, "family", "%d functions: no persistent store retains a parameter object" % n)
    return n
