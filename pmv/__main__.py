"""CLI:  python3-vt -m pmv <Cnn> [--tier quick|thorough]
Exit 0: every decided clause held (KNOWN-FINDING / INCONCLUSIVE lines allowed).
Exit 1: at least one unlisted violation (VIOLATION line per violation).
Exit 2: ANALYSIS-ERROR (unparsable source, vanished anchor, floor not met)."""
import importlib
import os
import sys
import traceback

from .frontend import Repo, AnalysisError
from .report import Report, finish

PROPS = ["C%02d" % i for i in range(1, 21)]


def main(argv):
    if len(argv) < 1:
        print(__doc__)
        return 2
    prop = argv[0]
    tier = os.environ.get("VERIF_TIER", "quick")
    if "--tier" in argv:
        tier = argv[argv.index("--tier") + 1]
    if tier not in ("quick", "thorough"):
        tier = "quick"
    try:
        seed = int(os.environ.get("VERIF_SEED", "0"))
    except ValueError:
        seed = 0
    if prop == "selftest":
        from . import selftest
        return selftest.main(argv[1:])
    if prop == "all":
        rc = 0
        for p in PROPS:
            r = run_one(p, tier, seed)
            rc = max(rc, r)
        return rc
    if prop == "replay":
        import json
        with open(argv[1]) as fh:
            rec = json.load(fh)
        print("replaying %s on the current tree (rule %s at %s)" % (rec["property"], rec["rule"], rec["site"]))
        return run_one(rec["property"], tier, seed)
    if prop not in PROPS:
        print("unknown property", prop)
        return 2
    return run_one(prop, tier, seed)


def run_one(prop, tier, seed):
    try:
        try:
            mod = importlib.import_module("pmv.props." + prop.lower())
        except ModuleNotFoundError:
            print("ANALYSIS-ERROR property=%s no check implemented" % prop)
            return 2
        repo = Repo()
        rep = Report(prop, tier, seed)
        level = mod.run(repo, rep, tier) or "other"
        kw = dict(getattr(mod, "FINISH_KW", {}))
        extra = {}
        if tier == "thorough":
            from . import thorough
            rc2, extra = thorough.run(prop, repo, rep)
            if rc2 == 2:
                return 2
        kw["extra_cov"] = dict(kw.get("extra_cov") or {}, **extra)
        return finish(rep, level=level, **kw)
    except AnalysisError as e:
        print("ANALYSIS-ERROR property=%s %s" % (prop, e))
        return 2
    except Exception:
        traceback.print_exc()
        print("ANALYSIS-ERROR property=%s internal error in the checker (see traceback)" % prop)
        return 2


if __name__ == "__main__":
    sys.exit(main(sys.argv[1:]))
