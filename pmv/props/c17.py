"""C17 curve fitting returns the least-squares solution (proof level on exact arithmetic).

Obligations (all must be discharged by the polynomial normal form):
  O1 each accumulator of _compute_parameters is the power-sum moment it is used as
     (increment is the monomial x^i*y^j of the current point only => order independent)
  O2 linear fit solves its 2 normal equations; O3 quadratic fit its 3; O4 general fit
     its 3 (in the basis moments); O5 the short-circuit return of the general fit solves
     them under its guard; O6 every division is guarded by |d| < TOL -> ZeroDivisionError
  O7 r^2 (n Sxx - Sx^2)(n Syy - Sy^2) == (n Sxy - Sx Sy)^2 and the invariances of r under
     positive affine rescaling / sign change at moment level
  O8 general fit on the basis (x^2, x, 1) == quadratic fit
  O9 with the third basis function omitted (documented default) some returning path that
     does not require a null second function solves the 2x2 system (== linear fit on (x, 1))
"""
from fractions import Fraction

from .. import symx, terms as T
from ..frontend import AnalysisError
from ..poly import Algebra, Poly, Rat
from ..rules import outcomes, conjuncts, split_phi_outcomes, prop_unsat, simplify_cond
from .. import effects, guards

MANIFEST = {
    "level": "proof",
    "technique": "static analysis: symbolic evaluation of the fitting methods to rational functions of the accumulated moments, identities discharged by polynomial normal form (exact rational arithmetic), conditional constant propagation of the documented default argument, symbolic execution of set() on every input form (tables of equal length holding the points in order)",
    "text": "Every closed form in CurveFitting is shown, as an identity between rational functions of the data moments, to satisfy the normal equations of its least-squares problem; accumulators are shown to be the moments they are used as; the correlation coefficient identity and its invariances are shown; the general fit is shown to reduce to the quadratic and linear fits. This is a proof about exact real arithmetic for all data sets at once; conditioning in floating point is outside it. The copy form stores the source's tables by reference; that no in-place mutation of them can follow is decided with the shared-container rule of C20, so that a copy never fits tables belonging to another data set than its sums.",
    "note": "Trusted base: Python ast, the term/polynomial engine (ring axioms over Q, sqrt(x)^2 = x), the reading of `+=` in a for loop as a commutative fold. Undecided: 1e-6 accuracy on floats, independence from input form beyond set().",
}
FINISH_KW = {"checker_cmd": "./check C17 --tier thorough",
             "trusted_base": ["Python ast module", "pmv.poly normal form over Q (ring axioms, sqrt(x)^2 = x)",
                              "for-loop `+=` read as a commutative fold over the data points"]}
MOD = "CurveFitting"
# moment (i, j) = sum x^i y^j
FIELD_USE = {  # role symbol used by the closed forms -> moment
    "n": (0, 0), "sx": (1, 0), "sxx": (2, 0), "sxxx": (3, 0), "sxxxx": (4, 0), "sy": (0, 1), "sxy": (1, 1), "sxxy": (2, 1), "syy": (0, 2)}


def msym(i, j):
    return T.sym("m%d%d" % (i, j))


XL = ("attr", T.sym("self"), "_x")
YL = ("attr", T.sym("self"), "_y")


def _strip_copy(t):
    while t[0] == "call" and t[1] in ("list", "tuple") and len(t) == 3:
        t = t[2]
    return t


def canon_points(loop, inc):
    """substitution that rewrites the references of one loop iteration to the current data point as X / Y, whatever the
    iteration idiom: for i in range(N): xs[i]; for i, v in enumerate(xs): v, ys[i]; for x, y in zip(xs, ys); for v in xs.
    Returns (mapping, covers_all_points) or (None, reason)."""
    header = loop[2]
    if header is None or header[0] != "for":
        return None, "not a for loop"
    it, tn = _strip_copy(header[1]), (header[2] if len(header) > 2 else ())
    lid = loop[1]
    lt = lambda n: ("lt", lid, n)
    sym_of = {XL: T.sym("X"), YL: T.sym("Y")}
    mp = {}
    pos = None
    covers = True
    if it[0] == "call" and it[1] == "range" and len(tn) == 1:
        pos = lt(tn[0])
        covers = len(it) == 3          # range(N): N is checked by the caller
    elif it[0] == "call" and it[1] == "enumerate" and len(it) == 3 and len(tn) == 2:
        pos = lt(tn[0])
        base = _strip_copy(it[2])
        if base in sym_of:
            mp[lt(tn[1])] = sym_of[base]
    elif it[0] == "call" and it[1] == "zip" and len(tn) == len(it) - 2:
        for n_, a_ in zip(tn, it[2:]):
            base = _strip_copy(a_)
            if base in sym_of:
                mp[lt(n_)] = sym_of[base]
    elif it in sym_of and len(tn) == 1:
        mp[lt(tn[0])] = sym_of[it]
    else:
        return None, "iteration idiom not recognised"
    if pos is not None:
        for x in T.walk(inc):
            if x[0] == "idx" and x[2] == pos and _strip_copy(x[1]) in sym_of:
                mp[x] = sym_of[_strip_copy(x[1])]
    return mp, covers


def moments_of_fields(repo, rep):
    """O1: field -> (i, j) derived from _compute_parameters"""
    q = "CurveFitting._compute_parameters"
    rep.fn(MOD, q)
    outs = outcomes(repo, MOD, q)
    rets = [o for o in outs if o.kind in ("ret", "fall")]
    if not rets:
        raise AnalysisError("_compute_parameters has no exit")
    env = rets[-1].env
    table = {}
    unknown = []
    alg = Algebra()
    for k, v in env.items():
        if not k.startswith("self._"):
            continue
        f = k[5:]
        if v[0] == "call" and v[1] == "len" and len(v) == 3 and _strip_copy(v[2]) in (XL, YL):
            table[f] = (0, 0)
        elif v[0] == "call" and v[1] in ("fsum", "sum") and len(v) == 3 and _strip_copy(v[2]) == XL:
            table[f] = (1, 0)
        elif v[0] == "call" and v[1] in ("fsum", "sum") and len(v) == 3 and _strip_copy(v[2]) == YL:
            table[f] = (0, 1)
        elif v[0] == "loopout":
            loop = v[2]
            header, inits, body = loop[2], dict(loop[3]), dict(loop[4])
            # for i in range(self._N) over all points
            bt = body.get(k)
            init = inits.get(k)
            if bt is None or init != T.ZERO:
                rep.violation("R-E4-ID", MOD + "." + q, "acc-init:" + f, "accumulator %s does not start from 0" % f, obligation=True)
                continue
            lv = ("lv", loop[1], k)
            inc = T.sub(bt, lv)
            mp, covers = canon_points(loop, inc)
            if mp is None:
                rep.inconcl("R-E4-ID", MOD + "." + q, "accumulation loop of %s: %s" % (f, covers))
                unknown.append(f)
                continue
            # the increment must be a monomial in x_i, y_i of the loop's own index
            inc2 = T.subst(inc, mp)
            if any(x[0] in ("lt", "idx", "lv") for x in T.walk(inc2)):
                rep.violation("R-E4-ID", MOD + "." + q, "acc-index:" + f, "increment of %s does not use exactly the current point" % f, obligation=True)
                continue
            r = alg.rat(inc2)
            if not r.d.is_const() or len(r.n.t) != 1:
                rep.violation("R-E4-ID", MOD + "." + q, "acc-form:" + f, "increment of %s is not a single monomial x^i*y^j: %s" % (f, T.show(inc2)[:80]), obligation=True)
                continue
            (mono, c), = r.n.t.items()
            if c / r.d.const_value() != 1 or any(a not in (("V", "X"), ("V", "Y")) for a, e in mono):
                rep.violation("R-E4-ID", MOD + "." + q, "acc-form:" + f, "increment of %s is not x^i*y^j of the current point: %s" % (f, T.show(inc2)[:80]), obligation=True)
                continue
            d = dict(mono)
            table[f] = (d.get(("V", "X"), 0), d.get(("V", "Y"), 0))
            # range covers all points
            it = header[1]
            if it[0] == "call" and it[1] == "range":
                nfields = [T.call("len", XL), T.call("len", YL)] + [("attr", T.sym("self"), "_" + g) for g, ij in table.items() if ij == (0, 0)]
                if not (len(it) == 3 and (it[2] in nfields or env.get("self." + it[2][2] if it[2][0] == "attr" else "") in nfields[:2])):
                    rep.violation("R-E4-ID", MOD + "." + q, "acc-range:" + f, "accumulation loop is not `for i in range(N)` with N the number of points", obligation=True)
    table["$unknown"] = unknown
    return table


def subst_fields(t, table):
    mp = {}
    for x in T.walk(t):
        if x[0] == "attr" and x[1] == T.sym("self") and x[2] in table:
            mp[x] = msym(*table[x[2]])
    return T.subst(t, mp)


def returns_of(repo, q, **kw):
    outs = outcomes(repo, MOD, q, **kw)
    return outs


def check_normal_equations(alg, rep, site, coefs, rows, rhs, what):
    """rows[k] . coefs == rhs[k] for all k"""
    ok = True
    for k, (row, b) in enumerate(zip(rows, rhs)):
        lhs = T.add(*[T.mul(c, m) for c, m in zip(coefs, row)])
        if not alg.equal(lhs, b):
            ok = False
            rep.violation("R-E4-ID", site, "normal-eq-%d" % (k + 1), "%s: normal equation %d is not satisfied by the returned coefficients" % (what, k + 1), obligation=True)
        else:
            rep.ok("R-E4-ID", site + ":eq%d" % (k + 1), "%s: normal equation %d discharged" % (what, k + 1), obligation=True, sample=(k == 0))
    return ok


def _abs_form(cond):
    """-c < x < c written as two comparisons is |x| < c (and its negation |x| >= c): one normal form for the division guards"""
    mp = {}
    for x in T.walk(cond):
        if x[0] == "and" and len(x) == 3 and all(y[0] == "cmp" and y[1] == "Lt" for y in x[1:]):
            a, b = x[1], x[2]
            for lo, hi in ((a, b), (b, a)):
                if lo[2][0] == "num" and hi[3][0] == "num" and lo[3] == hi[2] and lo[2][1] == -hi[3][1] and hi[3][1] > 0:
                    mp[x] = ("cmp", "Lt", T.call("abs", lo[3]), hi[3])
    return T.subst(cond, mp) if mp else cond


def guarded_division(rep, site, outs):
    """O6: the value-returning paths carry not(|d| < TOL) for the denominator d they divide by,
    and the complementary path raises ZeroDivisionError"""
    rets = [o for o in outs if o.kind == "ret"]
    for o in rets:
        dens = set()
        for x in T.walk(o.value):
            if x[0] == "pow" and x[2][0] == "num" and x[2][1] < 0:
                dens.add(x[1])
        for d in dens:
            guard = ("cmp", "Lt", T.call("abs", d), T.num(Fraction("1e-10")))
            pos_guard = ("cmp", "GtE", T.call("abs", d), T.num(Fraction("1e-10")))
            if prop_unsat(T.land(_abs_form(o.cond), guard)) is True:
                rep.ok("R-E4-ID", site + ":div", "division by d is dominated by |d| < TOL -> ZeroDivisionError", obligation=True, sample=False)
                continue
            rep.violation("R-E4-ID", site, "unguarded-division", "a returned coefficient divides by %s without the |d| < TOL -> ZeroDivisionError guard" % T.show(d)[:80], obligation=True)


def run(repo, rep, tier):
    rep.decided = ["O1 accumulators are the moments they are used as", "O2-O4 closed forms solve the normal equations",
                   "O5 short-circuit return", "O6 divisions guarded", "O7 correlation identity and invariances",
                   "O8 general(x^2,x,1) == quadratic", "O9 general with two functions solves the 2x2 system"]
    rep.undecided = ["float conditioning / 1e-6 accuracy", "input-form independence beyond set()"]
    rep.assumptions = ["exact real arithmetic"]
    rep.rule("R-E4-ID", "algebraic identity discharged by polynomial normal form")
    table = moments_of_fields(repo, rep)
    unknown = table.pop("$unknown", [])
    need = {(0, 0), (1, 0), (2, 0), (3, 0), (4, 0), (0, 1), (1, 1), (2, 1), (0, 2)}
    have = set(table.values())
    if need <= have and len(have) == len(table):
        rep.ok("R-E4-ID", MOD + ".CurveFitting._compute_parameters",
               "9 accumulators are the power sums " + ", ".join("%s=S(x^%d y^%d)" % (f, i, j) for f, (i, j) in sorted(table.items())), obligation=True)
    elif unknown:
        rep.inconcl("R-E4-ID", MOD + ".CurveFitting._compute_parameters", "accumulators %s are built by a loop whose idiom is not recognised; the closed forms are not decided" % unknown)
        return "other"
    else:
        rep.violation("R-E4-ID", MOD + ".CurveFitting._compute_parameters", "moments", "accumulators do not provide the nine power sums needed (found %s)" % sorted(table.items()), obligation=True)
    alg = Algebra()
    m = msym
    # ---- linear
    q = "CurveFitting.linear_fitting"
    rep.fn(MOD, q)
    outs = returns_of(repo, q)
    rets = [o for o in outs if o.kind == "ret"]
    site = MOD + "." + q
    if len(rets) != 1 or rets[0].value[0] != "tuple" or len(rets[0].value) != 3:
        rep.violation("R-E4-ID", site, "shape", "expected one return of (a, b)", obligation=True)
    else:
        a, b = (subst_fields(x, table) for x in rets[0].value[1:])
        check_normal_equations(alg, rep, site, [a, b], [[m(2, 0), m(1, 0)], [m(1, 0), m(0, 0)]], [m(1, 1), m(0, 1)], "y = a*x + b")
        guarded_division(rep, site, outs)
    # ---- quadratic
    q = "CurveFitting.quadratic_fitting"
    rep.fn(MOD, q)
    outs = returns_of(repo, q)
    rets = [o for o in outs if o.kind == "ret"]
    site = MOD + "." + q
    quad = None
    if len(rets) != 1 or rets[0].value[0] != "tuple" or len(rets[0].value) != 4:
        rep.violation("R-E4-ID", site, "shape", "expected one return of (a, b, c)", obligation=True)
    else:
        quad = [subst_fields(x, table) for x in rets[0].value[1:]]
        check_normal_equations(alg, rep, site, quad,
                               [[m(4, 0), m(3, 0), m(2, 0)], [m(3, 0), m(2, 0), m(1, 0)], [m(2, 0), m(1, 0), m(0, 0)]],
                               [m(2, 1), m(1, 1), m(0, 1)], "y = a*x^2 + b*x + c")
        guarded_division(rep, site, outs)
    # ---- correlation
    q = "CurveFitting.correlation_coeff"
    rep.fn(MOD, q)
    outs = returns_of(repo, q)
    rets = [o for o in outs if o.kind == "ret"]
    site = MOD + "." + q
    if len(rets) != 1:
        rep.violation("R-E4-ID", site, "shape", "expected one return", obligation=True)
    else:
        r = subst_fields(rets[0].value, table)
        n, sx, sy, sxx, syy, sxy = m(0, 0), m(1, 0), m(0, 1), m(2, 0), m(0, 2), m(1, 1)
        A = T.sub(T.mul(n, sxx), T.mul(sx, sx))
        B = T.sub(T.mul(n, syy), T.mul(sy, sy))
        N = T.sub(T.mul(n, sxy), T.mul(sx, sy))
        if alg.equal(T.mul(r, r, A, B), T.mul(N, N)) and alg.equal(T.mul(r, T.call("sqrt", A), T.call("sqrt", B)), N):
            rep.ok("R-E4-ID", site, "r*sqrt(n Sxx - Sx^2)*sqrt(n Syy - Sy^2) == n Sxy - Sx Sy (hence r^2 <= 1 by Cauchy-Schwarz, +-1 iff collinear)", obligation=True)
        else:
            rep.violation("R-E4-ID", site, "pearson", "correlation coefficient is not (n Sxy - Sx Sy)/sqrt((n Sxx - Sx^2)(n Syy - Sy^2))", obligation=True)
        # invariance under x -> alpha*x + beta at moment level: N -> alpha*N, A -> alpha^2*A
        al, be = T.sym("alpha"), T.sym("beta")
        mp = {m(1, 0): T.add(T.mul(al, sx), T.mul(be, n)),
              m(2, 0): T.add(T.mul(al, al, sxx), T.mul(T.num(2), al, be, sx), T.mul(be, be, n)),
              m(1, 1): T.add(T.mul(al, sxy), T.mul(be, sy))}
        N2, A2 = T.subst(N, mp), T.subst(A, mp)
        if alg.equal(N2, T.mul(al, N)) and alg.equal(A2, T.mul(al, al, A)):
            rep.ok("R-E4-ID", site + ":affine", "under x -> alpha*x + beta: numerator scales by alpha, Sxx-term by alpha^2 (r unchanged for alpha > 0, sign flips for alpha < 0)", obligation=True)
        else:
            rep.violation("R-E4-ID", site, "affine", "moment-level affine invariance of the correlation coefficient fails", obligation=True)
    general(repo, rep, alg, table, quad)
    input_forms(repo, rep)
    freshcopy_local(repo, rep)
    fam = [(MOD, "CurveFitting." + x) for x in ("set", "_compute_parameters", "correlation_coeff", "linear_fitting", "quadratic_fitting", "general_fitting")]
    effects.check_functions(repo, rep, fam)
    guards.check_functions(repo, rep, fam)
    if rep.findings:
        return "other"
    return "proof"


def input_forms(repo, rep):
    """R-FORMS: whatever form the data arrive in, set() must leave two tables of the same length holding the points
    (x_i, y_i) in order - the moments above are sums over index pairs of exactly these tables.  set() is executed symbolically
    on literal inputs of every accepted form (two sequences of equal / unequal length, one sequence, alternating values with
    an odd one left over) and the tables it leaves are compared with the expected ones."""
    rep.rule("R-FORMS", "every input form of CurveFitting.set leaves tables x, y of equal length holding the points in order "
                        "(two sequences of equal and unequal lengths, one sequence, alternating values)")
    q = "CurveFitting.set"
    site = MOD + "." + q
    fn = repo.func(MOD, q)
    if fn.args.vararg is None:
        rep.inconcl("R-FORMS", site, "set() no longer takes *args")
        return
    va = fn.args.vararg.arg
    X = lambda n: [T.sym("NUM_X%d" % i) for i in range(n)]
    Y = lambda n: [T.sym("NUM_Y%d" % i) for i in range(n)]
    cases = []
    for nx, ny in ((3, 3), (3, 5), (5, 3), (2, 4)):
        k = min(nx, ny)
        for cont in ("list", "tuple"):
            cases.append(("two %ss of %d and %d values" % (cont, nx, ny), ("tuple", (cont,) + tuple(X(nx)), (cont,) + tuple(Y(ny))), X(k), Y(k)))
    cases.append(("one list of 4 values", ("tuple", ("list",) + tuple(Y(4))), [T.num(i) for i in range(4)], Y(4)))
    for n in (4, 5, 6, 7):
        flat = []
        for i in range((n + 1) // 2):
            flat.append(T.sym("NUM_X%d" % i))
            if 2 * i + 1 < n:
                flat.append(T.sym("NUM_Y%d" % i))
        cases.append(("%d alternating values" % n, ("tuple",) + tuple(flat), X(n // 2), Y(n // 2)))
    bad, unknown, n_ok = [], [], 0
    for name, args, wx, wy in cases:
        try:
            outs, _ = symx.eval_function(repo, MOD, q, arg_terms={"self": T.sym("self"), va: args}, unroll=16)
        except AnalysisError as e:
            unknown.append("%s: %s" % (name, e))
            continue
        live = [o for o in outs if o.kind != "raise" and symx.fold_bool(o.cond) == ("bool", True)]
        if len(live) != 1:
            unknown.append("%s: no single value-storing path (%d)" % (name, len(live)))
            continue
        gx, gy = live[0].env.get("self._x"), live[0].env.get("self._y")
        if gx is None or gy is None or gx[0] not in ("list", "tuple") or gy[0] not in ("list", "tuple"):
            unknown.append("%s: tables not obtained as literal sequences" % name)
            continue
        n_ok += 1
        if list(gx[1:]) != wx or list(gy[1:]) != wy:
            bad.append((name, "x = %s, y = %s; expected the %d point(s) x = %s, y = %s" % (T.show(gx)[:70], T.show(gy)[:70], len(wx), T.show(("list",) + tuple(wx))[:60],
                                                                                        T.show(("list",) + tuple(wy))[:60])))
    if not unknown:
        rep.floor("input forms of CurveFitting.set executed", n_ok, 8)      # (when forms could not be read the rule says so below instead)
    for name, msg in bad[:3]:
        rep.violation("R-FORMS", site, "form:" + name, "with %s set() leaves %s - the sums over these tables no longer describe the same points" % (name, msg), obligation=True)
    for u in unknown[:2]:
        rep.inconcl("R-FORMS", site, u)
    if not bad and not unknown:
        rep.ok("R-FORMS", site, "%d input forms leave paired tables of equal length" % n_ok, obligation=True)


def freshcopy_local(repo, rep):
    """the copy form of CurveFitting.set stores the source's tables by reference: no in-place mutation of them may follow (rule of C20, findings of
    this class only) - otherwise a fit of the copy reads tables that belong to another data set than its accumulated sums"""
    from .c20 import r_freshcopy
    before = len(rep.findings)
    r_freshcopy(repo, rep)
    rep.findings = rep.findings[:before] + [f for f in rep.findings[before:] if f.site.startswith("CurveFitting.")]


def general_sums(outs):
    """map local accumulator name -> pair of basis indexes / ('y', index) from the loop"""
    rets = [o for o in outs if o.kind == "ret"]
    loops = set()
    for o in outs:
        for x in T.walk(o.cond if o.value is None else ("bag", o.cond, o.value)):
            if x[0] == "loopout":
                loops.add(x[2])
    return loops


def general(repo, rep, alg, table, quad):
    q = "CurveFitting.general_fitting"
    rep.fn(MOD, q)
    site = MOD + "." + q
    fn = repo.func(MOD, q)
    names = [a.arg for a in fn.args.args]   # self, f0, f1, f2
    if len(names) != 4:
        raise AnalysisError("general_fitting signature changed")
    outs = split_phi_outcomes(returns_of(repo, q, arg_terms={names[1]: T.sym("F0"), names[2]: T.sym("F1"), names[3]: T.sym("F2")}))
    loops = general_sums(outs)
    if len(loops) != 1:
        rep.violation("R-E4-ID", site, "shape", "expected one accumulation loop, found %d" % len(loops), obligation=True)
        return
    loop = loops.pop()
    body, inits = dict(loop[4]), dict(loop[3])
    # classify accumulators: increment == Fi(x)*Fj(x) or y*Fi(x)
    xs = [v for k, v in loop[4] if k == "x"]
    acc = {}
    skipped = []
    for k, bt in loop[4]:
        lv = ("lv", loop[1], k)
        if lv not in set(T.walk(bt)):
            continue
        inc = T.sub(bt, lv)
        mp_, why_ = canon_points(loop, inc)
        if mp_ is None:
            rep.inconcl("R-E4-ID", site, "accumulation loop: %s" % why_)
            return
        inc = T.subst(inc, mp_)
        FX = [T.call("apply", T.sym("F%d" % i), T.sym("X")) for i in range(3)]
        r = None
        for i in range(3):
            for j in range(i, 3):
                if inc == T.mul(FX[i], FX[j]):
                    r = (i, j)
            if inc == T.mul(T.sym("Y"), FX[i]):
                r = ("y", i)
        if r is None:
            if inits.get(k, ("?",))[0] in ("dict", "list", "tuple"):
                # a container threaded through the loop (memo table, list of sums) is not one of the nine sums: left to the rules on the scalars
                skipped.append(k)
                continue
            if any(x[0] == "phi" and any(y[0] in ("lv", "lt") for y in T.walk(x[1])) for x in T.walk(inc)):
                # a scalar sum whose term depends on state carried from earlier points (seen-before tables, counters): some points contribute
                # to this sum differently from the others - the sums are no longer those of the data
                rep.violation("R-E4-ID", site, "acc-conditional:" + k, "accumulator %s takes its term under a condition on state carried over from earlier points (%s): "
                              "points contribute to this sum and to the others differently, the normal equations are not those of the data"
                              % (k, T.show(inc)[:80]), obligation=True)
                return
            if any(x[0] in ("lv", "lt", "loopout") or (x[0] == "call" and isinstance(x[1], str) and x[1].startswith(".")) for x in T.walk(inc)):
                rep.inconcl("R-E4-ID", site, "accumulator %s: increment not reduced to a product of basis values (%s)" % (k, T.show(inc)[:60]))
                return
            rep.violation("R-E4-ID", site, "acc-form:" + k, "accumulator %s is not a sum of f_i(x)*f_j(x) or y*f_i(x): %s" % (k, T.show(inc)[:100]), obligation=True)
            return
        if inits.get(k) != T.ZERO:
            rep.violation("R-E4-ID", site, "acc-init:" + k, "accumulator %s does not start from 0" % k, obligation=True)
            return
        acc[k] = r
    need = {(0, 0), (0, 1), (0, 2), (1, 1), (1, 2), (2, 2), ("y", 0), ("y", 1), ("y", 2)}
    if set(acc.values()) != need and skipped:
        # the sums are kept in containers threaded through the loop (%s): not read as nine scalar sums - nothing to compare
        rep.inconcl("R-E4-ID", site, "the basis sums are accumulated in containers (%s), not as scalar sums: moments not read" % ", ".join(skipped))
        return
    if set(acc.values()) != need:
        rep.violation("R-E4-ID", site, "moments", "the nine basis sums are not all accumulated: %s" % sorted(map(str, acc.values())), obligation=True)
        return
    rep.ok("R-E4-ID", site + ":sums", "9 accumulators are the Gram sums S(f_i f_j) and S(y f_i): " + ", ".join("%s=%s" % kv for kv in sorted(acc.items())), obligation=True)

    def G(i, j):
        return T.sym("g%s%s" % ((i, j) if i == "y" or i <= j else (j, i)))
    mp = {("loopout", k, loop): G(*v) for k, v in acc.items()}
    rets = [o for o in outs if o.kind == "ret"]
    gram = [[G(0, 0), G(0, 1), G(0, 2)], [G(0, 1), G(1, 1), G(1, 2)], [G(0, 2), G(1, 2), G(2, 2)]]
    rhs = [G("y", 0), G("y", 1), G("y", 2)]
    full = [o for o in rets if not any(c[0] == "cmp" and c[1] == "Lt" for c in conjuncts(T.subst(o.cond, mp)))]
    short = [o for o in rets if o not in full]
    if not full:
        rep.violation("R-E4-ID", site, "shape", "no general (three-function) return found", obligation=True)
        return
    coefs = None
    for o in full:
        v = T.subst(o.value, mp)
        if v[0] != "tuple" or len(v) != 4:
            rep.violation("R-E4-ID", site, "shape", "return is not (a, b, c)", obligation=True)
            continue
        coefs = list(v[1:])
        check_normal_equations(alg, rep, site, coefs, gram, rhs, "y = a*f0 + b*f1 + c*f2")
    outs_m = []
    for o in outs:
        o2 = symx.Outcome(o.kind, T.subst(o.cond, mp), T.subst(o.value, mp) if o.value is not None else None, o.env, o.node)
        outs_m.append(o2)
    guarded_division(rep, site, [o for o in outs_m if o.kind != "ret" or o in outs_m])
    # O5 short-circuit
    for o in short:
        v = T.subst(o.value, mp)
        c = T.subst(o.cond, mp)
        small = set()
        for cj in conjuncts(c):
            if cj[0] == "cmp" and cj[1] == "Lt" and cj[2][0] == "call" and cj[2][1] == "abs":
                small.add(cj[2][2])
        # |S f1^2| ~ 0 and |S f2^2| ~ 0  =>  f1 = f2 = 0 on the data  =>  every sum containing them vanishes
        zero = {}
        if G(1, 1) in small:
            for g in (G(0, 1), G(1, 1), G(1, 2), G("y", 1)):
                zero[g] = T.ZERO
        if G(2, 2) in small:
            for g in (G(0, 2), G(1, 2), G(2, 2), G("y", 2)):
                zero[g] = T.ZERO
        if v[0] != "tuple" or len(v) != 4 or not zero:
            rep.violation("R-E4-ID", site, "short-circuit", "short-circuit return not understood: %s under %s" % (T.show(v)[:80], T.show(c)[:80]), obligation=True)
            continue
        ok = True
        for row, b in zip(gram, rhs):
            lhs = T.subst(T.add(*[T.mul(cf, g) for cf, g in zip(v[1:], row)]), zero)
            if not alg.equal(lhs, T.subst(b, zero)):
                ok = False
        if ok:
            rep.ok("R-E4-ID", site + ":short", "short-circuit (u/m, 0, 0) solves the normal equations when f1 and f2 vanish on the data", obligation=True)
        else:
            rep.violation("R-E4-ID", site, "short-circuit", "short-circuit return does not solve the normal equations under its guard", obligation=True)
    # O8 general on (x^2, x, 1) == quadratic
    if coefs is not None and quad is not None:
        basis = {G(0, 0): msym(4, 0), G(0, 1): msym(3, 0), G(0, 2): msym(2, 0), G(1, 1): msym(2, 0), G(1, 2): msym(1, 0),
                 G(2, 2): msym(0, 0), G("y", 0): msym(2, 1), G("y", 1): msym(1, 1), G("y", 2): msym(0, 1)}
        same = all(alg.equal(T.subst(c, basis), qd) for c, qd in zip(coefs, quad))
        if same:
            rep.ok("R-E4-ID", site + ":quadratic", "general fit on the basis (x^2, x, 1) == quadratic fit (as rational functions of the moments)", obligation=True)
        else:
            rep.violation("R-E4-ID", site, "general-vs-quadratic", "general fit on (x^2, x, 1) differs from the quadratic fit", obligation=True)
    # O9 documented default: f2 omitted
    default = fn.args.defaults[-1] if fn.args.defaults else None
    import ast as _ast
    is_null_default = isinstance(default, _ast.Lambda) and isinstance(default.body, _ast.Constant) and default.body.value in (0, 0.0)
    if not is_null_default:
        rep.ok("R-E4-ID", site + ":two-functions", "third basis function has no null default (nothing to decide)", obligation=True)
        return
    outs2 = split_phi_outcomes(returns_of(repo, q, arg_terms={names[1]: T.sym("F0"), names[2]: T.sym("F1"), names[3]: ("zerofn",)}))
    loops2 = general_sums(outs2)
    rets2 = [o for o in outs2 if o.kind == "ret"]
    good = False
    detail = "no returning path"
    for o in rets2:
        lp = [x[2] for x in T.walk(("bag", o.cond, o.value)) if x[0] == "loopout"]
        mp2 = {}
        for l2 in set(lp):
            for k, bt in l2[4]:
                lv = ("lv", l2[1], k)
                if lv not in set(T.walk(bt)):
                    continue
                inc = T.sub(bt, lv)
                mp_, _why = canon_points(l2, inc)
                if mp_ is None:
                    continue
                inc = T.subst(inc, mp_)
                FX = [T.call("apply", T.sym("F%d" % i), T.sym("X")) for i in range(3)]
                for i in range(3):
                    for j in range(i, 3):
                        if inc == T.mul(FX[i], FX[j]):
                            mp2[("loopout", k, l2)] = G(i, j)
                    if inc == T.mul(T.sym("Y"), FX[i]):
                        mp2[("loopout", k, l2)] = G("y", i)
        c = T.subst(o.cond, mp2)
        v = T.subst(o.value, mp2)
        needs_null_f1 = any(cj[0] == "cmp" and cj[1] == "Lt" and cj[2] == T.call("abs", G(1, 1)) for cj in conjuncts(c))
        if needs_null_f1:
            detail = "the only returning path requires the second function to vanish on the data"
            continue
        if v[0] == "tuple" and len(v) == 4:
            a, b = v[1], v[2]
            e1 = alg.equal(T.add(T.mul(a, G(0, 0)), T.mul(b, G(0, 1))), G("y", 0))
            e2 = alg.equal(T.add(T.mul(a, G(0, 1)), T.mul(b, G(1, 1))), G("y", 1))
            if e1 and e2 and v[3] == T.ZERO:
                good = True
                break
            detail = "a returning path exists but does not solve the 2x2 normal equations"
    if good:
        rep.ok("R-E4-ID", site + ":two-functions", "with the third function omitted the returned (a, b, 0) solves the 2x2 normal equations (== linear fit on (x, 1))", obligation=True)
    else:
        rep.violation("R-E4-ID", site, "two-function-fit",
                      "with the documented default f2 = 0 the sums q, s, t, w are 0, so `abs(m*r*t) < TOL` always holds and the fit raises "
                      "ZeroDivisionError for every non-null f1: %s" % detail, obligation=True)
