"""C16 weekday, day of year, fractional year and sidereal time follow the JDE.

Decided: D1 weekday == floor(JDE + 1.5) mod 7 with names starting at Sunday
(floor-shift axiom); D2 no proleptic-Gregorian stdlib date arithmetic is applied to
years in which the Julian calendar is in force (R-DATETIME-JULIAN) and the formula
branch takes its leap flag from Epoch.is_leap; D3 mean sidereal time at 0h is the
IAU 1982 polynomial (1e-7 day over the JDE domain), advances by 1.00273790935 turns
per day, is reduced modulo 1; apparent = mean + nutation*cos(obliquity)/15 (arcsec ->
time seconds -> days); MJD = JDE - 2400000.5."""
import ast
from fractions import Fraction

from .. import symx, terms as T
from ..frontend import AnalysisError, norm_text
from ..poly import Algebra
from ..rules import ret_term, find_calls, outcomes, numeric_poly, D2R
from .. import units, guards, effects

MANIFEST = {
    "level": "other",
    "technique": "static analysis: symbolic evaluation with a floor-shift normal form (weekday), dominance rule on stdlib date calls (structured-control-flow guard analysis), polynomial extraction and exact comparison with the IAU 1982 GMST polynomial, algebraic identity for the equation of the equinoxes, exact decision tables for the day-of-year recipes (month x leap flag, day number x leap flag, and against the library's own date -> JDE conversion on every class of year incl. 1582) and for the fractional-year denominator, exact execution (rational arithmetic) of the extracted dow / get_doy / doy2date terms against the library's own date -> JDE term and the checker's day count on whole runs of consecutive civil days in both calendars",
    "text": "Weekday formula, the absence of proleptic-Gregorian arithmetic on Julian-calendar years, the GMST polynomial with its rate and modulo, the apparent-sidereal-time relation and the MJD offset are decided from the source for all inputs. Day of year is decided as an integer recipe: equal to the calendar table for every month and leap flag, inverse to doy2date, and equal to the JDE difference + 1 on every class of year including the change-over year 1582; the fractional year never reaches the next integer inside a year. The weekday and day-of-year clauses are additionally decided day by day by exact execution of the extracted terms on runs of consecutive civil days (a Julian 4-year cycle, the first years of the domain, 1582-1583, 4-year spans around a common and a leap century year, recent years; thorough tier: every day of the Gregorian cycle 1600..2000): the weekday is the same at 0h, 12h and 23:59:59, equals (day count + 1) mod 7 and the proleptic Gregorian weekday after 1582, the day of year is the JDE difference to 1 January plus one with fractions carried, 365/366 (355 in 1582) on 31 December, and doy2date returns the date.",
    "note": "Trusted oracles: IAU 1982 GMST expression, 1.00273790935, 2400000.5 (property text); stdlib datetime is proleptic Gregorian. Undecided: days outside the executed runs (periodicity of the recipes); float vs exact evaluation.",
}

IAU1982 = [Fraction("24110.54841"), Fraction("8640184.812866"), Fraction("0.093104"), Fraction("-0.0000062")]   # seconds
DATE_CALLS = {"date", "fromordinal", "toordinal", "timetuple", "isocalendar", "weekday", "isoweekday"}


def floor_shift(t):
    """floor(y + c) + n  ->  (y, c + n)  for rational c and integer n; None if t has another shape"""
    n = Fraction(0)
    fl = None
    parts = t[1:] if t[0] == "add" else (t,)
    for p in parts:
        if p[0] == "num" and p[1].denominator == 1:
            n += p[1]
        elif p[0] == "call" and p[1] == "floor" and fl is None:
            fl = p
        else:
            return None
    if fl is None:
        return None
    inner = fl[2]
    c = Fraction(0)
    rest = []
    for p in (inner[1:] if inner[0] == "add" else (inner,)):
        if p[0] == "num":
            c += p[1]
        else:
            rest.append(p)
    return (T.add(*rest) if rest else T.ZERO, c + n)


def datetime_julian(repo, rep, funcs=None):
    """R-DATETIME-JULIAN: every stdlib date construction / ordinal arithmetic inside the
    calendar functions of Epoch is dominated by a test that implies year >= 1583."""
    rep.rule("R-DATETIME-JULIAN", "stdlib datetime.date arithmetic (proleptic Gregorian) is reached only under a test implying year >= 1583; "
                                  "earlier years are Julian in this library")
    funcs = funcs or ["Epoch.get_doy", "Epoch.doy2date"]
    n = 0
    for q in funcs:
        fn = repo.func("Epoch", q)
        rep.fn("Epoch", q)
        year_param = fn.args.args[0].arg
        # helpers introduced by a refactoring that contain stdlib date arithmetic: their call sites in fn are the sites to guard
        from ..rules import with_new_helpers
        helper_dates = set()
        for h in with_new_helpers(repo, "Epoch", fn)[1:]:
            for x in ast.walk(h):
                if isinstance(x, ast.Call):
                    f_ = x.func
                    nm_ = f_.attr if isinstance(f_, ast.Attribute) else (f_.id if isinstance(f_, ast.Name) else "")
                    if nm_ in DATE_CALLS and ("datetime" in norm_text(f_) or nm_ in ("toordinal", "timetuple", "fromordinal")):
                        helper_dates.add(h.name)

        def visit(stmts, bound):
            nonlocal n
            for s in stmts:
                if isinstance(s, ast.If):
                    b_true, b_false = bounds(s.test, year_param, bound)
                    visit_expr(s.test, bound)
                    visit(s.body, b_true)
                    visit(s.orelse, b_false)
                elif isinstance(s, (ast.For, ast.While)):
                    visit(s.body, bound)
                    visit(s.orelse, bound)
                elif isinstance(s, ast.Try):
                    visit(s.body, bound)
                    for h in s.handlers:
                        visit(h.body, bound)
                    visit(s.orelse, bound)
                    visit(s.finalbody, bound)
                else:
                    visit_expr(s, bound)

        def visit_expr(node, bound):
            nonlocal n
            for x in ast.walk(node):
                if isinstance(x, ast.Call):
                    f = x.func
                    name = f.attr if isinstance(f, ast.Attribute) else (f.id if isinstance(f, ast.Name) else "")
                    base = norm_text(f)
                    delegated = name in helper_dates        # a helper split off from this function that does the date arithmetic
                    if delegated or (name in DATE_CALLS and ("datetime" in base or name in ("toordinal", "timetuple", "fromordinal"))):
                        n += 1
                        site = "Epoch." + q
                        if bound is None or bound < 1583:
                            rep.violation("R-DATETIME-JULIAN", site, "datetime-under:%s" % (bound,),
                                          "`%s` (proleptic Gregorian) is reached for years >= %s; before 1583 the library's calendar is Julian, "
                                          "so leap days and month lengths differ (e.g. 29 Feb 1500 exists only in the Julian calendar)"
                                          % (norm_text(x)[:60], bound if bound is not None else "-inf"),
                                          construct="line %d" % x.lineno)
                        else:
                            rep.ok("R-DATETIME-JULIAN", site, "%s under year >= %d" % (norm_text(x)[:40], bound), sample=(n <= 2))
        visit(fn.body, None)
    rep.floor("stdlib date call sites in Epoch calendar helpers", n, len(funcs))


def bounds(test, year, cur):
    """(lower bound of `year` on the true branch, on the false branch)"""
    if isinstance(test, ast.Compare) and len(test.ops) == 1 and isinstance(test.left, ast.Name) and test.left.id == year \
            and isinstance(test.comparators[0], ast.Constant) and isinstance(test.comparators[0].value, (int, float)):
        v = test.comparators[0].value
        op = test.ops[0]
        if isinstance(op, ast.GtE):
            return max_b(cur, int(v) if float(v).is_integer() else int(v) + 1), cur
        if isinstance(op, ast.Gt):
            return max_b(cur, int(v) + 1), cur
        if isinstance(op, ast.Lt):
            return cur, max_b(cur, int(v) if float(v).is_integer() else int(v) + 1)
        if isinstance(op, ast.LtE):
            return cur, max_b(cur, int(v) + 1)
    if isinstance(test, ast.BoolOp) and isinstance(test.op, ast.And):
        b = cur
        for v in test.values:
            b = bounds(v, year, b)[0]
        return b, cur
    return cur, cur


def max_b(a, b):
    return b if a is None else max(a, b)


def run(repo, rep, tier):
    rep.decided = ["D1 weekday == floor(JDE + 1.5) mod 7, 0 = Sunday", "D2 no proleptic-Gregorian date arithmetic on Julian years",
                   "D3 GMST == IAU 1982 (1e-7 d), rate 1.00273790935, modulo 1; apparent = mean + dpsi*cos(eps)/15; MJD offset"]
    rep.undecided = ["days outside the executed runs (periodicity of the recipes)", "fractional year strictly increasing (decided: its denominator is the year length get_doy itself uses, for every year)"]
    rep.decided.append("D4 weekday constant over a civil day and == (day count + 1) mod 7, day of year == JDE difference + 1, doy2date inverts get_doy: exact execution on whole runs of civil days (R-DAYCYCLE)")
    rep.assumptions = ["floor(x) + n == floor(x + n) for integer n"]
    rep.rule("R-E4-ID", "formula identity")
    # D1 weekday
    rep.fn("Epoch", "Epoch.dow")
    fn = repo.func("Epoch", "Epoch.dow")
    names = [a.arg for a in fn.args.args]
    from ..rules import eval_exact, NotEvaluable
    flag = names[1] if len(names) > 1 else None
    at = {names[0]: ("epoch", T.sym("J"))}
    # the numeric form and the name form are obtained by partial evaluation with the flag bound to False / True
    t_num = ret_term(repo, "Epoch", "Epoch.dow", arg_terms=dict(at, **({flag: ("bool", False)} if flag else {})))
    ok = False
    v = t_num
    while v[0] == "call" and v[1] in ("floor", "int") and len(v) == 3:
        v = v[2]
    if v[0] == "call" and v[1] == "mod" and v[3] == T.num(7):
        fs = floor_shift(v[2])
        if fs is not None and fs == (T.sym("J"), Fraction(3, 2)):
            ok = True
    if ok:
        rep.ok("R-E4-ID", "Epoch.Epoch.dow", "numeric result == floor(JDE + 1.5) mod 7 (via floor-shift)", obligation=True)
    elif any(x[0] in ("phi", "loopout", "opaque") for x in T.walk(t_num)):
        rep.inconcl("R-E4-ID", "Epoch.Epoch.dow", "numeric weekday not reduced to one formula: " + T.show(t_num)[:120])
    else:
        rep.violation("R-E4-ID", "Epoch.Epoch.dow", "weekday-formula", "numeric weekday is not floor(JDE + 1.5) mod 7: " + T.show(t_num)[:120], obligation=True)
    want_names = ["Sunday", "Monday", "Tuesday", "Wednesday", "Thursday", "Friday", "Saturday"]
    if flag is None:
        rep.inconcl("R-E4-ID", "Epoch.Epoch.dow", "no as_string flag found")
    else:
        t_str = ret_term(repo, "Epoch", "Epoch.dow", arg_terms=dict(at, **{flag: ("bool", True)}))
        got = []
        try:
            for k in range(7):
                got.append(eval_exact(T.subst(t_str, {t_num: T.num(k)}), {}))
        except NotEvaluable as e:
            got = None
            rep.inconcl("R-E4-ID", "Epoch.Epoch.dow", "day names not obtained by indexing a literal table with the weekday number: %s" % e)
        if got == want_names:
            rep.ok("R-E4-ID", "Epoch.Epoch.dow:names", "day names indexed by the same number, 0 = Sunday", obligation=True)
        elif got is not None:
            rep.violation("R-E4-ID", "Epoch.Epoch.dow", "weekday-names", "weekday numbers 0..6 are named %s, not Sunday..Saturday" % (got,), obligation=True)
    # D2
    datetime_julian(repo, rep)
    d2_formula(repo, rep)
    # D3
    sidereal(repo, rep)
    # MJD
    rep.fn("Epoch", "Epoch.mjd")
    t = ret_term(repo, "Epoch", "Epoch.mjd", arg_terms={"self": ("epoch", T.sym("J"))})
    if t == T.add(T.sym("J"), T.num(Fraction("-2400000.5"))):
        rep.ok("R-E4-ID", "Epoch.Epoch.mjd", "MJD == JDE - 2400000.5", obligation=True)
    else:
        rep.violation("R-E4-ID", "Epoch.Epoch.mjd", "mjd-offset", "mjd() is not JDE - 2400000.5: " + T.show(t)[:80], obligation=True)
    year_fraction(repo, rep)
    doy_tables(repo, rep, tier)
    day_cycle(repo, rep, tier)
    fam = [("Epoch", "Epoch." + q) for q in ("dow", "get_doy", "doy", "doy2date", "year", "leap", "is_leap", "mean_sidereal_time",
                                              "apparent_sidereal_time", "mjd", "jde")]
    units.check_functions(repo, rep, fam)
    guards.check_functions(repo, rep, fam)
    effects.check_functions(repo, rep, fam)
    return "other"


def stdlib_prims(repo):
    """exact meaning of the stdlib primitives the calendar code relies on (proleptic Gregorian), and of Epoch.is_leap by its own term"""
    import calendar as _cal
    import datetime as _dt
    from ..rules import eval_exact, NotEvaluable
    fn = repo.func("Epoch", "Epoch.is_leap")
    isleap_t = ret_term(repo, "Epoch", "Epoch.is_leap", arg_terms={fn.args.args[0].arg: T.sym("NUM_ARG")})
    fj = repo.func("Epoch", "Epoch.is_julian")
    jn = [a.arg for a in fj.args.args]
    isjul_t = ret_term(repo, "Epoch", "Epoch.is_julian", arg_terms={jn[0]: T.sym("NUM_A0"), jn[1]: T.sym("NUM_A1"), jn[2]: T.sym("NUM_A2")})

    def prims(t, env):
        if t[0] == "call" and t[1] == "calendar.isleap" and len(t) == 3:
            return bool(_cal.isleap(int(eval_exact(t[2], env, prims))))
        if t[0] == "call" and t[1] == "Epoch.Epoch.is_leap" and len(t) == 3:
            v = eval_exact(t[2], env, prims)
            e2 = dict(env or {})
            e2[T.sym("NUM_ARG")] = v
            return eval_exact(isleap_t, e2, prims)
        if t[0] == "call" and t[1] == "Epoch.Epoch.is_julian" and len(t) == 5:
            e2 = dict(env or {})
            for k_, x_ in zip(("NUM_A0", "NUM_A1", "NUM_A2"), t[2:5]):
                e2[T.sym(k_)] = eval_exact(x_, env, prims)
            return bool(eval_exact(isjul_t, e2, prims))
        if t[0] == "attr" and t[2] == "tm_yday" and t[1][0] == "call" and t[1][1] == ".timetuple" and t[1][2][0] == "call" \
                and t[1][2][1] == "datetime.date":
            y, m, d = (int(eval_exact(x, env, prims)) for x in t[1][2][2:5])
            if not 1 <= y <= 9999:
                raise NotEvaluable("datetime.date out of range")
            return Fraction(_dt.date(y, m, d).timetuple().tm_yday)
        if t[0] == "call" and t[1] == ".toordinal" and len(t) == 3 and t[2][0] == "call" and t[2][1] == "datetime.date" and len(t[2]) == 5:
            y, m, d = (eval_exact(x, env, prims) for x in t[2][2:5])
            if any(Fraction(v).denominator != 1 for v in (y, m, d)) or not 1 <= y <= 9999:
                raise NotEvaluable("datetime.date out of range")
            try:
                return Fraction(_dt.date(int(y), int(m), int(d)).toordinal())
            except ValueError as e_:
                raise NotEvaluable("datetime.date: %s" % e_)
        if t[0] == "attr" and t[2] in ("year", "month", "day") and t[1][0] == "call" and t[1][1] == ".fromordinal" and len(t[1]) == 4:
            o = eval_exact(t[1][3], env, prims)
            if Fraction(o).denominator != 1 or not 1 <= o <= 3652059:
                raise NotEvaluable("date.fromordinal out of range")
            return Fraction(getattr(_dt.date.fromordinal(int(o)), t[2]))
        return None
    return prims


# --------------------------------------------------------------------------------------------------------------------------
# R-DAYCYCLE: weekday, day of year and its inverse executed exactly on whole runs of civil days
# --------------------------------------------------------------------------------------------------------------------------
_DAY_TERMS = {}


def _day_terms(root):
    if root not in _DAY_TERMS:
        from ..frontend import Repo
        from ..rules import repo_prims
        from .c01 import _cycle_terms
        repo = Repo(root) if root else Repo()
        tj, _, _ = _cycle_terms(root)
        fn = repo.func("Epoch", "Epoch.dow")
        names = [a.arg for a in fn.args.args]
        at = {names[0]: ("epoch", T.sym("NUM_J"))}
        if len(names) > 1:
            at[names[1]] = ("bool", False)
        t_dow = ret_term(repo, "Epoch", "Epoch.dow", arg_terms=at)
        fg = repo.func("Epoch", "Epoch.get_doy")
        gn = [a.arg for a in fg.args.args]
        t_doy = ret_term(repo, "Epoch", "Epoch.get_doy", arg_terms=dict(zip(gn, (T.sym("NUM_Y"), T.sym("NUM_M"), T.sym("NUM_D")))), unroll=16)
        fd = repo.func("Epoch", "Epoch.doy2date")
        dn = [a.arg for a in fd.args.args]
        t_inv = ret_term(repo, "Epoch", "Epoch.doy2date", arg_terms=dict(zip(dn, (T.sym("NUM_Y"), T.sym("NUM_N")))), unroll=16)
        _DAY_TERMS[root] = (tj, t_dow, t_doy, t_inv, repo_prims(repo, stdlib_prims(repo)))
    return _DAY_TERMS[root]


def _day_chunk(job):
    import calendar as _cal
    import datetime as _dt
    from ..rules import eval_exact, NotEvaluable
    from .c01 import _civil_days
    from .c19 import _civil_jdn
    root, start, count = job
    tj, t_dow, t_doy, t_inv, prims = _day_terms(root)
    Y, M, D, J, N = T.sym("NUM_Y"), T.sym("NUM_M"), T.sym("NUM_D"), T.sym("NUM_J"), T.sym("NUM_N")
    probs = []
    n = 0
    jan1 = {}
    for (y, m, d) in _civil_days(start, count):
        try:
            j = eval_exact(tj, {Y: Fraction(y), M: Fraction(m), D: Fraction(d), "$memo": {}}, prims)
            if y not in jan1:
                jan1[y] = eval_exact(tj, {Y: Fraction(y), M: Fraction(1), D: Fraction(1), "$memo": {}}, prims)
            ws = [eval_exact(t_dow, {J: j + o, "$memo": {}}, prims) for o in (Fraction(0), Fraction(1, 2), Fraction(86399, 86400))]
            doy = eval_exact(t_doy, {Y: Fraction(y), M: Fraction(m), D: Fraction(d), "$memo": {}}, prims)
            doyf = eval_exact(t_doy, {Y: Fraction(y), M: Fraction(m), D: Fraction(d) + Fraction(3, 4), "$memo": {}}, prims)
            inv = eval_exact(t_inv, {Y: Fraction(y), N: doy, "$memo": {}}, prims)
        except NotEvaluable as e:
            return n, [("not-evaluable", "%s at %d-%02d-%02d" % (e, y, m, d))]
        except (TypeError, ValueError, IndexError, KeyError) as e:     # the evaluator's own limits are not evidence against the code
            return n, [("not-evaluable", "%s: %s at %d-%02d-%02d" % (type(e).__name__, e, y, m, d))]
        except ZeroDivisionError as e:
            probs.append(("error", "%s: %s at %d-%02d-%02d" % (type(e).__name__, e, y, m, d)))
            continue
        n += 1
        date = "%d-%02d-%02d" % (y, m, d)
        want_w = (_civil_jdn(y, m, d) + 1) % 7
        if len(set(ws)) != 1:
            probs.append(("weekday-constant", "%s: weekday %s at 0h, %s at 12h, %s at 23:59:59" % (date, ws[0], ws[1], ws[2])))
        elif ws[0] != want_w:
            probs.append(("weekday", "%s: weekday %s, the day count gives %d (0 = Sunday)" % (date, ws[0], want_w)))
        elif (y, m, d) >= (1582, 10, 15) and y <= 9999 and ws[0] != _dt.date(y, m, d).isoweekday() % 7:
            probs.append(("weekday-gregorian", "%s: weekday %s, proleptic Gregorian weekday %d" % (date, ws[0], _dt.date(y, m, d).isoweekday() % 7)))
        if doy != j - jan1[y] + 1:
            probs.append(("doy", "%s: day of year %s, but the date is %s days after 1 January" % (date, float(doy), float(j - jan1[y]))))
        elif doyf != doy + Fraction(3, 4):
            probs.append(("doy-fraction", "%s.75: day of year %s, expected %s" % (date, float(doyf), float(doy + Fraction(3, 4)))))
        if (m, d) == (12, 31):
            leap = _cal.isleap(y) if y > 1582 else y % 4 == 0
            want_n = 355 if y == 1582 else (366 if leap else 365)
            if doy != want_n:
                probs.append(("doy-yearend", "%s: day of year %s, the year has %d days" % (date, float(doy), want_n)))
        if not (isinstance(inv, tuple) and len(inv) == 3 and tuple(inv) == (y, m, d)):
            probs.append(("doy2date", "%s: doy2date(%d, %s) = %s" % (date, y, float(doy), tuple(float(x) for x in inv) if isinstance(inv, tuple) else inv)))
    return n, probs


def day_cycle(repo, rep, tier):
    """R-DAYCYCLE.  dow(), get_doy() and doy2date() are integer recipes; their extracted terms are executed exactly on runs of
    consecutive civil days - a Julian 4-year cycle, the first year of the domain, 1582-1583, 4-year spans around a common and a
    leap century year, recent years (thorough tier: a full Gregorian 400-year cycle).  Per day: the weekday is the same at 0h, 12h
    and 23:59:59, equals (day count + 1) mod 7 and - from 15 Oct 1582 - the proleptic Gregorian weekday; the day of year is the
    library's own JDE difference to 1 January plus one (fractions carried), 365/366 (355 in 1582) on 31 December; doy2date inverts it."""
    rep.rule("R-DAYCYCLE", "weekday constant over the civil day and == (day count + 1) mod 7; day of year == JDE - JDE(1 January) + 1; doy2date inverts get_doy: "
                           "exact execution of the extracted terms on whole runs of civil days in both calendars")
    site = "Epoch.Epoch.dow/get_doy/doy2date"
    root = repo.root
    jobs = [(root, (999, 1, 1), 1462), (root, (-4712, 1, 1), 732), (root, (-1, 1, 1), 800), (root, (1581, 12, 1), 800), (root, (1699, 1, 1), 1462),
            (root, (1999, 1, 1), 1462), (root, (2023, 1, 1), 732), (root, (5999, 1, 1), 365)]
    if tier == "thorough":
        from .c01 import _civil_days
        day = (1600, 1, 1)
        for _ in range(40):
            jobs.append((root, day, 3653))
            day = _civil_days(day, 3654)[-1]
    from concurrent.futures import ProcessPoolExecutor
    try:
        with ProcessPoolExecutor(max_workers=14 if tier == "thorough" else 8) as ex:
            results = list(ex.map(_day_chunk, jobs))
    except NotImplementedError:
        results = [_day_chunk(j_) for j_ in jobs]
    n = sum(r[0] for r in results)
    probs = [p for r in results for p in r[1]]
    ne = [p for p in probs if p[0] == "not-evaluable"]
    if ne:
        rep.inconcl("R-DAYCYCLE", site, "terms not executable: " + ne[0][1])
        return
    by = {}
    for kind, text in probs:
        by.setdefault(kind, []).append(text)
    for kind, lst in sorted(by.items()):
        rep.violation("R-DAYCYCLE", site, "daycycle:" + kind, lst[0] + "  (%d of %d executed days fail this way)" % (len(lst), n), obligation=True)
    if not probs:
        rep.ok("R-DAYCYCLE", site, "%d civil days executed exactly: weekday constant over the day and == (day count + 1) mod 7 (proleptic Gregorian after 1582), "
               "day of year == JDE difference + 1 with 365/366/355 at year end, doy2date inverts get_doy%s" % (n, " (incl. the Gregorian cycle 1600..2000)" if tier == "thorough" else ""),
               obligation=True)
    rep.floor("civil days executed through dow / get_doy / doy2date", n, 7000)


def year_fraction(repo, rep):
    """R-YEARLEN: Epoch.year() = Y + (doy - 1)/N.  N must be the day number get_doy itself gives to 31 December
    of the same year, for every year: otherwise the fraction reaches 1 before the year ends (integer part wrong,
    not increasing) or jumps at New Year.  Both sides depend on the year only through comparisons with 1582/1583
    and residues modulo 4/100/400, so they are compared on every such class."""
    from ..rules import eval_exact, NotEvaluable
    rep.rule("R-YEARLEN", "denominator of the fractional year >= get_doy(year, 12, 31) for every class of year (side of 1582/1583, residue mod 400, sign)")
    q = "Epoch.year"
    site = "Epoch." + q
    rep.fn("Epoch", q)
    J = ("epoch", T.sym("J"))
    t = ret_term(repo, "Epoch", q, arg_terms={"self": J})
    gd = T.call("Epoch.Epoch.get_date", J)
    Y, Mo, D = (("idx", gd, T.num(i)) for i in range(3))
    rest = T.sub(t, Y)
    dens = [x for x in T.walk(rest) if x[0] == "pow" and x[2] == T.num(-1)]
    doy = T.call("Epoch.Epoch.get_doy", Y, Mo, D)
    ok_shape = len(dens) == 1 and rest == T.mul(T.add(doy, T.num(-1)), dens[0])
    if not ok_shape:
        rep.inconcl("R-YEARLEN", site, "fractional year is not of the form Y + (get_doy(Y, M, D) - 1)/N: " + T.show(t)[:120])
        return
    N = dens[0][1]
    leap_t = ret_term(repo, "Epoch", "Epoch.leap", arg_terms={"self": J})
    N = T.subst(N, {T.call("Epoch.Epoch.leap", J): leap_t})
    N = T.subst(N, {Y: T.sym("NUM_Y")})
    check_yearlen(repo, rep, site, N)


def check_yearlen(repo, rep, site, N):
    """N (a term in NUM_Y) >= get_doy(NUM_Y, 12, 31) on every class of year"""
    from ..rules import eval_exact, NotEvaluable
    fn = repo.func("Epoch", "Epoch.get_doy")
    an = [a.arg for a in fn.args.args]
    M = ret_term(repo, "Epoch", "Epoch.get_doy", arg_terms={an[0]: T.sym("NUM_Y"), an[1]: T.num(12), an[2]: T.num(31)})
    prims = stdlib_prims(repo)
    years = list(range(-12, 13)) + list(range(1180, 1583 + 401))
    bad = []
    n = 0
    for y in years:
        env = {T.sym("NUM_Y"): Fraction(y)}
        try:
            nv = eval_exact(N, env, prims)
            mv = eval_exact(M, env, prims)
        except NotEvaluable as e:
            if y >= 1:
                bad.append((y, "not decidable: %s" % e, None))
            continue
        n += 1
        if nv < mv:             # N > get_doy(31 Dec) only compresses the fraction; N < it lets the fraction reach 1 inside the year
            bad.append((y, nv, mv))
    rep.floor("year classes compared for the fractional year", n, 800)
    if not bad:
        rep.ok("R-YEARLEN", site, "N >= get_doy(Y, 12, 31) on all %d year classes (both sides of 1582/1583, every residue mod 400, negative years)" % n,
               obligation=True)
        return
    y, nv, mv = bad[0]
    more = ", ".join(str(b[0]) for b in bad[1:6])
    if mv is None:
        rep.inconcl("R-YEARLEN", site, "year %d: %s" % (y, nv))
    else:
        rep.violation("R-YEARLEN", site, "year-length:%d" % y,
                      "fractional year of %d divides by %s days although get_doy gives 31 December the number %s: the fractional year reaches or passes the next integer "
                      "inside the year, or jumps at New Year (also: %s%s)" % (y, float(nv), float(mv), more, " ..." if len(bad) > 6 else ""), obligation=True)


def yearlen_sites(repo, rep, mod, qual, term, year_term):
    """every place in `term` where a day of the year is turned into a fraction of the year, get_doy(Y, ..)/N or
    (get_doy(Y, ..) + c)/N: N must be at least the day number of 31 December of that year on every class of year, else the
    fractional year runs past the next New Year before the year ends and moves backwards at New Year.  Returns the number of
    sites found."""
    rep.rule("R-YEARLEN", "denominator of the fractional year >= get_doy(year, 12, 31) for every class of year (side of 1582/1583, residue mod 400, sign)")
    site = "%s.%s" % (mod, qual)
    found = []
    # epoch.doy() / epoch.leap() are get_doy(*epoch.get_date()) / is_leap(year): read through
    from ..rules import inline_repo_calls
    if any(y[0] == "call" and y[1] in ("Epoch.Epoch.doy", "Epoch.Epoch.leap") for y in T.walk(term)):
        term = inline_repo_calls(repo, term, depth=1, only_mod="Epoch")
    has_doy = lambda f: any(y[0] == "call" and y[1] == "Epoch.Epoch.get_doy" for y in T.walk(f))
    for a_ in T.walk(term):
        if a_[0] != "add" or year_term not in a_[1:]:
            continue
        for x in a_[1:]:
            if x[0] != "mul" or not has_doy(x):
                continue
            dens = [f for f in x[1:] if f[0] == "pow" and f[2] == T.num(-1)]
            nums = [f for f in x[1:] if f[0] == "num"]
            doys = [f for f in x[1:] if has_doy(f) and f not in dens]
            if len(doys) != 1 or any(has_doy(d) for d in dens) or len(dens) + len(nums) + 1 != len(x) - 1:
                continue
            N = T.mul(*[d[1] for d in dens]) if dens else T.ONE
            for c in nums:
                N = T.div(N, c)
            if N not in found:
                found.append(N)
    for N in found:
        if any(y[0] in ("lv", "lt", "loopout") for y in T.walk(N)):
            rep.inconcl("R-YEARLEN", site, "year length is computed in a loop: " + T.show(N)[:80])
            continue
        N2 = T.subst(N, {year_term: T.sym("NUM_Y")})
        free = [y for y in T.walk(N2) if y[0] == "sym" and y != T.sym("NUM_Y")]
        if free:
            rep.inconcl("R-YEARLEN", site, "year length depends on more than the year: " + T.show(N2)[:80])
            continue
        check_yearlen(repo, rep, site, N2)
    return len(found)


def doy_tables(repo, rep, tier):
    """R-DOY: the day-of-year routines are integer recipes over small finite domains.
    (a) formula branch of get_doy: for every month 1..12 and both values of the leap flag, doy - day equals the number of days
        before that month (calendar table of the standard library);
    (b) formula branch of doy2date: for every day number 1..365/366 and both leap flags the (month, day) is the calendar's;
    (c) doy == JDE(y, m, d) - JDE(y, 1, 1) + 1 with the library's own date -> JDE conversion, on every class of year (residue mod 4
        before 1582, residue mod 400 from 1583, and the change-over year 1582 itself), months and representative days."""
    import calendar as _cal
    from ..rules import eval_exact, NotEvaluable, assume
    rep.rule("R-DOY", "day-of-year recipes decided on their finite domains (month x leap flag; day number x leap flag) and against the "
                      "library's own date -> JDE conversion on every class of year")
    Y, D, N = T.sym("NUM_Y"), T.sym("NUM_D"), T.sym("NUM_N")
    prims = stdlib_prims(repo)
    fn = repo.func("Epoch", "Epoch.get_doy")
    gn = [a.arg for a in fn.args.args]
    LEAP = T.call("Epoch.Epoch.is_leap", Y)

    def julian_class(leap):
        def decide(c):
            if c == LEAP:
                return leap
            if c[0] == "cmp" and c[2] == Y and c[3][0] == "num" and c[3][1] in (1582, 1583):
                return {"GtE": False, "Gt": False, "Lt": True, "LtE": True}.get(c[1])
            return None
        return decide
    # (a)
    bad = []
    n = 0
    for leap in (True, False):
        cum = 0
        for m in range(1, 13):
            t = ret_term(repo, "Epoch", "Epoch.get_doy", arg_terms={gn[0]: Y, gn[1]: T.num(m), gn[2]: D})
            t = assume(t, julian_class(leap))
            try:
                v = eval_exact(t, {D: Fraction(1), Y: Fraction(1000)}, prims) - 1
            except NotEvaluable as e:
                rep.inconcl("R-DOY", "Epoch.Epoch.get_doy", "formula branch not evaluable: %s" % e)
                return
            n += 1
            if v != cum:
                bad.append("month %d in a %s year: %d days counted before the month, the calendar has %d" % (m, "leap" if leap else "common", v, cum))
            cum += _cal.mdays[m] + (1 if (leap and m == 2) else 0)
    if bad:
        rep.violation("R-DOY", "Epoch.Epoch.get_doy", "month-offsets", "day-of-year formula (years before 1583): " + "; ".join(bad[:3]), obligation=True)
    else:
        rep.ok("R-DOY", "Epoch.Epoch.get_doy", "formula branch: days before each month == calendar table for 12 months x 2 leap flags", obligation=True)
    n += doy2date_table(repo, rep, julian_class, prims)
    doy_vs_jde(repo, rep, tier, n, prims, gn)


def _julian_class(leap):
    Y = T.sym("NUM_Y")
    LEAP = T.call("Epoch.Epoch.is_leap", Y)

    def decide(c):
        if c == LEAP:
            return leap
        if c[0] == "cmp" and c[2] == Y and c[3][0] == "num" and c[3][1] in (1582, 1583):
            return {"GtE": False, "Gt": False, "Lt": True, "LtE": True}.get(c[1])
        return None
    return decide


def doy2date_table(repo, rep, julian_class=None, prims=None):
    """(b) of R-DOY, also used by C19 (moslem2gregorian goes through doy2date for every date before 1583): the formula branch
    of doy2date names the calendar's (month, day) for every day number of a common and of a leap year, and carries the
    fraction of the day unchanged (fractions 0, 1/2, 9/10, 999/1000 of every day)."""
    import calendar as _cal
    from ..rules import eval_exact, NotEvaluable, assume
    rep.rule("R-DOY", "day-of-year recipes decided on their finite domains (month x leap flag; day number x leap flag) and against the "
                      "library's own date -> JDE conversion on every class of year")
    julian_class = julian_class or _julian_class
    prims = prims or stdlib_prims(repo)
    Y, N = T.sym("NUM_Y"), T.sym("NUM_N")
    n = 0
    fn2 = repo.func("Epoch", "Epoch.doy2date")
    dn = [a.arg for a in fn2.args.args]
    t2 = ret_term(repo, "Epoch", "Epoch.doy2date", arg_terms={dn[0]: Y, dn[1]: N})
    bad = []
    for leap in (True, False):
        tj = assume(t2, julian_class(leap))
        dates = [(m, d) for m in range(1, 13) for d in range(1, _cal.mdays[m] + (1 if (leap and m == 2) else 0) + 1)]
        for k, (m, d) in enumerate(dates):
            for fr in (Fraction(0), Fraction(1, 2), Fraction(9, 10), Fraction(999, 1000)):
                try:
                    v = eval_exact(tj, {N: Fraction(k + 1) + fr, Y: Fraction(1000)}, prims)
                except (NotEvaluable, TypeError) as e:
                    rep.inconcl("R-DOY", "Epoch.Epoch.doy2date", "formula branch not evaluable: %s" % e)
                    return n
                n += 1
                if not (isinstance(v, tuple) and len(v) == 3 and v[1] == m and abs(v[2] - (d + fr)) < Fraction(1, 10 ** 9)):
                    bad.append("day %s of a %s year -> %s, the calendar has (%d, %s)" % (float(k + 1 + fr), "leap" if leap else "common",
                                                                                      tuple(float(x) for x in v[1:]) if isinstance(v, tuple) else v, m, float(d + fr)))
    if bad:
        rep.violation("R-DOY", "Epoch.Epoch.doy2date", "inverse", "day-of-year -> date (years before 1583): " + "; ".join(bad[:3]) + " (%d cases)" % len(bad), obligation=True)
    else:
        rep.ok("R-DOY", "Epoch.Epoch.doy2date", "formula branch inverts the day number for all 365 + 366 days, at 4 fractions of each day", obligation=True)
    return n


def doy_vs_jde(repo, rep, tier, n, prims, gn):
    """(c) of R-DOY"""
    from ..rules import eval_exact, NotEvaluable
    Y = T.sym("NUM_Y")
    fj = repo.func("Epoch", "Epoch._compute_jde")
    jn = [a.arg for a in fj.args.args]
    M_, Dn = T.sym("NUM_M"), T.sym("NUM_D")
    tj = ret_term(repo, "Epoch", "Epoch._compute_jde", arg_terms={jn[0]: T.sym("self"), jn[1]: Y, jn[2]: M_, jn[3]: Dn, "utc2tt": ("bool", False),
                                                                "leap_seconds": T.ZERO, "local": ("bool", False)})
    tg = ret_term(repo, "Epoch", "Epoch.get_doy", arg_terms={gn[0]: Y, gn[1]: M_, gn[2]: Dn})
    years = list(range(-8, 5)) + list(range(1000, 1004)) + list(range(1578, 1582)) + list(range(1583, 1983))
    months_quick = (1, 2, 3, 12)
    bad = []
    n2 = 0

    def one(y, m, d):
        env = {Y: Fraction(y), M_: Fraction(m), Dn: Fraction(d)}
        e1 = {Y: Fraction(y), M_: Fraction(1), Dn: Fraction(1)}
        return eval_exact(tg, env, prims), eval_exact(tj, env, prims) - eval_exact(tj, e1, prims) + 1
    for y in years:
        months = range(1, 13) if (tier == "thorough" or y < 1583) else months_quick
        for m in months:
            for d in (1, 28):
                try:
                    a, b = one(y, m, d)
                except NotEvaluable as e:
                    if y >= 1:
                        rep.inconcl("R-DOY", "Epoch.Epoch.get_doy", "doy vs JDE not evaluable for %d-%d-%d: %s" % (y, m, d, e))
                        return
                    continue
                n2 += 1
                if a != b:
                    bad.append((y, m, d, a, b))
    # the change-over year
    bad82 = []
    for m in range(1, 13):
        for d in (1, 4, 15, 28):
            if m == 10 and 4 < d < 15:
                continue
            try:
                a, b = one(1582, m, d)
            except NotEvaluable:
                continue
            n2 += 1
            if a != b:
                bad82.append((1582, m, d, a, b))
    rep.floor("day-of-year classes decided", n + n2, 2000)
    if bad:
        y, m, d, a, b = bad[0]
        rep.violation("R-DOY", "Epoch.Epoch.get_doy", "doy-vs-jde:%d-%d" % (y, m),
                      "get_doy(%d, %d, %d) = %s but JDE(%d, %d, %d) - JDE(%d, 1, 1) + 1 = %s (%d classes disagree)" % (y, m, d, float(a), y, m, d, y, float(b), len(bad)),
                      obligation=True)
    else:
        rep.ok("R-DOY", "Epoch.Epoch.get_doy:jde", "doy == JDE difference to 1 January + 1 on %d (year class, month, day) combinations" % n2, obligation=True)
    if bad82:
        y, m, d, a, b = bad82[0]
        rep.violation("R-DOY", "Epoch.Epoch.get_doy", "doy-1582",
                      "in the change-over year: get_doy(1582, %d, %d) = %s but the date is day %s of the year counted on the JDE axis "
                      "(the ten dropped days 5-14 October are counted); doy2date(1582, 278..287) names dates that do not exist" % (m, d, float(a), float(b)),
                      obligation=True)
    else:
        rep.ok("R-DOY", "Epoch.Epoch.get_doy:1582", "change-over year 1582: doy == JDE difference + 1 on both sides of 4/15 October", obligation=True)


def d2_formula(repo, rep):
    """the formula branch of get_doy / doy2date takes K from Epoch.is_leap(year)"""
    for q in ("Epoch.get_doy", "Epoch.doy2date"):
        fn = repo.func("Epoch", q)
        year_param = fn.args.args[0].arg
        calls = [x for x in ast.walk(fn) if isinstance(x, ast.Call) and norm_text(x.func) == "Epoch.is_leap"]
        if calls and all(len(c.args) == 1 and isinstance(c.args[0], ast.Name) and c.args[0].id == year_param for c in calls):
            rep.ok("R-DEP", "Epoch." + q, "leap flag of the formula branch comes from Epoch.is_leap(%s)" % year_param)
        elif calls:
            rep.violation("R-DEP", "Epoch." + q, "leap-flag", "the formula branch does not take its leap flag from Epoch.is_leap(year)")
        # (no direct call: the flag is taken through a helper; its dependence on is_leap(year) is decided by R-DOY / R-LEAPK below)
        # Meeus ch.7: K = 1 for a leap year, 2 for a common year - in both directions
        names = [a.arg for a in fn.args.args]
        t = ret_term(repo, "Epoch", q, arg_terms={n: T.sym(n) for n in names})
        ks = [x for x in T.walk(t) if x[0] == "phi" and x[1][0] == "call" and x[1][1] == "Epoch.Epoch.is_leap"
              and x[2][0] == "num" and x[3][0] == "num"]
        if not ks:
            rep.violation("R-LEAPK", "Epoch." + q, "k-missing", "no constant K selected by Epoch.is_leap(year) in the day-of-year formula")
        for k in ks:
            if (k[2][1], k[3][1]) == (1, 2):
                rep.ok("R-LEAPK", "Epoch." + q, "K = 1 if leap else 2 (Meeus ch.7), same in both directions")
            else:
                rep.violation("R-LEAPK", "Epoch." + q, "k-inverted:%s,%s" % (k[2][1], k[3][1]),
                              "day-of-year constant K is %s for leap years and %s for common years; Meeus' formula needs 1 and 2 "
                              "(every date after February is one day off)" % (k[2][1], k[3][1]))


def sidereal(repo, rep):
    rep.rule("R-POLY", "polynomial extracted from the source compared with the reference polynomial over the property's domain")
    rep.fn("Epoch", "Epoch.mean_sidereal_time")
    outs = outcomes(repo, "Epoch", "Epoch.mean_sidereal_time", arg_terms={"self": ("epoch", T.sym("J"))})
    rets = [o for o in outs if o.kind == "ret"]
    if not rets:
        raise AnalysisError("mean_sidereal_time has no return")
    site = "Epoch.Epoch.mean_sidereal_time"
    # every return is  mod(<theta>, 1)
    bad_mod = [o for o in rets if not (o.value[0] == "call" and o.value[1] == "mod" and o.value[3] == T.ONE)]
    if bad_mod:
        rep.violation("R-POLY", site, "modulo", "result is not reduced modulo 1 on every path", obligation=True)
    else:
        rep.ok("R-POLY", site + ":mod", "result is reduced modulo 1 on %d returning path(s)" % len(rets), obligation=True)
    # the polynomial in t = (jd0 - 2451545)/36525 : theta0 const + (s % 86400)/86400
    full = rets[-1].value
    mods = [x for x in T.walk(full) if x[0] == "call" and x[1] == "mod" and x[3] == T.num(86400)]
    if len(mods) != 1:
        rep.violation("R-POLY", site, "shape", "expected one `s % 86400` term (seconds polynomial), found %d" % len(mods), obligation=True)
        return
    s_term = mods[0][2]
    # jd0 expression -> symbol
    jd0s = [x for x in T.walk(s_term) if x[0] == "add" and T.num(-2451545) in x[1:]]
    if not jd0s:
        rep.violation("R-POLY", site, "timearg", "seconds polynomial is not a function of (jd0 - 2451545)", obligation=True)
        return
    d = jd0s[0]
    s2 = T.subst(s_term, {d: T.mul(T.num(36525), T.sym("TT"))})
    alg = Algebra()
    try:
        cs = numeric_poly(alg, s2, "TT")
    except AnalysisError as e:
        rep.violation("R-POLY", site, "not-poly", "seconds term is not a polynomial in T: %s" % e, obligation=True)
        return
    # constant: theta0 (in days) * 86400
    consts = []
    inner = full[2]
    const_days = Fraction(0)
    for p in (inner[1:] if inner[0] == "add" else (inner,)):
        if p[0] == "num":
            const_days += p[1]
    coeffs = [const_days * 86400] + list(cs[1:]) + [Fraction(0)] * (4 - len(cs))
    if cs and cs[0] != 0:
        coeffs[0] += cs[0]
    # max difference over T in [-68, 82] centuries (JDE 0 .. 5.4e6), in days
    diff = [coeffs[i] - IAU1982[i] for i in range(4)] + [c for c in coeffs[4:]]
    worst = 0.0
    for k in range(-680, 821):
        x = k / 10.0
        v = sum(float(c) * x ** i for i, c in enumerate(diff)) / 86400.0
        worst = max(worst, abs(v))
    if worst <= 1e-7:
        rep.ok("R-POLY", site + ":IAU1982", "GMST(0h) polynomial %s s vs IAU 1982: max difference %.2e day over T in [-68, 82] cy (<= 1e-7)"
               % ([float(c) for c in coeffs[:4]], worst), obligation=True)
    else:
        rep.violation("R-POLY", site, "iau1982", "GMST polynomial %s differs from IAU 1982 %s by up to %.2e day (> 1e-7)"
                      % ([float(c) for c in coeffs[:4]], [float(c) for c in IAU1982], worst), obligation=True)
    # rate
    rate_ok = any(x[0] == "num" and x[1] == Fraction("1.00273790935") for x in T.walk(full))
    if rate_ok:
        rep.ok("R-POLY", site + ":rate", "elapsed fraction of the day is multiplied by 1.00273790935", obligation=True)
    else:
        rep.violation("R-POLY", site, "rate", "sidereal rate literal 1.00273790935 not applied to the elapsed day fraction", obligation=True)
    # apparent
    rep.fn("Epoch", "Epoch.apparent_sidereal_time")
    fn = repo.func("Epoch", "Epoch.apparent_sidereal_time")
    names = [a.arg for a in fn.args.args]
    t = ret_term(repo, "Epoch", "Epoch.apparent_sidereal_time",
                 arg_terms={names[0]: ("epoch", T.sym("J")), names[1]: T.sym("EPS"), names[2]: T.sym("DPSI")})
    mean = T.call("Epoch.Epoch.mean_sidereal_time", ("epoch", T.sym("J")))
    want = T.add(mean, T.mul(T.num(Fraction(3600, 15 * 86400)), T.sym("DPSI"), T.call("cos", T.mul(T.sym("EPS"), D2R))))
    alg2 = Algebra()
    # the parameters are numbers on the path where they were not Angles; compare on that path
    cands = [t]
    for x in T.walk(t):
        if x[0] == "phi":
            cands.extend([x[2], x[3]])
    t_num = t
    def strip_phi(u):
        if u[0] == "phi":
            return strip_phi(u[3])
        if u[0] in ("add", "mul"):
            return (T.add if u[0] == "add" else T.mul)(*[strip_phi(z) for z in u[1:]])
        if u[0] == "call":
            return ("call", u[1]) + tuple(strip_phi(z) for z in u[2:])
        return u
    t_num = strip_phi(t)
    try:
        same = alg2.equal(t_num, want)
    except Exception:
        same = False
    if same:
        rep.ok("R-E4-ID", "Epoch.Epoch.apparent_sidereal_time", "== mean + dpsi[deg]*3600*cos(eps)/15/86400 (equation of the equinoxes in days)", obligation=True)
    else:
        rep.violation("R-E4-ID", "Epoch.Epoch.apparent_sidereal_time", "eq-equinoxes",
                      "apparent sidereal time is not mean + nutation*cos(obliquity)/15 converted to days: " + T.show(t_num)[:160], obligation=True)
