"""C10 UTC <-> TT offset follows the IERS leap-second history and inverts.

Decided: D1 LEAP_TABLE equals the IERS list (27 entries through 2017-01-01);
D2 the leap-second lookup and the 1972 test on construction use the civil
(unshifted) year/month (R-TAINT-SHIFT) and both directions switch on at the same
date, 1972-01 (R-INV-GUARD); D3 the explicit leap_seconds override replaces the
table value in both directions with the same 32.184 + 10 s (R-SIB); D4 Delta-T
polynomial: jumps < 1 s at every joint after -500 and within 3.5 s of
42.184 + leap seconds over 1972-2018 (R-POLY, evaluated on the extracted polynomials);
D7 offset and 1 ms read-back on the property's grid by exact execution (R-UTCGRID)."""
from fractions import Fraction

from .. import symx, terms as T
from ..frontend import AnalysisError
from ..poly import eval_numeric
from ..rules import ret_term, find_calls, outcomes, conjuncts, disjuncts, assume
from .. import effects, guards

MANIFEST = {
    "level": "other",
    "technique": "static analysis: literal-table audit against the IERS leap-second list, taint rule on the January/February shift (symbolic evaluation of _compute_jde), inverse-guard comparison of the two activation predicates, branch sibling comparison for the override, partial evaluation of constructor and read-back for every keyword combination, recovery of the decision structure of leap_seconds(year, month) (loop over the literal table unrolled) and comparison with the IERS step function on every ordering class, polynomial extraction and exact evaluation of the Delta-T segments, day-of-year tables of the read-back path (shared with C16), exact execution (rational arithmetic) of the extracted UTC->TT construction and TT->UTC read-back terms, with the library's own leap_seconds / get_doy / doy2date terms substituted for the calls, on the property's (year, month) x day x time grid 1950..2100 and with explicit overrides 0..60",
    "text": "The table clause is decided outright (the table is a literal). The offset clauses are decided structurally for every date at once: the leap-second lookup and the 1972 threshold see the civil year/month, construction and read-back switch on at the same (year, month) = (1972, 1), the override branch is the automatic branch with the table value replaced, every combination of the utc / leap_seconds / local keywords reaches the documented branch (a supplied value always wins), and leap_seconds(year, month) selects the IERS count for every (year, month). The Delta-T clauses are decided on the polynomials extracted from the source. The offset and the 1 ms read-back are then decided cell by cell on the grid the property names - every (year, month) 1950..2100 x days 1, 15, last x 0h, 12h, 23:59:59 (quick tier: the month-boundary cells of every month plus the full grid around 1972 and 2017), and leap_seconds overrides 0..60 - by exact execution of the extracted construction and read-back terms: the Epoch built with utc=True is exactly 32.184 + 10 + IERS count seconds later than the same date taken as TT (nothing before 1972; the supplied count with an override) and reads back as the civil date to 1 ms. This found the insertion-day defect repaired in 68be528 (23:59:59 UTC read back one second early).",
    "note": "Trusted: the IERS Bulletin C history embedded in the checker (27 insertions 1972-2016); TT-TAI = 32.184 s and TAI-UTC(1972-01-01) = 10 s as stated in the property. Undecided: read-back at times of day off the grid; leap_seconds=0 is documented as `no override`; float vs exact evaluation.",
}

# IERS Bulletin C: dates at which the cumulative count becomes n (1 July -> year + 0.5, 1 January -> year + 0.0)
IERS = [(1972.5, 1), (1973.0, 2), (1974.0, 3), (1975.0, 4), (1976.0, 5), (1977.0, 6), (1978.0, 7), (1979.0, 8), (1980.0, 9),
        (1981.5, 10), (1982.5, 11), (1983.5, 12), (1985.5, 13), (1988.0, 14), (1990.0, 15), (1991.0, 16), (1992.5, 17),
        (1993.5, 18), (1994.5, 19), (1996.0, 20), (1997.5, 21), (1999.0, 22), (2006.0, 23), (2009.0, 24), (2012.5, 25),
        (2015.5, 26), (2017.0, 27)]


def run(repo, rep, tier):
    rep.decided = ["D1 LEAP_TABLE == IERS list", "D2 lookup/threshold on civil year-month; both directions start 1972-01",
                   "D3 override symmetric", "D4 Delta-T joints < 1 s and 1972-2018 band 3.5 s",
                   "D5 every keyword combination reaches the right branch (explicit leap_seconds wins over utc=True)"]
    rep.undecided = ["UTC read-back off the grid (other times of day); leap_seconds=0 is documented as `no override`"]
    rep.decided.append("D7 offset and 1 ms read-back on the property's grid (every month 1950..2100 x day x time, overrides 0..60) by exact execution (R-UTCGRID)")
    rep.decided.append("D6 leap_seconds(year, month) selects the IERS entry for every (year, month)")
    rep.assumptions = ["IERS list embedded in the checker", "32.184 s + 10 s from the property text"]
    d1_table(repo, rep)
    d2_taint(repo, rep)
    d3_override(repo, rep)
    d4_deltat(repo, rep, tier)
    d5_kwpaths(repo, rep)
    d6_step(repo, rep)
    utc_grid(repo, rep, tier)
    # the TT -> UTC read-back shifts the date through get_doy / doy2date: their day-number tables (rule shared with C16)
    from .c16 import doy_tables
    rep.fn("Epoch", "Epoch.get_doy"); rep.fn("Epoch", "Epoch.doy2date")
    doy_tables(repo, rep, tier)
    fam = [("Epoch", "Epoch." + q) for q in ("leap_seconds", "get_last_leap_second", "_compute_jde", "get_date", "tt2ut")]
    effects.check_functions(repo, rep, fam)
    guards.check_functions(repo, rep, fam)
    return "other"


def d1_table(repo, rep):
    rep.rule("R-TABLE-AUDIT", "literal table equals the external reference list, entry by entry")
    lt = repo.mod("Epoch").literal("LEAP_TABLE")
    rep.table("Epoch.LEAP_TABLE")
    want = dict(IERS)
    ok = True
    for k in sorted(set(lt) | set(want)):
        if k not in lt:
            ok = False
            rep.violation("R-TABLE-AUDIT", "Epoch.LEAP_TABLE", "missing:%s" % k, "IERS insertion effective %s (count %d) is missing" % (k, want[k]), obligation=True)
        elif k not in want:
            ok = False
            rep.violation("R-TABLE-AUDIT", "Epoch.LEAP_TABLE", "extra:%s" % k, "entry %s -> %s is not an IERS leap second" % (k, lt[k]), obligation=True)
        elif lt[k] != want[k]:
            ok = False
            rep.violation("R-TABLE-AUDIT", "Epoch.LEAP_TABLE", "value:%s" % k, "entry %s has count %s, IERS count is %d" % (k, lt[k], want[k]), obligation=True)
    if ok:
        rep.ok("R-TABLE-AUDIT", "Epoch.LEAP_TABLE", "27 entries equal the IERS list 1972-07-01 .. 2017-01-01, counts 1..27", obligation=True)
    rep.floor("leap table entries", len(lt), 20)
    # get_last_leap_second and leap_seconds read the table through sorted(keys): shape rule
    for q in ("Epoch.leap_seconds", "Epoch.get_last_leap_second"):
        t = ret_term(repo, "Epoch", q)
        if not any(x == T.sym("Epoch.LEAP_TABLE") for x in T.walk(t)):
            rep.violation("R-TABLE-AUDIT", "Epoch." + q, "not-table", "result does not come from LEAP_TABLE", obligation=True)
        else:
            rep.ok("R-TABLE-AUDIT", "Epoch." + q, "result is read from LEAP_TABLE", obligation=True, sample=False)
        rep.fn("Epoch", q)


def phi_leaves(t, conds=()):
    if t[0] == "phi":
        yield from phi_leaves(t[2], conds + (t[1],))
        yield from phi_leaves(t[3], conds + (T.lnot(t[1]),))
    else:
        yield conds, t


def d2_taint(repo, rep):
    rep.rule("R-TAINT-SHIFT", "arguments of the leap-second lookup and operands of the 1972 comparison are the civil year/month, "
                              "not the values rebound by the January/February shift of the JD algorithm")
    rep.rule("R-INV-GUARD", "UTC->TT on construction and TT->UTC on read-back are activated by the same (year, month) threshold, (1972, 1)")
    rep.fn("Epoch", "Epoch._compute_jde")
    fn = repo.func("Epoch", "Epoch._compute_jde")
    names = [a.arg for a in fn.args.args]   # self, y, m, d, ...
    if len(names) < 4:
        raise AnalysisError("_compute_jde signature changed")
    Y, M = names[1], names[2]
    t = ret_term(repo, "Epoch", "Epoch._compute_jde")
    calls = find_calls(t, "Epoch.Epoch.leap_seconds")
    rep.floor("leap_seconds call sites in _compute_jde", len(calls), 1)
    site = "Epoch.Epoch._compute_jde"
    bad = False
    for c in calls:
        a, b = c[2], c[3]
        if a != T.sym(Y) or b != T.sym(M):
            bad = True
            rep.violation("R-TAINT-SHIFT", site, "leap-args-shifted",
                          "Epoch.leap_seconds() is called with the year/month shifted by the January/February rule of the JD "
                          "algorithm (year-1, month+12): January and February get the previous entry. args: (%s, %s)" % (T.show(a), T.show(b)))
    cmps = [x for x in T.walk(t) if x[0] == "cmp" and (x[3] == T.num(1972) or x[2] == T.num(1972))]
    rep.floor("1972 comparisons in _compute_jde", len(cmps), 1)
    thr_c = None
    for c in cmps:
        other = c[2] if c[3] == T.num(1972) else c[3]
        if other != T.sym(Y):
            bad = True
            rep.violation("R-TAINT-SHIFT", site, "threshold-shifted",
                          "the 1972 threshold is tested on the shifted year (January/February 1972 are treated as 1971): %s" % T.show(c))
        if c[1] == "GtE" and c[3] == T.num(1972):
            thr_c = (1972, 1)
        elif c[1] == "Gt" and c[3] == T.num(1972):
            thr_c = (1973, 1)
    if not bad:
        rep.ok("R-TAINT-SHIFT", site, "lookup and 1972 test use the unshifted (%s, %s)" % (Y, M))
    # read-back
    rep.fn("Epoch", "Epoch.get_date")
    outs = outcomes(repo, "Epoch", "Epoch.get_date", arg_terms={"self": ("epoch", T.sym("J")), "kwargs": _kwd(utc=("bool", True))})
    rets = [o for o in outs if o.kind == "ret"]
    if not rets:
        raise AnalysisError("get_date has no return")
    thr_g = set()
    n = 0
    for o in rets:
        for x in T.walk(o.value):
            pass
    t2 = symx.return_term(outs)
    # activation predicates are the conditions guarding  + 42.184 (= 32.184 + 10)
    preds = set(x[1] for x in offset_phis(t2))
    rep.floor("activation predicates in get_date", len(preds), 1)
    for p in preds:
        th = threshold_of(p)
        n += 1
        if th is None:
            rep.inconcl("R-INV-GUARD", "Epoch.Epoch.get_date", "activation predicate not understood: " + T.show(p)[:120])
            continue
        thr_g.add(th)
    if thr_c is None:
        rep.inconcl("R-INV-GUARD", site, "activation predicate of _compute_jde not understood")
    else:
        if thr_c != (1972, 1):
            rep.violation("R-INV-GUARD", site, "start:%s-%s" % thr_c, "UTC->TT on construction starts at %d-%02d, the property says 1972-01" % thr_c)
        for th in sorted(thr_g):
            if th != (1972, 1):
                rep.violation("R-INV-GUARD", "Epoch.Epoch.get_date", "start:%s-%s" % th,
                              "TT->UTC on read-back starts at %d-%02d while construction starts at %d-%02d: dates in between do not read back"
                              % (th[0], th[1], thr_c[0], thr_c[1]))
        if thr_c == (1972, 1) and thr_g == {(1972, 1)}:
            rep.ok("R-INV-GUARD", "Epoch.Epoch.get_date", "both directions switch on at 1972-01 (%d predicate(s))" % len(preds))
    # stepping back across New Year: the length of the previous year must be taken from the year the date moves into
    kw = ("dict", ((("str", "utc"), ("bool", True)),))
    t3 = ret_term(repo, "Epoch", "Epoch.get_date", arg_terms={"self": ("epoch", T.sym("J")), "kwargs": kw})
    calls = find_calls(t3, "Epoch.Epoch.doy2date")
    rep.floor("doy2date calls on the TT->UTC path", len(calls), 1)
    for c in calls:
        Y, D = c[2], c[3]
        if not (Y[0] == "phi" and D[0] == "phi" and Y[1] == D[1]):
            rep.violation("R-DEP", "Epoch.Epoch.get_date", "newyear-shape", "year and day-of-year handed to doy2date are not adjusted under one `doy < 1` test")
            continue
        new_year = Y[2]
        leaps = [x for x in T.walk(D[2]) if x[0] == "call" and x[1] == "Epoch.Epoch.is_leap"]
        if leaps and all(l[2] == new_year for l in leaps) and new_year == T.add(Y[3], T.num(-1)):
            rep.ok("R-DEP", "Epoch.Epoch.get_date:newyear", "when the UTC date falls back into the previous year, 365/366 is chosen by is_leap(year - 1), the year handed to doy2date")
        else:
            rep.violation("R-DEP", "Epoch.Epoch.get_date", "newyear-leap-year",
                          "when the TT->UTC offset moves the date back across 1 January, the length of the previous year (365/366) is taken from "
                          "is_leap(%s) but the date is placed in year %s: wrong by a day whenever exactly one of the two years is a leap year"
                          % (T.show(leaps[0][2])[:40] if leaps else "?", "year - 1" if new_year == T.add(Y[3], T.num(-1)) else T.show(new_year)[:40]))


def offset_phis(t):
    """innermost phi nodes whose true branch adds 32.184 + 10 s (= 42.184) and whose
    false branch does not: the activation points of the UTC<->TT offset."""
    c = Fraction("42.184")
    cands = [x for x in T.walk(t) if x[0] == "phi" and contains_const(x[2], c) and not contains_const(x[3], c)]
    out = []
    for x in cands:
        inner = [y for y in T.walk(x[2]) if y[0] == "phi" and y is not x and contains_const(y[2], c) and not contains_const(y[3], c)]
        if not inner:
            out.append(x)
    return out


def contains_const(t, value):
    for x in T.walk(t):
        if x[0] == "num" and x[1] == value:
            return True
        if x[0] == "add":
            for y in x[1:]:
                if y[0] == "num" and y[1] == value:
                    return True
    return False


def threshold_of(p):
    """(year, month) from which predicate p holds, for p built from comparisons of a
    year term / month term with literals: y >= A ; y > A ; y > A or (y == A and m >= B)."""
    ds = disjuncts(p)
    cands = []
    for d in ds:
        cj = conjuncts(d)
        if len(cj) == 1 and cj[0][0] == "cmp" and cj[0][3][0] == "num":
            op, v = cj[0][1], cj[0][3][1]
            if op == "GtE":
                cands.append((int(v), 1))
            elif op == "Gt":
                cands.append((int(v) + 1, 1))
            else:
                return None
        elif len(cj) == 2 and all(c[0] == "cmp" and c[3][0] == "num" for c in cj):
            eq = [c for c in cj if c[1] == "Eq"]
            ge = [c for c in cj if c[1] in ("GtE", "Gt")]
            if len(eq) == 1 and len(ge) == 1:
                mth = int(ge[0][3][1]) + (1 if ge[0][1] == "Gt" else 0)
                cands.append((int(eq[0][3][1]), mth))
            else:
                return None
        else:
            return None
    return min(cands) if cands else None


def d3_override(repo, rep):
    rep.rule("R-SIB", "the explicit-override branch is the automatic branch with the table value replaced by the supplied one")
    n = 0
    L = T.sym("NUM_L")

    def nonzero(c):
        if c[0] == "cmp" and c[2] == L and c[3] == T.ZERO:
            return {"Eq": False, "NotEq": True}.get(c[1])
        return None
    for q, auto_call in (("Epoch._compute_jde", "Epoch.Epoch.leap_seconds"), ("Epoch.get_date", "Epoch.Epoch.leap_seconds")):
        # the two modes are obtained by partial evaluation: automatic (table) and explicit override L != 0
        if q == "Epoch.get_date":
            t_auto = ret_term(repo, "Epoch", q, arg_terms={"self": ("epoch", T.sym("J")), "kwargs": _kwd(utc=("bool", True))})
            t_over = ret_term(repo, "Epoch", q, arg_terms={"self": ("epoch", T.sym("J")), "kwargs": _kwd(leap_seconds=L)})
        else:
            fn_ = repo.func("Epoch", q)
            nm_ = [a.arg for a in fn_.args.args]
            base_ = {nm_[0]: T.sym("self"), nm_[1]: T.sym("NUM_y"), nm_[2]: T.sym("NUM_m"), nm_[3]: T.sym("NUM_d")}
            t_auto = ret_term(repo, "Epoch", q, arg_terms=dict(base_, utc2tt=("bool", True), leap_seconds=T.ZERO, local=("bool", False)))
            t_over = ret_term(repo, "Epoch", q, arg_terms=dict(base_, utc2tt=("bool", False), leap_seconds=L, local=("bool", False)))
        t_over = assume(t_over, nonzero)
        autos = [x for x in offset_phis(t_auto) if find_calls(x[2], auto_call)]
        overs = [x for x in offset_phis(t_over) if not find_calls(x[2], auto_call)]
        site = "Epoch." + q
        if not autos or not overs:
            rep.violation("R-SIB", site, "override-missing", "automatic and override branches both adding 32.184 + 10 s were not found "
                          "(automatic %d, override %d)" % (len(autos), len(overs)))
            continue
        a, o = autos[0], overs[0]
        call = find_calls(a[2], auto_call)[0]
        # the override symbol: the free symbol in the override branch not in the automatic one
        in_a = set(T.walk(a[2]))
        syms_o = [L] + [x for x in T.walk(o[2]) if x not in in_a and x[0] in ("sym", "idx", "phi")]
        ok = False

        def table_value(x):
            """a selection among table look-ups (every leaf of the phi tree is a call of the table function; the conditions
            may be anything): still `the table value`, e.g. the entry of the UTC month rather than of the TT month"""
            return x[0] == "phi" and all(leaf[0] == "call" and leaf[1] == auto_call for _, leaf in phi_leaves(x))
        for s in syms_o:
            mp = {call: s}
            sel = [x for x in T.walk(a[2]) if table_value(x)]
            for x in sorted(sel, key=lambda z: -len(T.show(z))):
                mp.setdefault(x, s)
            if T.subst(a[2], mp) == o[2] and T.subst(a[3], mp) == o[3]:
                ok = True
                break
        same_guard = a[1] == o[1]
        n += 1
        if ok and same_guard:
            rep.ok("R-SIB", site, "override branch == automatic branch with leap_seconds(...) replaced; same activation predicate; constant 42.184 = 32.184 + 10")
        else:
            rep.violation("R-SIB", site, "override-asymmetric",
                          "the explicit leap_seconds branch differs from the automatic branch by more than the table value "
                          "(same terms: %s, same guard: %s)" % (ok, same_guard))
    rep.floor("override branch pairs", n, 2)


# --------------------------------------------------------------------------------------------------------------------------
# R-UTCGRID: exact execution of construction (UTC -> TT) and read-back (TT -> UTC) on the property's own grid
# --------------------------------------------------------------------------------------------------------------------------
_UTC_TERMS = {}
GRID_TIMES = ((0, "0h"), (43200, "12h"), (86399, "23:59:59"))


def _utc_terms(root):
    if root not in _UTC_TERMS:
        from ..frontend import Repo
        from ..rules import repo_prims
        from .c16 import stdlib_prims
        repo = Repo(root) if root else Repo()
        fn_ = repo.func("Epoch", "Epoch._compute_jde")
        nm = [a.arg for a in fn_.args.args]
        Y, M, D, L, J = T.sym("NUM_y"), T.sym("NUM_m"), T.sym("NUM_d"), T.sym("NUM_L"), T.sym("NUM_J")
        base = {nm[0]: T.sym("self"), nm[1]: Y, nm[2]: M, nm[3]: D}
        tj_auto = ret_term(repo, "Epoch", "Epoch._compute_jde", arg_terms=dict(base, utc2tt=("bool", True), leap_seconds=T.ZERO, local=("bool", False)))
        tj_plain = ret_term(repo, "Epoch", "Epoch._compute_jde", arg_terms=dict(base, utc2tt=("bool", False), leap_seconds=T.ZERO, local=("bool", False)))
        tj_over = ret_term(repo, "Epoch", "Epoch._compute_jde", arg_terms=dict(base, utc2tt=("bool", False), leap_seconds=L, local=("bool", False)))
        tg_auto = ret_term(repo, "Epoch", "Epoch.get_date", arg_terms={"self": ("epoch", J), "kwargs": _kwd(utc=("bool", True))})
        tg_over = ret_term(repo, "Epoch", "Epoch.get_date", arg_terms={"self": ("epoch", J), "kwargs": _kwd(leap_seconds=L)})
        _UTC_TERMS[root] = (tj_auto, tj_plain, tj_over, tg_auto, tg_over, repo_prims(repo, stdlib_prims(repo)))
    return _UTC_TERMS[root]


def _utc_chunk(job):
    """worker: (root, [(year, month, day, seconds, L or None)]) -> (n, problems[(kind, class key, year, text)])"""
    import calendar as _cal
    from ..rules import eval_exact, NotEvaluable
    root, pts = job
    tj_auto, tj_plain, tj_over, tg_auto, tg_over, prims = _utc_terms(root)
    Y, M, D, L, J = T.sym("NUM_y"), T.sym("NUM_m"), T.sym("NUM_d"), T.sym("NUM_L"), T.sym("NUM_J")
    ms = Fraction(1, 86400000)
    probs = []
    n = 0
    for (y, m, d, sec, ov) in pts:
        dd = Fraction(d) + Fraction(sec, 86400)
        dkind = "day1" if d == 1 else ("last" if d == _cal.monthrange(y, m)[1] else "mid")
        tkind = dict(GRID_TIMES).get(sec, str(sec))
        cls = "%s-%s" % (dkind, tkind)
        env = {Y: Fraction(y), M: Fraction(m), D: dd}
        if ov is not None:
            env[L] = Fraction(ov)
        try:
            jp = eval_exact(tj_plain, dict(env, **{"$memo": {}}), prims)
            jf = eval_exact(tj_auto if ov is None else tj_over, dict(env, **{"$memo": {}}), prims)
            e2 = {J: jf, "$memo": {}}
            if ov is not None:
                e2[L] = Fraction(ov)
            g = eval_exact(tg_auto if ov is None else tg_over, e2, prims)
        except NotEvaluable as e:
            return n, [("not-evaluable", "", y, "%s at %d-%02d-%02d %s" % (e, y, m, d, tkind))]
        except (TypeError, ValueError, IndexError, KeyError) as e:     # the evaluator's own limits are not evidence against the code
            return n, [("not-evaluable", "", y, "%s: %s at %d-%02d-%02d %s" % (type(e).__name__, e, y, m, d, tkind))]
        except ZeroDivisionError as e:
            probs.append(("error", cls, y, "%s: %s at %d-%02d-%02d %s UTC%s" % (type(e).__name__, e, y, m, d, tkind, "" if ov is None else " leap_seconds=%d" % ov)))
            continue
        n += 1
        pos = Fraction(y) + Fraction(m - 1, 12)
        if ov is None:
            count = max([c for k, c in IERS if Fraction(str(k)) <= pos], default=0)
        else:
            count = ov
        want = (Fraction("42.184") + count) / 86400 if (y >= 1972 and (ov is None or ov != 0)) else Fraction(0)
        tag = "" if ov is None else " with leap_seconds=%d" % ov
        if jf - jp != want:
            probs.append(("offset" if ov is None else "offset-override", cls, y,
                          "Epoch(%d, %d, %d, %s, utc=True%s) is %.6f s later than the same date taken as TT; 32.184 + 10 + %s = %.3f s expected"
                          % (y, m, d, tkind, tag, float((jf - jp) * 86400), ("%d leap seconds inserted before %d-%02d" % (count, y, m)) if ov is None else "the supplied %d" % ov,
                             float(want * 86400))))
            continue
        ok = isinstance(g, tuple) and len(g) == 3 and g[0] == y and g[1] == m and not isinstance(g[2], bool) and abs(Fraction(g[2]) - dd) <= ms
        if not ok:
            try:
                shown = "(%d, %d, %.9f)" % (g[0], g[1], float(g[2]))
            except Exception:
                shown = repr(g)[:80]
            probs.append(("readback" if ov is None else "readback-override", cls, y,
                          "%d-%02d-%02d %s UTC%s reads back (utc=True) as %s, i.e. day %.9f expected: off by %.3f s"
                          % (y, m, d, tkind, tag, shown, float(dd),
                             float((Fraction(g[2]) - dd) * 86400) if isinstance(g, tuple) and len(g) == 3 and g[0] == y and g[1] == m else float("nan"))))
    return n, probs


def utc_grid(repo, rep, tier):
    """R-UTCGRID.  Construction with utc=True and read-back with utc=True are rational recipes (floors, the leap-second table,
    day-of-year tables); their extracted terms - with the library's own leap_seconds / get_doy / doy2date / is_leap terms
    substituted for the calls - are executed exactly on the grid the property names: every (year, month) 1950..2100 x days 1, 15,
    last x 0h, 12h, 23:59:59 (quick tier: the month-boundary cells of every month and the whole grid around 1972 and 2017),
    and with explicit leap_seconds overrides 0..60.  Decided per cell: the offset to the same date taken as TT is exactly
    32.184 + 10 + IERS count (0 before 1972; the supplied value with an override), and the read-back is the civil date to 1 ms."""
    import calendar as _cal
    rep.rule("R-UTCGRID", "Epoch(date, utc=True) - Epoch(date) == 32.184 s + 10 s + leap seconds inserted before the date (0 before 1972) and "
                          "get_date(utc=True) returns the date to 1 ms, on every cell of the (year, month) x day x time grid 1950..2100; "
                          "same with every leap_seconds override 0..60 (exact execution of the extracted terms)")
    site = "Epoch.Epoch._compute_jde/get_date"
    full = tier == "thorough"
    pts = []
    for y in range(1950, 2101):
        for m in range(1, 13):
            last = _cal.monthrange(y, m)[1]
            for d in (1, 15, last):
                for sec, _ in GRID_TIMES:
                    if full or (d == 1 and sec == 0) or (d == last and sec == 86399) or y in (1971, 1972, 1973, 2016, 2017) or (m in (6, 7) and d == 15 and sec == 43200):
                        pts.append((y, m, d, sec, None))
    n_auto = len(pts)
    ov_months = [(1971, 12), (1972, 1), (1972, 6), (1972, 7), (1990, 12), (2017, 1), (2050, 6)]
    if full:
        ov_months += [(y, m) for y in (1970, 1973, 1974, 1975, 2015, 2016, 2018, 2099, 2100) for m in range(1, 13)]
    for (y, m) in ov_months:
        last = _cal.monthrange(y, m)[1]
        for ov in range(0, 61):
            for d in (1, 15, last):
                for sec, _ in GRID_TIMES:
                    if full or (d, sec) in ((1, 0), (15, 43200), (last, 86399)):
                        pts.append((y, m, d, sec, ov))
    if full:
        for y in range(1950, 2101):
            for m in range(1, 13):
                last = _cal.monthrange(y, m)[1]
                for ov in (1, 27, 60):
                    for (d, sec) in ((1, 0), (15, 43200), (last, 86399)):
                        pts.append((y, m, d, sec, ov))
    size = 400
    jobs = [(repo.root, pts[i:i + size]) for i in range(0, len(pts), size)]
    from concurrent.futures import ProcessPoolExecutor
    try:
        with ProcessPoolExecutor(max_workers=14 if full else 8) as ex:
            results = list(ex.map(_utc_chunk, jobs))
    except NotImplementedError:
        results = [_utc_chunk(j_) for j_ in jobs]
    n = sum(r[0] for r in results)
    probs = [p for r in results for p in r[1]]
    ne = [p for p in probs if p[0] == "not-evaluable"]
    if ne:
        rep.inconcl("R-UTCGRID", site, "terms not executable: " + ne[0][3])
        return
    by = {}
    for kind, cls, y, text in probs:
        by.setdefault((kind, cls), []).append((y, text))
    for (kind, cls), lst in sorted(by.items()):
        rep.violation("R-UTCGRID", site, "%s:%s" % (kind, cls), lst[0][1] + "  (%d grid cell(s) of this kind fail, years %s)"
                      % (len(lst), ", ".join(str(y_) for y_ in sorted(set(y_ for y_, _ in lst))[:12])), construct="%s %s" % (kind, cls), obligation=True)
    if not probs:
        rep.ok("R-UTCGRID", site, "%d grid cells executed exactly (%d automatic, %d with an explicit leap_seconds in 0..60): offset == 42.184 s + count from 1972, 0 before; "
               "read-back returns the civil date to 1 ms%s" % (n, n_auto, n - n_auto, " (full grid 1950..2100)" if full else " (month-boundary cells of every month 1950..2100; full grid 1971-73, 2016-17)"),
               obligation=True)
    rep.floor("UTC grid cells executed", n, 16308 if full else 5000)


def d6_step(repo, rep):
    """R-STEP: leap_seconds(year, month) touches its arguments only through comparisons of year + c(month) with
    the table keys, so it is a step function of the year for each month; its decision structure is recovered
    from the source (loops over the literal table unrolled) and compared with the IERS step function on every
    ordering class of (year, month) against the keys."""
    from ..rules import eval_exact, NotEvaluable
    rep.rule("R-STEP", "decision structure of leap_seconds(year, month) == cumulative IERS count on every class of (year, month) relative to the table keys")
    q = "Epoch.leap_seconds"
    site = "Epoch." + q
    fn = repo.func("Epoch", q)
    an = [a.arg for a in fn.args.args]
    Y, M = T.sym("NUM_Y"), T.sym("NUM_M")
    try:
        t = ret_term(repo, "Epoch", q, arg_terms={an[0]: Y, an[1]: M}, unroll=64)
    except AnalysisError as e:
        rep.inconcl("R-STEP", site, "decision structure not recovered: %s" % e)
        return
    # the arguments occur only in comparisons (and the comparisons only against numbers)
    syms_outside = set()

    def scan(x, in_cmp):
        if not isinstance(x, tuple) or not x:
            return
        if x[0] == "cmp":
            in_cmp = True
        if x[0] == "sym" and not in_cmp:
            syms_outside.add(x[1])
        if x[0] == "call" and x[1] not in ("mod", "floor", "int", "abs"):
            syms_outside.add("call " + x[1])
        for y in x[1:]:
            scan(y, in_cmp)
    scan(t, False)
    if syms_outside:
        rep.inconcl("R-STEP", site, "the result is not a pure decision over comparisons of the arguments (%s)" % sorted(syms_outside)[:3])
        return
    keys = sorted(x[1] for x in T.walk(t) if x[0] == "num" and 1900 < x[1] < 2200)
    lo, hi = int(min(keys)) - 3, int(max(keys)) + 3
    bad = []
    n = 0
    for y in range(lo, hi + 1):
        for m in range(1, 13):
            pos = Fraction(y) + Fraction(m - 1, 12)
            want = max([c for d, c in IERS if Fraction(str(d)) <= pos], default=0)
            try:
                got = eval_exact(t, {Y: Fraction(y), M: Fraction(m)})
            except NotEvaluable as e:
                bad.append((y, m, "not decidable: %s" % e, want))
                continue
            n += 1
            if got != want:
                bad.append((y, m, int(got), want))
    rep.floor("(year, month) classes decided for leap_seconds", n, 12 * 40)
    if not bad:
        rep.ok("R-STEP", site, "step function equals the IERS count on all %d (year, month) classes %d-%d (constant outside: only comparisons with keys %s..%s)"
               % (n, lo, hi, float(keys[0]), float(keys[-1])), obligation=True)
    # group consecutive failures
    for y, m, got, want in bad[:6]:
        rep.violation("R-STEP", site, "step:%d-%02d" % (y, m),
                      "leap_seconds(%d, %d) selects %s; the IERS cumulative count for %d-%02d is %d" % (y, m, got, y, m, want), obligation=True)


def _kwd(**k):
    return ("dict", tuple(((("str", a), v)) for a, v in sorted(k.items())))


def d5_kwpaths(repo, rep):
    """R-KWPATH: partial evaluation of Epoch.set / Epoch.get_date for every documented keyword
    combination; the correction that is finally applied is classified as none / table / override."""
    import ast
    rep.rule("R-KWPATH", "for each combination of the utc / leap_seconds / local keywords the applied correction is the table value, "
                         "the supplied value or nothing, as documented: a supplied leap_seconds always replaces the table value")
    L = T.sym("NUM_L")
    TABLE = "Epoch.Epoch.leap_seconds"
    yes, no = ("bool", True), ("bool", False)
    variants = [({}, "none"), ({"utc": yes}, "table"), ({"utc": no}, "none"), ({"leap_seconds": L}, "override"),
                ({"utc": yes, "leap_seconds": L}, "override"), ({"utc": no, "leap_seconds": L}, "override"),
                ({"leap_seconds": L, "local": no}, "override")]

    def decide(c):
        if c[0] == "cmp" and c[2] == L and c[3] == T.ZERO:
            return {"Eq": False, "NotEq": True}.get(c[1])
        return None

    def classify(t):
        t = assume(t, decide)
        tab = bool(find_calls(t, TABLE))
        ovr = any(x == L for x in T.walk(t))
        return "mixed" if tab and ovr else "table" if tab else "override" if ovr else "none"

    fn = repo.mod("Epoch").functions["Epoch._compute_jde"]
    names = [a.arg for a in fn.args.args]
    defaults = {}
    for n, d in zip(names[len(names) - len(fn.args.defaults):], fn.args.defaults):
        try:
            v = ast.literal_eval(d)
        except ValueError:
            continue
        defaults[n] = ("bool", v) if isinstance(v, bool) else T.num(Fraction(str(v)))
    n_inst = 0
    y, m, d = T.sym("NUM_y"), T.sym("NUM_m"), T.sym("NUM_d")
    for kws, want in variants:
        label = "{" + ", ".join("%s=%s" % (k, "L" if v == L else v[1]) for k, v in sorted(kws.items())) + "}"
        # ---- construction
        site = "Epoch.Epoch.set"
        got = set()
        for o in outcomes(repo, "Epoch", "Epoch.set", arg_terms={"args": ("tuple", y, m, d), "kwargs": _kwd(**kws)}):
            if o.kind == "raise":
                continue
            v = o.env.get("self._jde")
            calls = find_calls(v, "Epoch.Epoch._compute_jde") if v is not None else []
            if not calls:
                got.add("?")
            for c in calls:
                at = dict(defaults)
                pos = [x for x in c[2:] if not (x[0] == "kw")]
                for n, x in zip(names, pos):
                    at[n] = x
                at.update({"y": y, "m": m, "d": d})
                unknown = False
                for x in c[2:]:
                    if x[0] == "kw":
                        if x[1] == "**":
                            unknown = True
                        else:
                            at[x[1]] = x[2]
                if unknown:
                    got.add("?")
                    continue
                got.add(classify(ret_term(repo, "Epoch", "Epoch._compute_jde", arg_terms=at)))
        n_inst += 1
        if got == {want}:
            rep.ok("R-KWPATH", site + ":" + label, "construction with %s applies: %s" % (label, want))
        elif "?" in got:
            rep.inconcl("R-KWPATH", site, "construction with %s: the call of _compute_jde was not resolved" % label)
        else:
            rep.violation("R-KWPATH", site, "kw:%s:%s" % (label, "/".join(sorted(got))),
                          "Epoch(y, m, d, %s) applies the %s correction, the documented behaviour is %s%s"
                          % (label.strip("{}"), "/".join(sorted(got)), want,
                             " (an explicit leap_seconds value must replace the table value)" if want == "override" else ""))
        # ---- read-back
        site = "Epoch.Epoch.get_date"
        t = ret_term(repo, "Epoch", "Epoch.get_date", arg_terms={"self": ("epoch", T.sym("J")), "kwargs": _kwd(**kws)})
        g = classify(t)
        n_inst += 1
        if g == want:
            rep.ok("R-KWPATH", site + ":" + label, "read-back with %s applies: %s" % (label, want))
        else:
            rep.violation("R-KWPATH", site, "kw:%s:%s" % (label, g),
                          "get_date(%s) applies the %s correction, the documented behaviour is %s" % (label.strip("{}"), g, want))
    rep.floor("keyword combinations evaluated (construction + read-back)", n_inst, 14)


def d4_deltat(repo, rep, tier):
    rep.rule("R-POLY", "polynomial extracted from the source evaluated exactly on its domain")
    rep.fn("Epoch", "Epoch.tt2ut")
    fn = repo.func("Epoch", "Epoch.tt2ut")
    names = [a.arg for a in fn.args.args]
    t = ret_term(repo, "Epoch", "Epoch.tt2ut", arg_terms={names[0]: T.sym("year"), names[1]: T.sym("month")})
    # each leaf of the decision tree holds on a union of year intervals, computed by interval-set arithmetic on its path
    # condition (and = intersection, or = union, not = complement; comparisons `year op literal` are half-lines)
    INF = float(10 ** 9)

    def inter(a, b):
        out = []
        for l1, h1 in a:
            for l2, h2 in b:
                lo_, hi_ = max(l1, l2), min(h1, h2)
                if lo_ < hi_:
                    out.append((lo_, hi_))
        return sorted(out)

    def union(a, b):
        out = []
        for l_, h_ in sorted(a + b):
            if out and l_ <= out[-1][1]:
                out[-1] = (out[-1][0], max(out[-1][1], h_))
            else:
                out.append((l_, h_))
        return out

    def compl(a):
        out, cur = [], -INF
        for l_, h_ in sorted(a):
            if cur < l_:
                out.append((cur, l_))
            cur = max(cur, h_)
        if cur < INF:
            out.append((cur, INF))
        return out

    def yset(c):
        h = c[0]
        if h == "bool":
            return [(-INF, INF)] if c[1] else []
        if h == "not":
            inner = c[1]
            if inner[0] == "cmp" and T.sym("year") not in (inner[2], inner[3]):
                return [(-INF, INF)]
            return compl(yset(inner))
        if h == "and":
            r = [(-INF, INF)]
            for x in c[1:]:
                r = inter(r, yset(x))
            return r
        if h == "or":
            r = []
            for x in c[1:]:
                r = union(r, yset(x))
            return r
        if h == "cmp":
            cj = c
            if cj[3] == T.sym("year") and cj[2][0] == "num":
                cj = ("cmp", {"Lt": "Gt", "LtE": "GtE", "Gt": "Lt", "GtE": "LtE"}.get(cj[1], cj[1]), cj[3], cj[2])
            if cj[2] == T.sym("year") and cj[3][0] == "num":
                v = float(cj[3][1])
                if cj[1] in ("Lt", "LtE"):
                    return [(-INF, v)]
                if cj[1] in ("GtE", "Gt"):
                    return [(v, INF)]
        return [(-INF, INF)]
    segs = []
    for conds, leaf in phi_leaves(t):
        for lo, hi in yset(T.land(*conds) if conds else ("bool", True)):
            segs.append((lo, hi, leaf))
    segs.sort(key=lambda s_: (s_[0], s_[1]))
    rep.floor("Delta-T segments", len(segs), 14)

    def val(seg, year, ycont):
        month = (ycont - year) * 12.0 + 0.5
        return eval_numeric(seg[2], {"year": year, "month": month})
    # joints
    nj = 0
    for a, b in zip(segs, segs[1:]):
        if a[1] != b[0]:
            rep.violation("R-POLY", "Epoch.Epoch.tt2ut", "gap:%s" % a[1], "segments do not tile the year axis at %s / %s" % (a[1], b[0]), obligation=True)
            continue
        Yj = a[1]
        if Yj <= -500:
            continue
        nj += 1
        # both one-sided limits in the code's own variables: the left segment is entered with the integer year Yj - 1
        # (month running up to 12.5), the right one with year Yj; and the observable step December(Yj - 1) -> January(Yj)
        jump = max(abs(val(b, Yj, Yj) - val(a, Yj - 1, Yj)),
                   abs(eval_numeric(b[2], {"year": float(Yj), "month": 1.0}) - eval_numeric(a[2], {"year": float(Yj - 1), "month": 12.0})))
        site = "Epoch.Epoch.tt2ut@%d" % Yj
        if jump < 1.0:
            rep.ok("R-POLY", site, "jump %.3f s < 1 s" % jump, obligation=True, sample=(nj <= 2))
        else:
            rep.violation("R-POLY", site, "joint", "Delta-T jumps by %.3f s at the segment joint of year %d (>= 1 s)" % (jump, Yj), obligation=True)
    rep.floor("Delta-T joints after -500", nj, 12)
    # band 1972..2018
    worst = 0.0
    worst_at = None
    counts = dict(IERS)
    for year in range(1972, 2019):
        for month in range(1, 13):
            seg = [s for s in segs if s[0] <= year < s[1]]
            if len(seg) != 1:
                raise AnalysisError("Delta-T segments do not cover %d" % year)
            dt = eval_numeric(seg[0][2], {"year": float(year), "month": float(month)})
            tm = year + (month - 1) / 12.0
            n = max([c for k, c in IERS if k <= tm + 1e-9] or [0])
            dev = abs(dt - (42.184 + n))
            if dev > worst:
                worst, worst_at = dev, (year, month)
    if worst <= 3.5:
        rep.ok("R-POLY", "Epoch.Epoch.tt2ut:1972-2018", "max |Delta-T - (42.184 + leap seconds)| = %.2f s at %s <= 3.5 s (564 months)" % (worst, worst_at), obligation=True)
    else:
        rep.violation("R-POLY", "Epoch.Epoch.tt2ut", "band", "Delta-T deviates %.2f s from 42.184 + leap seconds at %s (> 3.5 s)" % (worst, worst_at), obligation=True)
