"""C15 Moon position is physical; lunar event finders agree with it.

Decided: D1 every copy of the fundamental arguments (L', D, M, M', F, E) inside
Moon.py is the same polynomial; D2 the selection constants of the four event finders
(8 finder/target variants beyond the offsets) are tied to the fundamental polynomials
of the position theory: mean period = 360 deg / rate of the defining argument, every
argument polynomial of a finder has linear coefficient = fundamental rate x period and
constant = fundamental polynomial at the reference JDE, lunations-per-year and
per-century constants agree with the period, string dispatch is exhaustive; D3
parallax == asin(6378.14/distance) and illuminated fraction == (1 + cos i)/2;
D4 the fractional-year helper used by the finders stays in the calendar in force
(R-DATETIME-JULIAN, shared with C16)."""
import math
from fractions import Fraction

from .. import symx, terms as T, absint
from ..frontend import AnalysisError
from ..rules import (ret_term, find_calls, outcomes, pure_polys, all_value_terms, radians_of_angle, timearg_scan, D2R)
from .. import units, guards, effects
from .c16 import datetime_julian, yearlen_sites

MANIFEST = {
    "level": "other",
    "technique": "static analysis: polynomial extraction from symbolically evaluated function bodies (partial evaluation per literal target), equality of polynomial copies, audit of finder constants (constant, rate and secular k^2 term of every argument) against the fundamental-argument polynomials with three-valued tolerances, structural identities for parallax and illuminated fraction, exhaustive-dispatch rule, exact decision table of the fractional-year denominator against the day number of 31 December on every class of year, unit inference; the Angle / Epoch operator semantics the evaluator assumes are verified (operator conformance, operands never written); rule on string parameters (no raw comparison next to a case-normalised one)",
    "text": "The finders' spacing and phase bookkeeping (period, reference epoch, argument rates and constants, year-to-lunation conversion) are decided against the library's own lunar theory for all queries at once; copies of the fundamental arguments are shown identical; the fractional year feeding each lunation count divides by at least the length of its year on every class of year (so it cannot run backwards at New Year); the parallax and illuminated-fraction formulas are shown to be the stated closed forms. Physical bounds on distance/latitude/rates and the agreement of the finders' periodic correction series with the position theory depend on hundreds of runtime series terms and are not decided.",
    "note": "Trusted: coarse physical windows (+-0.1 %) that label the fundamental arguments D, M, M', F, L', Omega by their rates; the property's tolerances (0.06 deg, 0.25 d, 0.02 deg). Undecided: distance/latitude/rate bounds, finder-vs-theory agreement of the corr series, spacing within natural variation, the southern-declination constant 1.13951 (impact 1e-4 d, proved harmless).",
}
MOD = "Moon"
FINDERS = {
    "moon_phase": (["new", "first", "full", "last"], "D", 0.005),
    "moon_perigee_apogee": (["perigee", "apogee"], "Mp", 0.25),
    "moon_passage_nodes": (["ascending", "descending"], "F", 0.017),
    "moon_maximum_declination": (["northern", "southern"], "Lp", 0.25),
}
# physical windows that label the fundamental arguments (degrees per Julian century)
WINDOWS = {"D": 445267.0, "M": 35999.0, "Mp": 477199.0, "F": 483202.0, "Lp": 481268.0, "Om": -1934.1}
KMAX_YEARS = 4000.0


LINEAR = {}


def fundamental(repo, rep):
    """fundamental argument polynomials in T (Julian centuries from J2000) found in Moon.py, grouped by role"""
    m = repo.mod(MOD)
    E_T = ("epoch", T.add(T.num(2451545), T.mul(T.num(36525), T.sym("TT"))))
    per_func = {}
    LINEAR.clear()
    for q, fn in m.functions.items():
        if m.is_demo(q) or "<locals>" in q:
            continue
        names = [a.arg for a in fn.args.args]
        if not names or names[0] != "epoch":
            continue
        outs = outcomes(repo, MOD, q, arg_terms={names[0]: E_T})
        allps = set(pure_polys(all_value_terms(outs), "TT", min_degree=1))
        ps = {p for p in allps if len(p) > 2}
        lin = {p for p in allps if len(p) == 2}
        if lin:
            LINEAR[q] = lin
        if ps:
            per_func[q] = ps
            rep.fn(MOD, q)
    roles = {}
    for q, ps in per_func.items():
        for p in ps:
            rate = float(p[1])
            for role, w in WINDOWS.items():
                if abs(rate - w) <= abs(w) * 1e-3:
                    roles.setdefault(role, {}).setdefault(p, []).append(q)
    return roles, per_func


def polyval(p, x):
    r = 0.0
    for c in reversed(p):
        r = r * x + float(c)
    return r


def verdict(rep, rule, site, key, err, tol, what, lower=None):
    """err: upper bound of the induced time error; lower: a lower bound (defaults to err
    for effects that are exact drifts).  PROVED / REFUTED / INCONCLUSIVE."""
    lo = err if lower is None else lower
    if err <= tol / 5.0:
        rep.ok(rule, site, "%s: induced error <= %.2g d (<= %.3g d): PROVED" % (what, err, tol / 5.0), obligation=True,
               sample=("new" in site or "perigee" in site) and key in ("period", "epoch"))
    elif lo >= tol:
        rep.violation(rule, site, key, "%s: induced error >= %.3g d, the property allows %.3g d: REFUTED" % (what, lo, tol), obligation=True)
    else:
        rep.inconcl(rule, site, "%s: induced error between %.3g and %.3g d (prove <= %.3g, refute >= %.3g)" % (what, lo, err, tol / 5.0, tol))


def run(repo, rep, tier):
    rep.decided = ["D1 copies of the fundamental arguments identical", "D2 finder constants tied to the fundamental polynomials; exhaustive dispatch",
                   "D3 parallax and illuminated-fraction closed forms", "D4 fractional-year helper stays in the calendar in force"]
    rep.undecided = ["distance / latitude / rate bounds", "agreement of the finders' correction series with the position theory",
                     "spacing within natural variation"]
    rep.assumptions = ["physical windows (0.1 %) label the fundamental arguments"]
    rep.rule("R-POLY", "polynomial copies are identical; finder polynomials agree with the fundamental polynomials")
    roles, per_func = fundamental(repo, rep)
    ref = {}
    ncopies = 0
    for role in ("D", "M", "Mp", "F", "Lp", "Om"):
        variants = roles.get(role, {})
        if not variants:
            raise AnalysisError("fundamental argument %s not found in Moon.py" % role)
        # reference = the variant used by geocentric_ecliptical_pos when present, else the most used
        # reference = the majority variant (ties: the one used by geocentric_ecliptical_pos)
        best = max(variants, key=lambda p: (len(variants[p]), "Moon.geocentric_ecliptical_pos" in variants[p]))
        ref[role] = best
        ncopies += sum(len(fs) for fs in variants.values())
        if len(variants) == 1:
            rep.ok("R-POLY", "Moon:%s" % role, "%d copies of the %s polynomial are identical (rate %.7f deg/cy) in %s"
                   % (len(variants[best]), role, float(best[1]), ", ".join(sorted(f.split(".")[-1] for f in variants[best]))), obligation=True)
        else:
            for p, fs in variants.items():
                if p != best:
                    for f in fs:
                        rep.violation("R-POLY", "Moon.%s" % f, "copy-differs:" + role,
                                      "its copy of the fundamental argument %s differs from the other copies in Moon.py: %s vs %s"
                                      % (role, [float(x) for x in p], [float(x) for x in best]), obligation=True)
    rep.floor("copies of fundamental argument polynomials", ncopies, 8)
    # a copy cut down to its linear part (same constant and rate as the reference, higher powers of T dropped) drifts
    # quadratically away from the others: degrees at the ends of -2000..4000
    for q, lin in sorted(LINEAR.items()):
        for p in lin:
            for role, best in ref.items():
                if abs(float(p[1] - best[1])) <= abs(float(best[1])) * 1e-9 and abs((float(p[0] - best[0]) + 180.0) % 360.0 - 180.0) <= 1e-4 \
                        and any(c != 0 for c in best[2:]):
                    drift = abs(float(best[2])) * 40.0 ** 2
                    rep.violation("R-POLY", "Moon.%s" % q, "copy-truncated:" + role,
                                  "its copy of the fundamental argument %s keeps only %.7f + %.7f T; the other copies carry %s T^2 ...: %.2g deg apart at the ends of -2000..4000"
                                  % (role, float(p[0]), float(p[1]), float(best[2]), drift), obligation=True)
    # E (eccentricity factor) copies: polynomials with c0 == 1 and tiny rate
    ecopies = {}
    for q, ps in per_func.items():
        for p in ps:
            if p[0] == 1 and abs(float(p[1])) < 0.01 and len(p) == 3:
                ecopies.setdefault(p, []).append(q)
    if len(ecopies) > 1:
        rep.violation("R-POLY", "Moon:E", "copy-differs:E", "copies of the eccentricity factor E differ: %s" % {str([float(x) for x in p]): fs for p, fs in ecopies.items()}, obligation=True)
    elif ecopies:
        rep.ok("R-POLY", "Moon:E", "%d copies of E = 1 - 0.002516 T - 0.0000074 T^2 identical" % sum(len(v) for v in ecopies.values()), obligation=True)
    finders(repo, rep, ref)
    closed_forms(repo, rep)
    datetime_julian(repo, rep)
    an = absint.analysis_for(repo)
    bad = {e.site for e in an.events_for("undef") if e.site.startswith("Moon.")}
    for e in an.events_for("undef"):
        if e.site.startswith("Moon."):
            rep.violation("R-ENUM", e.site, e.key, e.msg)
    for q in FINDERS:
        if "Moon.Moon." + q not in bad:
            rep.ok("R-ENUM", "Moon.Moon." + q, "string dispatch exhaustive for the validated set")
    # every target string the validation admits must take the branch it names (no raw comparison next to a case-normalised one)
    from .c20 import r_enum_norm, r_wrap_idiom
    r_wrap_idiom(repo, rep, mods={MOD})
    r_enum_norm(repo, rep, funcs={(MOD, f_) for f_ in repo.mod(MOD).functions})
    fam = [(MOD, q) for q in repo.mod(MOD).functions if not repo.mod(MOD).is_demo(q) and "<locals>" not in q]
    timearg_scan(repo, rep, fam)
    units.check_functions(repo, rep, fam)
    guards.check_functions(repo, rep, fam)
    effects.check_functions(repo, rep, fam)
    # premise of the evaluator: Angle / Epoch operators mean what their names say and leave their operands alone
    from ..premises import operator_semantics
    operator_semantics(repo, rep)
    return "other"


def finder_polys(repo, q, tg):
    fn = repo.func(MOD, "Moon." + q)
    names = [a.arg for a in fn.args.args]
    outs = outcomes(repo, MOD, "Moon." + q, arg_terms={names[0]: ("epoch", T.sym("E")), names[1]: ("str", tg)})
    if not any(o.kind == "ret" for o in outs):
        raise AnalysisError("Moon.%s(target=%r) has no returning path" % (q, tg))
    bag = all_value_terms(outs)
    rounds = set(find_calls(bag, "round"))
    if len(rounds) != 1:
        return None, "expected one lunation count k = round(...), found %d" % len(rounds), None
    rc = rounds.pop()
    Ks = [x for x in T.walk(bag) if x[0] == "add" and len(x) == 3 and rc in x[1:] and any(y[0] == "num" for y in x[1:])]
    off = Fraction(0)
    if Ks:
        K = Ks[0]
        off = [y for y in K[1:] if y[0] == "num"][0][1]
        bag = T.subst(bag, {K: T.sym("K")})
    bag = T.subst(bag, {rc: T.sym("K")})
    ps = sorted(set(pure_polys(bag, "K", min_degree=1)), key=lambda p: -abs(p[0]))
    return ps, rc, off


def finders(repo, rep, ref):
    rep.rule("R-TABLE-REL", "finder constant vs value derived from the fundamental polynomials; tolerance = induced time error vs the property's tolerance")
    OFFSETS = {"new": 0, "first": Fraction(1, 4), "full": Fraction(1, 2), "last": Fraction(3, 4), "perigee": 0, "apogee": Fraction(1, 2),
               "ascending": 0, "descending": Fraction(1, 2), "northern": 0, "southern": 0}
    nvar = 0
    yl_sites = [0]
    for q, (targets, defarg, tol) in FINDERS.items():
        rep.fn(MOD, "Moon." + q)
        P_ref = 360.0 * 36525.0 / float(ref[defarg][1])
        kmax = KMAX_YEARS * 365.25 / P_ref
        for tg in targets:
            site = "Moon.Moon.%s[%s]" % (q, tg)
            ps, rc, off = finder_polys(repo, q, tg)
            if ps is None:
                rep.violation("R-SIB", site, "k-skeleton", rc)
                continue
            nvar += 1
            if off != OFFSETS[tg]:
                rep.violation("R-TABLE-REL", site, "offset", "lunation offset for target %r is %s, expected %s" % (tg, off, OFFSETS[tg]), obligation=True)
            else:
                rep.ok("R-TABLE-REL", site + ":offset", "k offset %s for %r" % (off, tg), obligation=True, sample=False)
            jd = [p for p in ps if float(p[0]) > 2.0e6]
            if len(jd) != 1:
                rep.violation("R-SIB", site, "jde-poly", "mean-event polynomial J0 + P*k + ... not found (candidates %d)" % len(jd))
                continue
            J0, P = float(jd[0][0]), float(jd[0][1])
            verdict(rep, "R-TABLE-REL", site + ":P", "period", kmax * abs(P - P_ref), tol,
                    "period %.9f vs 360/rate(%s) = %.9f (x %d lunations)" % (P, defarg, P_ref, kmax))
            T0 = (J0 - 2451545.0) / 36525.0
            # k = round(c * (year - y0), 0)
            X = rc[2]
            if tg == targets[0]:
                # fractional year feeding the lunation count: must not run backwards at New Year (R-YEARLEN, shared with C13/C16)
                gd_ = [x for x in T.walk(X) if x[0] == "call" and x[1] == "Epoch.Epoch.get_date"]
                nsites = yearlen_sites(repo, rep, MOD, "Moon." + q, X, ("idx", gd_[0], T.num(0))) if gd_ else 0
                yl_sites[0] += nsites
                if not nsites:
                    rep.inconcl("R-YEARLEN", "Moon.Moon." + q, "no fractional year of the form Y + get_doy(Y, M, D)/N found in the lunation count")
            c, rest = T.split_coeff(X)
            y0 = None
            if rest[0] == "add":
                nums = [s for s in rest[1:] if s[0] == "num"]
                if len(nums) == 1:
                    y0 = -float(nums[0][1])
            if y0 is None:
                rep.violation("R-SIB", site, "k-form", "k is not round(c * (year - y0)): " + T.show(X)[:100])
            else:
                y_of_J0 = 2000.0 + (J0 - 2451545.0) / 365.25
                kerr = abs(float(c) - 365.25 / P_ref) * KMAX_YEARS + abs(y0 - y_of_J0) * float(c)
                if kerr <= 0.5:
                    rep.ok("R-TABLE-REL", site + ":k", "k = round(%.4f*(year - %.2f)): count error <= %.2f over the domain (< 0.5: no event skipped)"
                           % (float(c), y0, kerr), obligation=True, sample=(tg in ("new", "perigee")))
                elif kerr >= 1.0:
                    rep.violation("R-TABLE-REL", site, "k-estimate", "lunation count estimate off by %.2f (>= 1) within the domain: an event is skipped or repeated "
                                  "(%.4f per year vs 365.25/P = %.4f; year origin %.2f vs %.2f)" % (kerr, float(c), 365.25 / P_ref, y0, y_of_J0), obligation=True)
                else:
                    rep.inconcl("R-TABLE-REL", site + ":k", "lunation count estimate error bound %.2f (between 0.5 and 1)" % kerr)
            # t = K / cc
            tps = [p for p in ps if len(p) == 2 and p[0] == 0 and abs(float(p[1]) * 36525.0 / P_ref - 1.0) < 0.02]
            if tps:
                rel = abs(float(tps[0][1]) * 36525.0 / P_ref - 1.0)
                if rel <= 1e-4:
                    rep.ok("R-TABLE-REL", site + ":t", "t = k/%.2f: centuries per lunation agree with the period (rel %.1e)" % (1 / float(tps[0][1]), rel), obligation=True, sample=False)
                else:
                    rep.violation("R-TABLE-REL", site, "t-scale", "t = k/%.2f disagrees with period/36525 by rel %.1e" % (1 / float(tps[0][1]), rel), obligation=True)
            # arguments
            matched = 0
            pterms = periodic_terms(repo, q, tg)
            for p in ps:
                if p is jd[0] or len(p) < 2 or abs(float(p[0])) > 1000:
                    continue
                c0, c1 = float(p[0]), float(p[1])
                if abs(c1) < 0.5:
                    continue          # t, E and slowly varying planetary arguments are not lunar arguments
                best = None
                for role, rp in ref.items():
                    exp1 = (float(rp[1]) * P_ref / 36525.0)
                    d = (c1 - exp1 + 180.0) % 360.0 - 180.0
                    if abs(d) < 0.01:
                        if best is None or abs(d) < abs(best[1]):
                            best = (role, d, rp)
                if best is None:
                    continue
                role, d1, rp = best
                matched += 1
                exp0 = polyval(rp, T0) % 360.0
                d0 = (c0 - exp0 + 180.0) % 360.0 - 180.0
                A, amax = amplitudes(pterms, p[0])
                for kind, dd, scale in (("rate", d1, kmax), ("const", d0, 1.0)):
                    rad = math.radians(abs(dd)) * scale
                    upper = A * rad
                    lower = max(0.0, 2 * amax - A) * min(rad, 1.0)
                    if kind == "rate":
                        what = "argument %s: step %.8f vs rate x period %.8f (d %.1e deg x %d lunations; sensitivity <= %.3f d/rad)" \
                            % (role, c1, (float(rp[1]) * P_ref / 36525.0) % 360.0, d1, kmax, A)
                    else:
                        what = "argument %s: constant %.4f vs fundamental polynomial at the reference JDE %.4f (d %.4f deg; sensitivity <= %.3f d/rad)" \
                            % (role, c0, exp0, d0, A)
                    verdict(rep, "R-TABLE-REL", site + ":%s.%s" % (role, kind), "arg-%s:%s" % (kind, role), upper, tol, what, lower=lower)
                # secular (quadratic) term: coefficient of k^2 must be the T^2 coefficient of the fundamental argument times
                # (centuries per lunation)^2; it matters at the ends of the domain, where k^2 reaches kmax^2
                s_ = P_ref / 36525.0
                r2 = float(rp[2]) if len(rp) > 2 else 0.0
                r3 = float(rp[3]) if len(rp) > 3 else 0.0
                # T(k) = (JDE_mean(k) - J2000)/36525 is itself quadratic in k (secular term of the mean event): its k^2 coefficient
                # times the argument's rate contributes as well
                j2 = float(jd[0][2]) if len(jd[0]) > 2 else 0.0
                exp2 = (r2 + 3.0 * r3 * T0) * s_ * s_ + float(rp[1]) * j2 / 36525.0
                c2 = float(p[2]) if len(p) > 2 else 0.0
                d2 = c2 - exp2
                rad2 = math.radians(abs(d2)) * kmax * kmax
                what2 = "argument %s: k^2 coefficient %.3e vs T^2 coefficient %.7f x (centuries per lunation)^2 + rate x k^2 term of the mean JDE = %.3e (d %.1e deg x %d^2 lunations; sensitivity <= %.3f d/rad)" \
                    % (role, c2, r2, exp2, d2, kmax, A)
                verdict(rep, "R-TABLE-REL", site + ":%s.quad" % role, "arg-quad:%s" % role, A * rad2, tol, what2,
                        lower=max(0.0, 2 * amax - A) * min(rad2, 1.0))
            # R-EFACTOR: a term whose argument contains n*M (Sun's mean anomaly) carries the factor E^|n|
            m_c0 = None
            for p in ps:
                if p is jd[0] or len(p) < 2:
                    continue
                expM = float(ref["M"][1]) * P_ref / 36525.0
                if abs(((float(p[1]) - expM + 180.0) % 360.0) - 180.0) < 0.01 and abs(float(p[1])) > 0.5:
                    m_c0 = p[0]
            if m_c0 is not None:
                worst = 0.0
                worst_t = None
                nterms = 0
                for coef, mults, epow in pterms:
                    nM = int(round(mults.get(m_c0, 0)))
                    if epow is None or (nM == 0 and epow == 0):
                        continue
                    nterms += 1
                    if epow != nM:
                        # |E^a - E^b| <= |a - b| * 0.1 over |T| <= 40 centuries
                        impact = coef * abs(epow - nM) * 0.1
                        if impact > worst:
                            worst, worst_t = impact, (coef, nM, epow)
                if worst_t is None:
                    rep.ok("R-EFACTOR", site, "%d terms containing the Sun's anomaly M carry E^|multiple of M|" % nterms, obligation=True, sample=(tg in ("new", "full")))
                else:
                    verdict(rep, "R-EFACTOR", site + ":E", "e-factor", worst, tol,
                            "term with coefficient %.5f d and %d*M in its argument carries E^%d instead of E^%d (eccentricity factor of the Earth's orbit)"
                            % (worst_t[0] / 1.1, worst_t[1], worst_t[2], worst_t[1]), lower=0.8 * worst)
            if matched < 3:
                rep.violation("R-SIB", site, "args", "fewer than 3 argument polynomials of the finder could be tied to fundamental arguments (%d)" % matched)
            # defining argument vanishes (mod 180 for half offsets) at J0 - only where the event is a zero of it
            if defarg in ("D", "Mp", "F"):
                v = polyval(ref[defarg], T0) % 360.0
                dv = (v + 180.0) % 360.0 - 180.0
                verdict(rep, "R-TABLE-REL", site + ":J0", "epoch", abs(dv) * P_ref / 360.0, max(tol, 0.02),
                        "defining argument %s at the reference JDE %.4f is %.4f deg (mean event needs 0)" % (defarg, J0, dv))
    rep.floor("finder/target variants", nvar, 10)


_PT_CACHE = {}


def periodic_terms(repo, q, tg):
    """[(|coefficient| in days, {c0 of an angle polynomial: |multiplier| in the argument})] for every
    coef * sin/cos(argument) term of the returned JDE"""
    key = (repo.digest(), q, tg)
    if key in _PT_CACHE:
        return _PT_CACHE[key]
    fn = repo.func(MOD, "Moon." + q)
    names = [a.arg for a in fn.args.args]
    t = ret_term(repo, MOD, "Moon." + q, arg_terms={names[0]: ("epoch", T.sym("E")), names[1]: ("str", tg)})
    R = t[1] if t[0] == "tuple" else t
    S = R[1] if R[0] == "epoch" else R
    out = []
    for x in (S[1:] if S[0] == "add" else (S,)):
        coef, rest = T.split_coeff(x)
        factors = rest[1:] if rest[0] == "mul" else (rest,)
        trig = [f for f in factors if f[0] == "call" and f[1] in ("sin", "cos")]
        if len(trig) != 1:
            continue
        arg = trig[0][2]
        mults = {}
        for summand in (arg[1:] if arg[0] == "add" else (arg,)):
            n, r2 = T.split_coeff(summand)
            for f in (r2[1:] if r2[0] == "mul" else (r2,)):
                if f[0] == "call" and f[1] == "pos":
                    inner = f[2]
                    if inner[0] == "call" and inner[1] == "red":
                        inner = inner[2]
                    consts = [y[1] for y in (inner[1:] if inner[0] == "add" else (inner,)) if y[0] == "num"]
                    if consts:
                        mults[consts[0]] = abs(float(n))
        # other factors (E, E*E, small polynomials in t) are bounded by ~1.1
        epow = 0
        amp = abs(float(coef))
        for f in factors:
            if f is trig[0]:
                continue
            base, e_ = (f[1], int(f[2][1])) if (f[0] == "pow" and f[2][0] == "num" and f[2][1].denominator == 1) else (f, 1)
            if is_efactor(base):
                epow += e_
            elif f[0] == "add":
                # explicit slowly varying coefficient (c0 + c1*t): the amplitude is |c0|; such a term has its own
                # time dependence and is outside the E-factor rule
                c0s = [x[1] for x in f[1:] if x[0] == "num"]
                amp *= abs(float(c0s[0])) if c0s else 1.0
                epow = None
        out.append((amp * 1.1, mults, epow))
    _PT_CACHE[key] = out
    return out


def is_efactor(t):
    """E = 1 - 0.002516 T - 0.0000074 T^2 expressed in the lunation count: a sum whose constant term is 1 and whose other
    coefficients are tiny"""
    if t[0] != "add":
        return False
    consts = [x for x in t[1:] if x[0] == "num"]
    if len(consts) != 1 or consts[0][1] != 1:
        return False
    for x in t[1:]:
        if x[0] == "num":
            continue
        c, _ = T.split_coeff(x)
        if abs(c) > 1e-3:
            return False
    return True


def amplitudes(pterms, c0):
    """(sum of |coef|*multiplier over the terms containing the angle, largest single |coef|*multiplier)"""
    A = amax = 0.0
    for coef, mults, _e in pterms:
        if c0 in mults:
            v = coef * mults[c0]
            A += v
            amax = max(amax, v)
    return A, amax


def closed_forms(repo, rep):
    rep.rule("R-E4-ID", "closed form stated by the property")
    q = "Moon.geocentric_ecliptical_pos"
    t = ret_term(repo, MOD, q, arg_terms={"epoch": ("epoch", T.sym("E"))})
    ok = False
    if t[0] == "tuple" and len(t) == 5:
        r = radians_of_angle(t[4])
        want = T.call("asin", T.div(T.num(Fraction("6378.14")), t[3]))
        ok = r == want
    if ok:
        rep.ok("R-E4-ID", "Moon." + q, "parallax == asin(6378.14 / distance) with the distance returned alongside", obligation=True)
    else:
        rep.violation("R-E4-ID", "Moon." + q, "parallax", "parallax is not asin(6378.14 km / distance) of the returned distance", obligation=True)
    q = "Moon.illuminated_fraction_disk"
    t = ret_term(repo, MOD, q, arg_terms={"epoch": ("epoch", T.sym("E"))})
    ok = False
    c, rest = T.split_coeff(t)
    if c == Fraction(1, 2) and rest[0] == "add":
        parts = [x for x in rest[1:] if x != T.ONE]
        if len(parts) == 1 and T.ONE in rest[1:] and parts[0][0] == "call" and parts[0][1] == "cos":
            arg = parts[0][2]
            ok = any(f == D2R for f in (arg[1:] if arg[0] == "mul" else ()))
    if ok:
        rep.ok("R-E4-ID", "Moon." + q, "k == (1 + cos i)/2 with i converted to radians", obligation=True)
    else:
        rep.violation("R-E4-ID", "Moon." + q, "fraction", "illuminated fraction is not (1 + cos i)/2: " + T.show(t)[:120], obligation=True)
