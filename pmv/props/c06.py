"""C06 precession is a rigid rotation, consistent across routes.

Decided: D1 unit norm of the rotated vector (3 routines); D2 a zero interval is the
identity map (3 routines, by substituting final := start in the symbolic result);
D3 every branch hands radians to Angle(.., radians=True) (R-UNITS); D4 the FK4 and
FK5 routines both have the textbook rotation form Rz*Ry(theta)*Rz(zeta) and the
ecliptical polynomials (eta, Pi, p) are identical copies in precession_ecliptical
and orbital_equinox2equinox; D5 inputs are not mutated (R-EFFECT).
"""
from fractions import Fraction

from .. import symx, terms as T
from ..frontend import AnalysisError
from ..poly import Algebra, Poly, Rat
from ..rules import ret_term, find_calls, outcomes, D2R
from .. import units, guards, effects
from .c05 import split_lon, flatten_base

MANIFEST = {
    "level": "other",
    "technique": "static analysis: symbolic evaluation + polynomial normal form (unit norm, identity at zero interval, textbook rotation form), polynomial-copy comparison, the mean-obliquity polynomial against its reference over +-5 centuries, unit inference (deg/rad/ratio), effect analysis; the Angle / Epoch operator semantics the evaluator assumes are verified (operator conformance, operands never written)",
    "text": "From the source alone and for all inputs at once: the precessed direction has unit norm, a zero interval returns the input direction, both equatorial routines are the same rotation form, the ecliptical angle polynomials are identical in the two functions that carry copies, every branch feeds radians to the Angle constructor, and no input object is written. Round-trip tolerances (1e-9 / 1e-6 / 1e-4) are floating-point facts and are not decided.",
    "note": "Trusted: term/polynomial engine, Angle/Epoch semantics read from their classes. Undecided: there-and-back tolerances, agreement of the two routes to 1e-4, FK4 vs FK5 distance, proper-motion linearity, orbital-element round trip values.",
}
MOD = "Coordinates"
ROUTINES = ["precession_equatorial", "precession_newcomb", "precession_ecliptical"]


def eval_prec(repo, q, same_epoch=False):
    fn = repo.func(MOD, q)
    names = [a.arg for a in fn.args.args]
    canon = {names[0]: ("epoch", T.sym("E0")), names[1]: ("epoch", T.sym("E0" if same_epoch else "E1")),
             names[2]: ("angle", T.sym("LON")), names[3]: ("angle", T.sym("LAT")),
             names[4]: ("angle", T.sym("PMLON")), names[5]: ("angle", T.sym("PMLAT"))}
    t = ret_term(repo, MOD, q, arg_terms=canon)
    if t[0] != "tuple" or len(t) != 3:
        raise AnalysisError("%s: result is not a pair" % q)
    return t


def vector_parts(q, t):
    sl = split_lon(t[1])
    if sl is None:
        raise AnalysisError("%s: longitude is not of the form const + s*atan2(a, b)" % q)
    sigma, R, a2 = sl
    asn = find_calls(t[2], "asin")
    if not asn:
        raise AnalysisError("%s: latitude has no asin(c) branch" % q)
    return sigma, R, a2[2], a2[3], asn[0][2]


def run(repo, rep, tier):
    rep.decided = ["D1 unit norm of (a,b,c)", "D2 zero interval is the identity", "D3 radians on every branch (R-UNITS)",
                   "D4 FK4/FK5 share the textbook rotation form; ecliptical polynomials are identical copies",
                   "D5 inputs not mutated (R-EFFECT)"]
    rep.undecided = ["there-and-back to 1e-9/1e-6", "two-route agreement 1e-4", "FK4-FK5 within 0.005 deg",
                     "orbital element round trip", "linearity of proper motion"]
    rep.assumptions = ["exact real arithmetic", "Angle/Epoch operator semantics as in their class bodies"]
    rep.rule("R-E4-ID", "algebraic identity discharged by polynomial normal form")
    for q in ROUTINES:
        rep.fn(MOD, q)
        site = MOD + "." + q
        t = eval_prec(repo, q)
        try:
            sigma, R, a, b, c = vector_parts(q, t)
        except AnalysisError as e:
            rep.violation("R-E4-ID", site, "shape", str(e), obligation=True)
            continue
        alg = Algebra(atomize=True)
        lhs = T.add(T.mul(a, a), T.mul(b, b), T.mul(c, c))
        if alg.equal(lhs, T.ONE):
            rep.ok("R-E4-ID", site, "a^2+b^2+c^2 == 1 (rigid rotation of the direction) discharged", obligation=True)
        else:
            rep.violation("R-E4-ID", site, "unit-norm", "a^2+b^2+c^2 != 1: the precessed direction is not a unit vector", obligation=True)
        # D2 zero interval
        t0 = eval_prec(repo, q, same_epoch=True)
        try:
            s0, R0, a0, b0, c0 = vector_parts(q, t0)
        except AnalysisError as e:
            rep.violation("R-E4-ID", site, "zero-shape", str(e), obligation=True)
            continue
        alg0 = Algebra()
        lon_in = T.mul(T.sym("LON"), D2R)
        lat_in = T.mul(T.sym("LAT"), D2R)
        # out = R0/d2r... R0 is in degrees (offset of the Angle value); convert to radians
        Rrad = T.mul(R0, D2R)
        ang = T.mul(T.num(s0), T.sub(lon_in, Rrad))
        k = T.call("cos", lat_in)
        ok = (alg0.equal(a0, T.mul(k, T.call("sin", ang))) and alg0.equal(b0, T.mul(k, T.call("cos", ang)))
              and alg0.equal(c0, T.call("sin", lat_in)))
        if ok:
            rep.ok("R-E4-ID", site, "with final_epoch == start_epoch the result is the input direction (angles vanish at zero interval)", obligation=True)
        else:
            rep.violation("R-E4-ID", site, "zero-interval",
                          "with final_epoch == start_epoch the routine does not return the input direction "
                          "(a precession angle has a non-zero constant term): a=%s" % T.show(a0)[:160], obligation=True)
    # D3b near-pole branch: acos(sqrt(a^2+b^2)) is |declination|; it may replace asin(c) only where the guard implies a positive declination
    for q in ("precession_equatorial", "precession_newcomb"):
        site = MOD + "." + q
        t = eval_prec(repo, q)
        lat = t[2]
        has = lambda t_, fn_: any(y[0] == "call" and y[1] == fn_ for y in T.walk(t_))
        phis = []
        for x in T.walk(lat):
            if x[0] == "phi" and has(x[2], "acos") and has(x[3], "asin") and not has(x[3], "acos"):
                phis.append((x[1], x))
            elif x[0] == "phi" and has(x[3], "acos") and has(x[2], "asin") and not has(x[2], "acos"):
                # the same selection written the other way round: acos is taken when the test fails
                c_ = x[1]
                compl = {"Lt": "GtE", "LtE": "Gt", "Gt": "LtE", "GtE": "Lt"}
                phis.append(((("cmp", compl[c_[1]], c_[2], c_[3]) if (c_[0] == "cmp" and c_[1] in compl) else ("not", c_)), x))
        if not phis:
            # no acos shortcut at all is fine (asin(c) everywhere)
            if any(y[0] == "call" and y[1] == "acos" for y in T.walk(lat)):
                rep.inconcl("R-SIGN", site, "the near-pole branch is not recognised as a selection between acos(.) and asin(c) on a declination test")
            else:
                rep.ok("R-SIGN", site, "declination always from asin(c)")
            continue
        for c, ph in phis:
            if c[0] == "not":
                rep.inconcl("R-SIGN", site, "the test selecting the acos branch is not a plain comparison: " + T.show(c)[:80])
                continue
            ok = c[0] == "cmp" and c[1] in ("Gt", "GtE") and c[3][0] == "num" and c[3][1] >= 0 \
                and any(y == T.sym("LAT") for y in T.walk(c[2])) and not any(y[0] == "call" and y[1] == "abs" for y in T.walk(c[2]))
            if ok:
                rep.ok("R-SIGN", site, "acos(sqrt(a^2+b^2)) (= |dec|, never negative) is used only under `dec > %s`, where the declination is positive" % T.show(c[3]))
            else:
                rep.violation("R-SIGN", site, "pole-branch-sign",
                              "the near-pole shortcut acos(sqrt(a*a+b*b)) can only return a non-negative declination, but its guard `%s` also admits "
                              "southern declinations: a star near the south pole comes out with the sign of its declination flipped" % T.show(c)[:80])
    # D4a rotation form of the two equatorial routines
    for q in ("precession_equatorial", "precession_newcomb"):
        site = MOD + "." + q
        t = eval_prec(repo, q)
        try:
            sigma, R, a, b, c = vector_parts(q, t)
        except AnalysisError:
            continue
        res = rotation_form(a, b, c)
        if res is True:
            rep.ok("R-SIB", site, "(a,b,c) == Ry(theta)*Rz(zeta) applied to the start direction (Meeus 21.4 form)", obligation=True)
        else:
            rep.violation("R-SIB", site, "rotation-form", "rotation block differs from the common FK4/FK5 form: " + res, obligation=True)
    # D4b polynomial copies
    sets = {}
    for q in ("precession_ecliptical", "orbital_equinox2equinox"):
        rep.fn(MOD, q)
        sets[q] = time_polys(repo, q)
    ref, cp = sets["precession_ecliptical"], sets["orbital_equinox2equinox"]
    rep.floor("ecliptical precession polynomials found", min(len(ref), len(cp)), 3)
    if set(ref) == set(cp):
        rep.ok("R-POLY", MOD + ".orbital_equinox2equinox", "%d angle polynomials (eta, Pi, p) identical to those of precession_ecliptical" % len(ref), obligation=True)
    else:
        miss = [ref[k] for k in set(ref) - set(cp)]
        rep.violation("R-POLY", MOD + ".orbital_equinox2equinox", "poly-copy",
                      "precession polynomial(s) differ between precession_ecliptical and orbital_equinox2equinox: %s" % "; ".join(miss)[:300], obligation=True)
    # D4c the obliquity through which the ecliptical route is compared: a plain polynomial in T (no sign trap of a
    # sexagesimal constructor), within 0.36 arcsec (1e-4 deg, the route tolerance) of the IAU cubic over +-5 centuries
    from .c08 import obliquity
    obliquity(repo, rep, span=5, tol=0.36, only_poly=True)
    fam = [(MOD, q) for q in ROUTINES + ["orbital_equinox2equinox", "p_motion_equa2eclip", "motion_in_space", "mean_obliquity"]]
    units.check_functions(repo, rep, fam)
    units.check_optypes(repo, rep, fam)
    guards.check_functions(repo, rep, fam)
    effects.check_functions(repo, rep, fam)
    # premise of the evaluator: Angle / Epoch operators mean what their names say and leave their operands alone
    from ..premises import operator_semantics
    operator_semantics(repo, rep)
    return "other"


def rotation_form(a, b, c):
    alg = Algebra(atomize=True)
    ra, rb, rc = alg.rat(a), alg.rat(b), alg.rat(c)

    def bases(r):
        out = set()
        for at in r.n.atoms():
            if at[0] in ("S", "C"):
                out.add(at[1])
        return out

    def kind(base):
        vs = {v[1] for v in flatten_base(base)}
        names = set()
        for v in vs:
            if v.startswith("TH"):
                term = alg.theta_rev[v]
                names |= {x[1] for x in T.walk(term) if x[0] == "sym"}
            else:
                names.add(v)
        if names & {"LON", "PMLON"}:
            return "lon"
        if names & {"LAT", "PMLAT"}:
            return "lat"
        return "epoch"
    ba, bb = bases(ra), bases(rb)
    zeta = [x for x in ba if kind(x) == "epoch"]
    theta = [x for x in bb - ba if kind(x) == "epoch"]
    lon = [x for x in ba if kind(x) == "lon"]
    lat = [x for x in ba if kind(x) == "lat"]
    if len(zeta) != 1 or len(theta) != 1 or not lon or not lat:
        return "cannot identify zeta/theta (epoch-only angles: in a %d, only in b %d)" % (len(zeta), len(theta))
    sA, cA = alg.sincos_sum([(1, x) for x in sorted(lon, key=repr)] + [(1, zeta[0])])
    sD, cD = alg.sincos_sum([(1, x) for x in sorted(lat, key=repr)])
    sT, cT = alg.sincos_sum([(1, theta[0])])
    ea = cD * sA
    eb = cT * cD * cA - sT * sD
    ec = sT * cD * cA + cT * sD
    for name, got, exp in (("a", ra, ea), ("b", rb, eb), ("c", rc, ec)):
        if not alg.reduce(got.n * exp.d - exp.n * got.d).is_zero():
            return "component %s is not the textbook expression" % name
    return True


def time_polys(repo, q):
    """canonical forms of the local values that are polynomials (>= 3 monomials) in
    the two epochs only - the precession angle polynomials."""
    fn = repo.func(MOD, q)
    names = [a.arg for a in fn.args.args]
    canon = {names[0]: ("epoch", T.sym("E0")), names[1]: ("epoch", T.sym("E1"))}
    outs = outcomes(repo, MOD, q, arg_terms=canon)
    rets = [o for o in outs if o.kind == "ret"]
    if not rets:
        raise AnalysisError("%s: no returning path" % q)
    alg = Algebra()
    found = {}
    for k, v in rets[-1].env.items():
        if k.startswith("$") or not isinstance(v, tuple):
            continue
        if v[0] == "angle":
            v = v[1]
        syms = {x[1] for x in T.walk(v) if x[0] == "sym"}
        if not syms or not syms <= {"E0", "E1"}:
            continue
        if any(x[0] in ("call", "phi", "idx", "attr", "loopout") for x in T.walk(v)):
            continue
        try:
            r = alg.rat(v)
        except Exception:
            continue
        if not r.d.is_const() or len(r.n.t) < 4:
            continue
        key = alg.rat_key(r)
        found[key] = "%s (%d monomials)" % (k, len(r.n.t))
    return found
