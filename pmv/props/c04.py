"""C04 sexagesimal / right-ascension decomposition and printing are canonical.

Decided: D1 after rounding the seconds, a field that may have reached its maximum
(60 / 60 / 360) is tested and reset with a carry into the next field before any
formatting return (typestate R-CARRY); D2 the sign is applied exactly once per printed
string, to the leading non-zero field; D3 tuples and the RA string delegate to the same
decomposition of value / value/15, which reduces first and works on the absolute value;
the sexagesimal bases pair up between deg2dms (x60, x60) and dms2deg (/60, /3600)."""
import ast
from fractions import Fraction

from .. import symx, terms as T
from ..frontend import AnalysisError, norm_text, body_without_docstring
from ..rules import ret_term
from .. import effects, guards

MANIFEST = {
    "level": "other",
    "technique": "static analysis: typestate (field below-max / may-be-max) over the structured control flow of dms_str with the carry idioms enumerated, syntactic sign-placement rule on the formatting returns, delegation and base-pairing checks by symbolic evaluation",
    "text": "For every path through the printing routine (all values, all numbers of decimals): a seconds or minutes field that rounding or a carry may have pushed to 60, and a degree field pushed to 360, is always reset before it is formatted; the sign multiplies exactly one printed field, the leading non-zero one. Recombination to 1e-9 and the exact read-back of printed text are rounding facts and are not decided.",
    "note": "Trusted: carry idioms (abs(x - MAX) < TOL, x >= MAX, x == MAX with a reset in the true branch). Undecided: recombination, read-back of printed strings, values within 1e-12 of a field boundary.",
}
MOD, CLS = "Angle", "Angle"
MAXV = {0: 360.0, 1: 60.0, 2: 60.0}


def run(repo, rep, tier):
    rep.decided = ["D1 no 60 in minutes/seconds, degree wrap (R-CARRY)", "D2 sign applied once on the leading non-zero field",
                   "D3 delegation of tuples / RA string; bases pair up"]
    rep.undecided = ["recombination to 1e-9", "read-back of printed text", "values within 1e-12 of a field boundary"]
    rep.rule("R-CARRY", "typestate: every field that may be at its maximum is tested and reset (with carry) before a formatting return")
    carry(repo, rep)
    sign_once(repo, rep)
    delegation(repo, rep)
    fam = [(MOD, "Angle." + q) for q in ("deg2dms", "dms2deg", "reduce_dms", "dms_str", "ra_str", "dms_tuple", "ra_tuple")]
    effects.check_functions(repo, rep, fam)
    guards.check_functions(repo, rep, fam)
    return "other"


def fields_of(fn):
    """names bound to (d, m, s, sign) from the deg2dms call"""
    for node in ast.walk(fn):
        if isinstance(node, ast.Assign) and isinstance(node.value, ast.Call) and norm_text(node.value.func).endswith("deg2dms") \
                and isinstance(node.targets[0], ast.Tuple) and len(node.targets[0].elts) == 4:
            return [e.id for e in node.targets[0].elts if isinstance(e, ast.Name)]
    return None


def at_max_test(test, names):
    """test establishes `field is at its maximum` -> index of the field"""
    if isinstance(test, ast.Compare) and len(test.ops) == 1:
        left, op, right = test.left, test.ops[0], test.comparators[0]
        # abs(x - MAX) < tol
        if isinstance(op, (ast.Lt, ast.LtE)) and isinstance(left, ast.Call) and isinstance(left.func, ast.Name) and left.func.id == "abs" \
                and isinstance(left.args[0], ast.BinOp) and isinstance(left.args[0].op, ast.Sub) and isinstance(left.args[0].left, ast.Name) \
                and isinstance(left.args[0].right, ast.Constant):
            n = left.args[0].left.id
            if n in names and float(left.args[0].right.value) == MAXV[names.index(n)]:
                return names.index(n)
        # x >= MAX / x == MAX
        if isinstance(op, (ast.GtE, ast.Eq)) and isinstance(left, ast.Name) and isinstance(right, ast.Constant) and left.id in names:
            if float(right.value) == MAXV[names.index(left.id)]:
                return names.index(left.id)
    return None


def carry(repo, rep):
    q = "Angle.dms_str"
    rep.fn(MOD, q)
    fn = repo.func(MOD, q)
    names = fields_of(fn)
    site = "%s.%s" % (MOD, q)
    if not names or len(names) != 4:
        rep.violation("R-CARRY", site, "shape", "fields are not taken from Angle.deg2dms(...) as (d, m, s, sign)")
        return
    fields = names[:3]
    problems = []
    nret = [0]

    def resets(stmts, i):
        n = fields[i]
        for s in stmts:
            if isinstance(s, ast.Assign) and any(isinstance(t, ast.Name) and t.id == n for t in s.targets) \
                    and isinstance(s.value, ast.Constant) and s.value.value in (0, 0.0):
                return True
            if isinstance(s, ast.AugAssign) and isinstance(s.target, ast.Name) and s.target.id == n and isinstance(s.op, ast.Sub) \
                    and isinstance(s.value, ast.Constant) and float(s.value.value) == MAXV[i]:
                return True
        return False

    lost = []

    def carries(stmts, j):
        n = fields[j]
        return any(isinstance(s, ast.AugAssign) and isinstance(s.target, ast.Name) and s.target.id == n and isinstance(s.op, ast.Add)
                   and isinstance(s.value, ast.Constant) and float(s.value.value) == 1.0 for s in stmts)

    def walk(stmts, state):
        state = dict(state)
        for s in stmts:
            if isinstance(s, ast.Assign):
                for t in s.targets:
                    if isinstance(t, ast.Name) and t.id in fields:
                        i = fields.index(t.id)
                        if any(isinstance(n, ast.Call) and isinstance(n.func, ast.Name) and n.func.id == "round" for n in ast.walk(s.value)):
                            state[i] = "max?"
                        elif isinstance(s.value, ast.Constant):
                            state[i] = "ok"
                        else:
                            state[i] = "max?"
                    elif isinstance(t, ast.Tuple):
                        for e in t.elts:
                            if isinstance(e, ast.Name) and e.id in fields:
                                state[fields.index(e.id)] = "ok"      # fresh decomposition
            elif isinstance(s, ast.AugAssign) and isinstance(s.target, ast.Name) and s.target.id in fields:
                i = fields.index(s.target.id)
                if isinstance(s.op, ast.Add):
                    state[i] = "max?"
                elif isinstance(s.op, ast.Sub) and isinstance(s.value, ast.Constant) and float(s.value.value) == MAXV[i]:
                    state[i] = "ok"
                else:
                    state[i] = "max?"
            elif isinstance(s, ast.If):
                i = at_max_test(s.test, fields)
                st_true = walk(s.body, state)
                st_false = walk(s.orelse, state)
                if i is not None and resets(s.body, i):
                    st_true[i] = "ok"
                    st_false[i] = "ok"       # the test failed: the field is below its maximum
                    if i > 0 and not carries(s.body, i - 1):
                        lost.append((fields[i], fields[i - 1]))
                t1 = all(isinstance(x, (ast.Return, ast.Raise)) for x in s.body[-1:]) and bool(s.body)
                t2 = all(isinstance(x, (ast.Return, ast.Raise)) for x in s.orelse[-1:]) and bool(s.orelse)
                if t1 and t2:
                    return state
                if t1:
                    state = st_false
                elif t2:
                    state = st_true
                else:
                    state = {k: ("ok" if st_true[k] == "ok" and st_false[k] == "ok" else "max?") for k in state}
            elif isinstance(s, ast.Return):
                nret[0] += 1
                used = {n.id for n in ast.walk(s) if isinstance(n, ast.Name)}
                for i, f in enumerate(fields):
                    if f in used and state[i] != "ok":
                        problems.append((s.lineno, f, MAXV[i]))
        return state

    walk(body_without_docstring(fn), {0: "ok", 1: "ok", 2: "ok"})
    rep.floor("formatting returns in dms_str", nret[0], 4)
    for lo, hi in sorted(set(lost)):
        rep.violation("R-CARRY", site, "carry-lost:" + lo, "field `%s` is reset at its maximum without carrying 1 into `%s` (the value printed loses a unit)" % (lo, hi))
    if problems:
        fs = sorted({(f, mx) for _, f, mx in problems})
        for f, mx in fs:
            rep.violation("R-CARRY", site, "may-print-max:" + f,
                          "field `%s` may still equal %g when it is formatted: after rounding / a carry it is not tested and reset on every path" % (f, mx))
    elif not lost:
        rep.ok("R-CARRY", site, "seconds -> minutes -> degrees: each field that may reach 60/60/360 is tested and reset before all %d formatting returns" % nret[0])


def sign_once(repo, rep):
    q = "Angle.dms_str"
    fn = repo.func(MOD, q)
    names = fields_of(fn)
    if not names:
        return
    fields, sign = names[:3], names[3]
    site = "%s.%s" % (MOD, q)
    bad = []
    n = 0

    def walk(stmts, nonzero):
        nonlocal n
        for s in stmts:
            if isinstance(s, ast.If):
                nz = None
                t = s.test
                if isinstance(t, ast.Compare) and isinstance(t.left, ast.Name) and t.left.id in fields and isinstance(t.ops[0], ast.NotEq) \
                        and isinstance(t.comparators[0], ast.Constant) and t.comparators[0].value in (0, 0.0):
                    nz = t.left.id
                walk(s.body, nz if nz else nonzero)
                walk(s.orelse, nonzero if nz is None else None)
            elif isinstance(s, ast.Return) and isinstance(s.value, ast.Call) and isinstance(s.value.func, ast.Attribute) and s.value.func.attr == "format":
                n += 1
                with_sign = [a for a in s.value.args if any(isinstance(x, ast.Name) and x.id == sign for x in ast.walk(a))]
                if len(with_sign) != 1:
                    bad.append("line %d: sign applied to %d fields" % (s.lineno, len(with_sign)))
                    continue
                fld = [x.id for x in ast.walk(with_sign[0]) if isinstance(x, ast.Name) and x.id in fields]
                if nonzero is None or fld != [nonzero]:
                    bad.append("line %d: sign applied to %s but the leading non-zero field is %s" % (s.lineno, fld, nonzero))
                # fields before the signed one must not be printed with a sign and must be literal zeros or absent
    walk(body_without_docstring(fn), None)
    if bad:
        rep.violation("R-CARRY", site, "sign-placement", "; ".join(bad))
    else:
        rep.ok("R-CARRY", site + ":sign", "the sign multiplies exactly one field in each of %d formatted returns: the leading non-zero one" % n)


def delegation(repo, rep):
    rep.rule("R-SIB", "delegation to the one decomposition routine; paired bases")
    A = ("angle", T.sym("A"))
    t1 = ret_term(repo, MOD, "Angle.dms_tuple", arg_terms={"self": A})
    t2 = ret_term(repo, MOD, "Angle.ra_tuple", arg_terms={"self": A})
    rep.fn(MOD, "Angle.dms_tuple"); rep.fn(MOD, "Angle.ra_tuple")
    ok1 = t1 == T.call("Angle.Angle.deg2dms", T.call("red", T.sym("A")))
    ok2 = t2 == T.call("Angle.Angle.deg2dms", T.mul(T.num(Fraction(1, 15)), T.call("red", T.sym("A"))))
    if ok1 and ok2:
        rep.ok("R-SIB", "Angle.Angle.dms_tuple/ra_tuple", "deg2dms(value) and deg2dms(value/15)")
    else:
        rep.violation("R-SIB", "Angle.Angle.dms_tuple/ra_tuple", "delegation", "tuples are not deg2dms(value) / deg2dms(value/15): %s ; %s" % (T.show(t1)[:60], T.show(t2)[:60]))
    rep.fn(MOD, "Angle.ra_str")
    fn = repo.func(MOD, "Angle.ra_str")
    nm = [a.arg for a in fn.args.args]
    t3 = ret_term(repo, MOD, "Angle.ra_str", arg_terms={"self": A, nm[1]: T.sym("FANCY"), nm[2]: T.sym("NDEC")})
    calls = [x for x in T.walk(t3) if x[0] == "call" and x[1] == "Angle.Angle.dms_str"]
    want_recv = ("angle", T.mul(T.num(Fraction(1, 15)), T.call("red", T.call("red", T.sym("A")))))
    ok3 = bool(calls) and all(c[2][0] == "angle" and c[3:] == (T.sym("FANCY"), T.sym("NDEC")) for c in calls)
    if ok3:
        rep.ok("R-SIB", "Angle.Angle.ra_str", "dms_str(fancy, n_dec) of an Angle holding value/15")
    else:
        rep.violation("R-SIB", "Angle.Angle.ra_str", "delegation", "ra_str does not print value/15 through dms_str(fancy, n_dec): " + T.show(t3)[:100])
    # deg2dms: reduce first, absolute value, bases 60/60 ; dms2deg: /60, /3600
    rep.fn(MOD, "Angle.deg2dms"); rep.fn(MOD, "Angle.dms2deg")
    fn = repo.func(MOD, "Angle.deg2dms")
    t4 = ret_term(repo, MOD, "Angle.deg2dms", arg_terms={fn.args.args[0].arg: T.sym("X")})
    ok4 = False
    if t4[0] == "tuple" and len(t4) == 5:
        de, mi, se, sg = t4[1:]
        a = T.call("abs", T.call("red", T.sym("X")))
        mi_f = T.mul(T.num(60), T.call("mod", a, T.num(1)))
        ok4 = (de == T.call("int", a) and mi == T.call("int", mi_f) and se == T.mul(T.num(60), T.call("mod", mi_f, T.num(1)))
               and sg[0] == "phi" and sg[2] == T.num(1) and sg[3] == T.num(-1))
    if ok4:
        rep.ok("R-SIB", "Angle.Angle.deg2dms", "reduces first, works on |value|: (int(a), int(60*frac(a)), 60*frac(60*frac(a)), sign)")
    else:
        rep.violation("R-SIB", "Angle.Angle.deg2dms", "decomposition", "deg2dms is not (int(a), int(60 frac a), 60 frac(60 frac a), sign) of a = |reduce(value)|: " + T.show(t4)[:160])
    fn = repo.func(MOD, "Angle.dms2deg")
    nm = [a.arg for a in fn.args.args]
    t5 = ret_term(repo, MOD, "Angle.dms2deg", arg_terms={nm[0]: T.sym("D"), nm[1]: T.sym("M"), nm[2]: T.sym("S")})
    r = T.call("Angle.Angle.reduce_dms", T.sym("D"), T.sym("M"), T.sym("S"))
    comp = lambda i: ("idx", r, T.num(i))
    want = T.call("float", T.mul(comp(3), T.add(comp(0), T.mul(T.num(Fraction(1, 60)), comp(1)), T.mul(T.num(Fraction(1, 3600)), comp(2)))))
    if t5 == want:
        rep.ok("R-SIB", "Angle.Angle.dms2deg", "sign*(d + m/60 + s/3600) of reduce_dms(...): bases pair with deg2dms (x60, x60)")
    else:
        rep.violation("R-SIB", "Angle.Angle.dms2deg", "recombination", "dms2deg is not sign*(d + m/60 + s/3600) of the reduced pieces: " + T.show(t5)[:140])
