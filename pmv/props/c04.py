"""C04 sexagesimal / right-ascension decomposition and printing are canonical.

Decided: D1/D2 the printing routines dms_str / ra_str are evaluated symbolically (new helpers inlined, the
decomposition deg2dms left opaque) and the resulting term - which looks at the fields only through comparisons
with 0, 60, 360 and the rounding of the seconds - is executed exactly on every class of (degrees, minutes, seconds,
sign, n_dec, style): the printed text never shows 60 in minutes or seconds, carries the sign once on the leading
non-zero field, and reads back to the value rounded at the requested decimal modulo 360 deg / 24 h (R-CARRY);
D3 tuples delegate to the one decomposition of value / value/15; deg2dms is proved equal, in every sign case of its
comparisons, to (int a, int 60 frac a, 60 frac(60 frac a), sign) of a = |reduce(value)|; dms2deg is
sign*(d + m/60 + s/3600) of the reduced pieces (R-SIB)."""
import ast
import re
from fractions import Fraction

from .. import symx, terms as T
from ..frontend import AnalysisError, norm_text, body_without_docstring
from ..rules import ret_term, eval_exact, NotEvaluable, signcase_equal, _alg_equal
from .. import effects, guards

MANIFEST = {
    "level": "other",
    "technique": "static analysis: symbolic evaluation of the printing routines (helpers inlined) followed by an exhaustive decision table over the classes of (degrees, minutes, seconds, sign, decimals, style) that the extracted term can distinguish; sign-case equivalence proof (exhaustive case split on the comparisons with zero, polynomial normal forms in each case) of the decomposition against its specification; algebraic match of the recombination; exact execution (rational arithmetic) of the extracted dms_tuple / ra_tuple terms on values at and within 1e-13..1e-9 of every field boundary",
    "text": "For all values and numbers of decimals: the printed forms (both styles, angle and right ascension) never show 60 in minutes or seconds after the rounding carry, wrap 360 deg to 0, carry the sign exactly once on the leading non-zero field and read back to the rounded value modulo 360 deg / 24 h - decided on every class the code can distinguish (each field at 0, 1, mid-range, its maximum; seconds that round to 0, to 60 or stay; both signs; no / zero / some decimals). deg2dms is proved to be (int a, int 60 frac a, 60 frac(60 frac a), sign) of a = |reduce(value)| and dms2deg its inverse formula. The decomposition clause is additionally decided by executing dms_tuple() / ra_tuple() exactly on values at and within 1e-13..1e-9 of a whole second, minute or degree (hour), of 0 and of +-360, of both signs: integer degrees in [0, 360) / hours in [0, 24), integer minutes in [0, 60), seconds in [0, 60), the sign of the value, recombination to 1e-9 degree - so a carry added to the splitting routine is judged by what it returns, for the angle and the hour form alike. What float rounding adds is not decided. Where the printing routine reads the object's own comparison tolerance (settable, copied by the copy constructor) that tolerance is one more dimension of the table (1e-10, 0, 1e-3).",
    "note": "Trusted: Python's round() and str.format(). Undecided: float rounding of frac*60 inside deg2dms and of the recombination; values off the executed grid (the formula proof covers them when the routine has the plain form).",
}
MOD, CLS = "Angle", "Angle"


def run(repo, rep, tier):
    rep.decided = ["D1 no 60 in minutes/seconds, degree wrap, read-back modulo 360 deg / 24 h (R-CARRY decision table)",
                   "D2 sign shown once on the leading non-zero field", "D3 delegation of tuples; deg2dms formula; dms2deg formula"]
    rep.undecided = ["float rounding inside deg2dms and of the recombination (the exact rational recipe is decided: R-DECOMP, R-SIB)"]
    rep.decided.append("D4 tuples canonical (integer fields in range, sign of the value) and recombining to the value on the boundary grid, angle and RA form (R-DECOMP, exact execution)")
    rep.rule("R-CARRY", "decision table: the printing term, executed exactly on every class of (d, m, s, sign, n_dec, style), never shows 60 in "
                        "minutes/seconds, carries the sign once on the leading non-zero field and reads back to the rounded value mod 360 deg / 24 h")
    printed_forms(repo, rep)
    grid_ok = decomp_grid(repo, rep, tier)
    delegation(repo, rep, grid_ok)
    construct4(repo, rep)
    fam = [(MOD, "Angle." + q) for q in ("deg2dms", "dms2deg", "reduce_dms", "dms_str", "ra_str", "dms_tuple", "ra_tuple")]
    effects.check_functions(repo, rep, fam)
    guards.check_functions(repo, rep, fam)
    return "other"


NUM_RE = r"-?\d+(?:\.\d+)?(?:e-?\d+)?"


def parse_printed(s):
    """[(raw text, Fraction)] for degrees/hours, minutes, seconds as printed (missing leading fields are None), or None"""
    s = s.strip()
    if ":" in s:
        parts = s.split(":")
        if len(parts) != 3:
            return None
        out = []
        for p_ in parts:
            if not re.fullmatch(NUM_RE, p_.strip()):
                return None
            out.append((p_.strip(), Fraction(p_.strip())))
        return out
    toks = re.findall("(%s)\\s*(d|h|''|')" % NUM_RE, s)
    rest = re.sub("(%s)\\s*(d|h|''|')" % NUM_RE, "", s).strip()
    if rest or not toks:
        return None
    slot = {"d": 0, "h": 0, "'": 1, "''": 2}
    out = [None, None, None]
    for raw, u in toks:
        if out[slot[u]] is not None:
            return None
        out[slot[u]] = (raw, Fraction(raw))
    return out


def printing_prims(terms, seen_args):
    def val(x, env):
        return eval_exact(x, env, prims)

    def shown(v):
        if isinstance(v, Fraction):
            return int(v) if v.denominator == 1 else float(v)
        return v

    def prims(t, env):
        if t[0] != "call":
            return None
        f = t[1]
        if f == "Angle.Angle.deg2dms" and len(t) == 3:
            seen_args.add(t[2])
            return env["$dms"]
        if f == "round" and len(t) in (3, 4):
            a = val(t[2], env)
            n = int(val(t[3], env)) if len(t) == 4 else 0
            return Fraction(round(Fraction(a), n))
        if f == "len" and len(t) == 3:
            return Fraction(len(val(t[2], env)))
        if f == "str" and len(t) == 3:
            return str(shown(val(t[2], env)))
        if f == ".replace" and len(t) == 5:
            return val(t[2], env).replace(val(t[3], env), val(t[4], env))
        if f in (".startswith", ".endswith") and len(t) == 4:
            a_, b_ = val(t[2], env), val(t[3], env)
            if isinstance(a_, str) and isinstance(b_, str):
                return a_.startswith(b_) if f == ".startswith" else a_.endswith(b_)
        if f in (".strip", ".lstrip", ".rstrip", ".lower", ".upper") and len(t) == 3:
            a_ = val(t[2], env)
            if isinstance(a_, str):
                return getattr(a_, f[1:])()
        if f == "concat" and len(t) == 4:
            a_, b_ = val(t[2], env), val(t[3], env)
            if isinstance(a_, str) and isinstance(b_, str):
                return a_ + b_
        if f == "slice" and len(t) == 6:
            a_ = val(t[2], env)
            lo, hi, st = (None if x == T.NONE else int(val(x, env)) for x in t[3:6])
            if isinstance(a_, (str, tuple)):
                return a_[lo:hi:st]
        if f == ".format":
            tpl = val(t[2], env)
            pos, kw = [], {}
            for a in t[3:]:
                if a[0] == "kw":
                    kw[a[1]] = shown(val(a[2], env))
                elif a[0] == "call" and a[1] == "*":
                    pos.extend(shown(v) for v in val(a[2], env))
                else:
                    pos.append(shown(val(a, env)))
            if not isinstance(tpl, str):
                raise NotEvaluable("format of a non-string")
            try:
                return tpl.format(*pos, **kw)
            except (IndexError, KeyError, ValueError) as e:
                raise NotEvaluable("str.format: %s" % e)
        if f == "Angle.Angle.dms_str" and "Angle.dms_str" in terms and len(t) >= 3:
            e2 = dict(env)
            extra = [a for a in t[3:] if a[0] != "kw"]
            kws = {a[1]: a[2] for a in t[3:] if a[0] == "kw"}
            names = terms["Angle.dms_str:params"]
            for i, (nm_, sym_, dflt) in enumerate(names):
                if i < len(extra):
                    e2[sym_] = val(extra[i], env)
                elif nm_ in kws:
                    e2[sym_] = val(kws[nm_], env)
                else:
                    e2[sym_] = dflt
            if t[2][0] == "angle":
                seen_args.add(T.call("red", t[2][1]))
            return eval_exact(terms["Angle.dms_str"], e2, printing_prims(terms, set()))
        return None
    return prims


def printed_forms(repo, rep):
    A = ("angle", T.sym("A"))
    terms = {}
    for q in ("Angle.dms_str", "Angle.ra_str"):
        rep.fn(MOD, q)
        fn = repo.func(MOD, q)
        nm = [a.arg for a in fn.args.args]
        if len(nm) < 3:
            raise AnalysisError("%s: expected (self, fancy, n_dec)" % q)
        dfl = [None] * (len(nm) - len(fn.args.defaults)) + list(fn.args.defaults)
        dv = lambda d, fb: Fraction(d.value) if isinstance(d, ast.Constant) and isinstance(d.value, (int, float)) and not isinstance(d.value, bool) \
            else bool(d.value) if isinstance(d, ast.Constant) and isinstance(d.value, bool) else fb
        terms[q + ":params"] = [(nm[1], T.sym("FANCY"), dv(dfl[1], False)), (nm[2], T.sym("NUM_NDEC"), dv(dfl[2], Fraction(-1)))]
        terms[q] = ret_term(repo, MOD, q, arg_terms={"self": A, nm[1]: T.sym("FANCY"), nm[2]: T.sym("NUM_NDEC")})
    F = Fraction
    S_REPS = [F(0), F(1, 250), F(49, 4), F(119, 2), F(599999, 10000)]
    for q, wrap, scale in (("Angle.dms_str", 360, F(1)), ("Angle.ra_str", 24, F(1, 15))):
        site = "%s.%s" % (MOD, q)
        t = terms[q]
        # the object's own comparison tolerance (settable with set_tolerance(), copied by Angle(other)) is part of the Angle: if the printing
        # term reads it, it becomes one more dimension of the table - the clauses must hold whatever it was set to
        tol_nodes = set(x for x in T.walk(t) if x[0] == "attr" and x[2] == "_tol")
        TOLS = T.sym("NUM_OBJTOL")
        if tol_nodes:
            t = T.subst(t, {x: TOLS for x in tol_nodes})
        tol_reps = [F("1e-10"), F(0), F("1e-3")] if tol_nodes else [F("1e-10")]
        # constants the fields are compared with, beyond 0 / 60 / 360 and tolerances: added to the representatives
        extra = set()
        for x in T.walk(t):
            if x[0] == "cmp":
                for side in (x[2], x[3]):
                    if side[0] == "num" and side[1] not in (0, 60, 360) and abs(side[1]) >= F(1, 1000):
                        extra.add(F(side[1]))
            if x[0] == "add":
                for y in x[1:]:
                    if y[0] == "num" and abs(y[1]) not in (0, 1, 60, 360) and abs(y[1]) >= F(1, 1000):
                        extra.add(abs(F(y[1])))
        # numbers the printed text is compared with (startswith("24"), == "60", ...): the fields are given those values too
        for x in T.walk(t):
            if x[0] == "str":
                for num_ in re.findall(r"\d+(?:\.\d+)?", x[1]):
                    v_ = F(num_)
                    if v_ not in (0, 60, 360) and F(1, 1000) <= v_ < 360 and "{" not in x[1]:
                        extra.add(v_)
        if len(extra) > 6:
            rep.inconcl("R-CARRY", site, "the printing term compares the fields with %d further constants; the class table is not built" % len(extra))
            continue
        dmax = wrap - 1
        d_reps = sorted({F(0), F(1), F(5), F(dmax)} | {c_ for c in extra for c_ in (c - 1, c) if 0 <= c_ <= dmax and c_.denominator == 1})
        m_reps = sorted({F(0), F(1), F(7), F(59)} | {c_ for c in extra for c_ in (c - 1, c) if 0 <= c_ <= 59 and c_.denominator == 1})
        s_reps = sorted(set(S_REPS) | {c_ for c in extra for c_ in (c - F(1, 10000), c) if 0 <= c_ < 60})
        seen_args = set()
        prims = printing_prims(terms, seen_args)
        fails = {}
        n_cls = 0
        err = None
        for fancy, otol in [(f_, o_) for f_ in (True, False) for o_ in tol_reps]:
            for nd in (-1, 0, 2) + ((3, 4) if tol_nodes else ()):
                for d in d_reps:
                    for m in m_reps:
                        for s_ in s_reps + ([F("59.9996"), F("59.9995")] if tol_nodes else []):
                            for sg in (F(1), F(-1)):
                                env = {T.sym("FANCY"): fancy, T.sym("NUM_NDEC"): F(nd), "$dms": (d, m, s_, sg), TOLS: otol}
                                try:
                                    out = eval_exact(t, env, prims)
                                except NotEvaluable as e:
                                    err = str(e)
                                    break
                                except (TypeError, ValueError, ZeroDivisionError, IndexError, KeyError) as e:
                                    err = "%s: %s" % (type(e).__name__, e)
                                    break
                                n_cls += 1
                                cls = "(d, m, s, sign) = (%s, %s, %s, %+d), n_dec=%d, fancy=%s%s" % (d, m, float(s_), sg, nd, fancy,
                                                                                                       "" if not tol_nodes else ", object tolerance %g" % float(otol))
                                if not isinstance(out, str):
                                    fails.setdefault("not-a-string", (cls, repr(out)))
                                    continue
                                pr = parse_printed(out)
                                if pr is None:
                                    if fancy:
                                        err = "printed form %r is not made of <number><unit> fields" % out
                                        break
                                    fails.setdefault("read-back", (cls, "%r is not three numbers separated by colons" % out))
                                    continue
                                vals = [abs(x[1]) if x else F(0) for x in pr]
                                if vals[1] >= 60 or vals[2] >= 60:
                                    fails.setdefault("shows-60", (cls, "prints %r" % out))
                                s_r = F(round(s_, nd)) if nd >= 0 else s_
                                total = d * 3600 + m * 60 + s_r
                                printed = vals[0] * 3600 + vals[1] * 60 + vals[2]
                                W = wrap * 3600
                                if abs(printed - total) > F(1, 10 ** 9) and abs(printed - total % W) > F(1, 10 ** 9):
                                    fails.setdefault("read-back", (cls, "prints %r = %s arcsec, the rounded value is %s arcsec" % (out, float(printed), float(total))))
                                minus = out.count("-")
                                if sg > 0 or printed == 0:
                                    if minus and sg > 0:
                                        fails.setdefault("sign", (cls, "prints %r: a minus sign on a positive value" % out))
                                else:
                                    lead = next((x for x in pr if x is not None and x[1] != 0), None)
                                    if minus != 1 or lead is None or not lead[0].startswith("-"):
                                        fails.setdefault("sign", (cls, "prints %r: the minus sign must appear once, on the leading non-zero field" % out))
                            if err:
                                break
                        if err:
                            break
                    if err:
                        break
                if err:
                    break
            if err:
                break
        if err:
            rep.inconcl("R-CARRY", site, "the printing term cannot be executed on the class table: %s" % err)
            continue
        rep.floor("classes of (d, m, s, sign, n_dec, style) executed for %s" % q, n_cls, 900)
        # the decomposition printed is that of the value itself (dms) or of value/15 (ra)
        arg_ok = bool(seen_args)
        want = T.mul(T.num(scale), T.sym("A"))
        for a in seen_args:
            a0 = a
            while True:
                a1 = T.subst(a0, {T.call("red", T.sym("A")): T.sym("A")})
                a1 = strip_red(a1)
                if a1 == a0:
                    break
                a0 = a1
            if not _alg_equal(a0, want):
                arg_ok = False
                rep.violation("R-SIB", site, "delegation", "%s decomposes %s, not the value%s" % (q.split(".")[-1], T.show(a)[:80], "" if scale == 1 else "/15"))
        if arg_ok:
            rep.ok("R-SIB", site, "decomposes value%s through deg2dms" % ("" if scale == 1 else "/15"))
        for kind, (cls, what) in sorted(fails.items()):
            rep.violation("R-CARRY", site, kind, "for %s: %s" % (cls, what), construct=cls)
        if not fails:
            rep.ok("R-CARRY", site, "%d classes: no 60 shown, sign once on the leading non-zero field, text reads back to the rounded value mod %d" % (n_cls, wrap), obligation=True)


def construct4(repo, rep):
    """R-SIGN4: Angle(d, m, s, sign) - the inverse of dms_tuple()/ra_tuple() - must give sign*(|d| + |m|/60 + |s|/3600).
    The value set by Angle.set for the two four-value forms is extracted symbolically; it reaches the fields only through
    abs(), products with the sign and the sign tests of reduce_dms, so it is executed exactly (with dms2deg / reduce_dms /
    reduce_deg given by their own extracted terms) on every class: each field zero or not, the sign +1 or -1."""
    from ..rules import outcomes
    rep.rule("R-SIGN4", "Angle(d, m, s, sign) == sign*(|d| + |m|/60 + |s|/3600) for every class of zero/non-zero fields and both signs "
                        "(decision table over the extracted constructor term, helper terms taken from the source)")
    q = "Angle.set"
    rep.fn(MOD, q)
    site = MOD + "." + q
    fn = repo.func(MOD, q)
    if fn.args.vararg is None:
        rep.inconcl("R-SIGN4", site, "set() no longer takes *args")
        return
    helper = {}
    for h in ("Angle.reduce_dms", "Angle.dms2deg", "Angle.reduce_deg"):
        hf = repo.func(MOD, h)
        nm = [a.arg for a in hf.args.args]
        dfl = [None] * (len(nm) - len(hf.args.defaults)) + [Fraction(d.value) if isinstance(d, ast.Constant) and isinstance(d.value, (int, float)) else None
                                                             for d in hf.args.defaults]
        try:
            helper["Angle." + h] = (nm, dfl, ret_term(repo, MOD, h, arg_terms={n: T.sym("NUM_H_" + n.upper()) for n in nm}))
        except AnalysisError:
            pass

    def prims(t, env):
        if t[0] == "call" and t[1] in helper:
            nm, dfl, term = helper[t[1]]
            e2 = dict(env)
            args = [a for a in t[2:] if a[0] != "kw"]
            kws = {a[1]: a[2] for a in t[2:] if a[0] == "kw"}
            for i, n in enumerate(nm):
                if i < len(args):
                    e2[T.sym("NUM_H_" + n.upper())] = eval_exact(args[i], env, prims)
                elif n in kws:
                    e2[T.sym("NUM_H_" + n.upper())] = eval_exact(kws[n], env, prims)
                elif dfl[i] is not None:
                    e2[T.sym("NUM_H_" + n.upper())] = dfl[i]
                else:
                    raise NotEvaluable("missing argument %s of %s" % (n, t[1]))
            return eval_exact(term, e2, prims)
        if t[0] == "call" and t[1] == "red" and len(t) == 3:
            v = eval_exact(t[2], env, prims)
            return v if abs(v) < 360 else (abs(v) % 360) * (1 if v >= 0 else -1)
        return None
    F = Fraction
    syms = [T.sym("NUM_D"), T.sym("NUM_M"), T.sym("NUM_S"), T.sym("NUM_SG")]
    four = ("tuple",) + tuple(syms)
    n_cls, bad, err = 0, {}, None
    for form, args in (("Angle(d, m, s, sign)", four), ("Angle((d, m, s, sign))", ("tuple", four))):
        kw = {"self": T.sym("self"), fn.args.vararg.arg: args}
        if fn.args.kwarg is not None:
            kw[fn.args.kwarg.arg] = ("dict", ())
        outs = [o for o in outcomes(repo, MOD, q, arg_terms=kw) if o.kind in ("ret", "fall")]
        for d in (F(0), F(5)):
            for m in (F(0), F(7)):
                for sc in (F(0), F(25, 2)):
                    for sg in (F(1), F(-1)):
                        env = dict(zip(syms, (d, m, sc, sg)))
                        try:
                            live = [o for o in outs if eval_exact(o.cond, env, prims)]
                            if len(live) != 1 or "self._deg" not in live[0].env:
                                raise NotEvaluable("no single value-setting path")
                            got = eval_exact(live[0].env["self._deg"], env, prims)
                        except NotEvaluable as e:
                            err = "%s: %s" % (form, e)
                            break
                        except (TypeError, ValueError, ZeroDivisionError) as e:
                            err = "%s: %s: %s" % (form, type(e).__name__, e)
                            break
                        n_cls += 1
                        want = sg * (d + m / 60 + sc / 3600)
                        if abs(got - want) > F(1, 10 ** 9):
                            bad.setdefault(form, ((d, m, float(sc), int(sg)), float(got), float(want)))
                    if err:
                        break
                if err:
                    break
            if err:
                break
        if err:
            break
    if err:
        rep.inconcl("R-SIGN4", site, "the four-value constructor term cannot be executed on the class table: %s" % err)
        return
    rep.floor("classes of (d, m, s, sign) executed for the four-value constructor", n_cls, 32)
    for form, (cls, got, want) in sorted(bad.items()):
        rep.violation("R-SIGN4", site, "sign4:" + form, "%s with (d, m, s, sign) = %s sets %s degrees; the pieces of dms_tuple()/ra_tuple() stand for %s "
                      "(the sign is lost or misapplied when a leading field is zero)" % (form, cls, got, want), construct=str(cls), obligation=True)
    if not bad:
        rep.ok("R-SIGN4", site, "both four-value forms give sign*(|d| + |m|/60 + |s|/3600) in all %d classes" % n_cls, obligation=True)


def strip_red(t):
    """red(k * red(x)) and red(x) -> the argument: reduction modulo 360 does not change what deg2dms decomposes
    (deg2dms reduces its argument itself - proved by the decomposition rule below)"""
    if t[0] == "call" and t[1] == "red" and len(t) == 3:
        return t[2]
    if t[0] == "mul":
        return T.mul(*[strip_red(x) for x in t[1:]])
    return t


def decomp_grid(repo, rep, tier):
    """R-DECOMP.  dms_tuple() / ra_tuple() are rational recipes in the stored value (reduce, abs, floor, mod, comparisons).  Their
    extracted terms - deg2dms and reduce_deg by their own terms - are executed exactly on the grid the property names: values at and
    within 1e-13 .. 1e-9 of a whole second, minute or degree (hour), of 0 and of +-360, of both signs, plus ordinary values.  Decided per
    value: integer degrees in [0, 360) (hours in [0, 24)), integer minutes in [0, 60), seconds in [0, 60), sign +-1 equal to the sign of
    the value, and sign * (d + m/60 + s/3600) equal to the value (value/15) to 1e-9 degree."""
    from ..rules import eval_exact, NotEvaluable, repo_prims
    rep.rule("R-DECOMP", "dms_tuple() / ra_tuple() give integer degrees in [0, 360) / hours in [0, 24), integer minutes in [0, 60), seconds in [0, 60), the sign of the "
                         "value, and recombine to the value (1e-9 deg): exact execution on values at and within 1e-13..1e-9 of field boundaries, 0 and +-360")
    site = "Angle.Angle.dms_tuple/ra_tuple"
    V = T.sym("NUM_DEG")
    try:
        terms = {}
        for q in ("dms_tuple", "ra_tuple"):
            terms[q] = ret_term(repo, MOD, "Angle." + q, arg_terms={"self": ("angle", V)})
        fr = repo.func(MOD, "Angle.reduce_deg")
        red_t = ret_term(repo, MOD, "Angle.reduce_deg", arg_terms={fr.args.args[0].arg: T.sym("NUM_RED")})
    except AnalysisError as e:
        rep.inconcl("R-DECOMP", site, "terms not extractable: %s" % e)
        return
    hold = {}

    def red_prim(t, env):
        if t[0] == "call" and t[1] == "red" and len(t) == 3:
            return eval_exact(red_t, {T.sym("NUM_RED"): eval_exact(t[2], env, hold["p"]), "$memo": {}}, hold["p"])
        return None
    prims = hold["p"] = repo_prims(repo, red_prim)
    F = Fraction
    deltas = [F(0), F(1, 10 ** 13), F(1, 2 ** 42), F(1, 10 ** 12), F(1, 10 ** 11), F(1, 10 ** 9)]
    centres = [F(0), F(1), F(15), F(23), F(180), F(345), F(359), F(360), F(10) + F(12, 60), F(23) + F(59, 60), F(359) + F(59, 60), F(10) + F(59, 60) + F(59, 3600),
               F(359) + F(59, 60) + F(59, 3600), F(14) + F(59, 60) + F(59, 3600) * 15 / 15, F(1, 15), F(1, 240), F(1, 3600), F(1, 60)]
    vals = set()
    for c in centres:
        for d in deltas:
            for x in (c - d, c + d):
                for sg in (1, -1):
                    if abs(x) < 360:
                        vals.add(sg * x)
    vals |= {F("10.2"), F("-23.44694444"), F("0.5"), F("-0.5"), F("123.456789"), F(-1, 10 ** 30), F(1, 10 ** 30)}
    bad = {}
    n = 0
    for v in sorted(vals):
        for q, turn, scale in (("dms_tuple", 360, 1), ("ra_tuple", 24, 15)):
            try:
                r = eval_exact(terms[q], {V: v, "$memo": {}}, prims)
            except NotEvaluable as e:
                rep.inconcl("R-DECOMP", site, "%s not executable: %s" % (q, e))
                return
            except (TypeError, ValueError, IndexError, KeyError) as e:
                rep.inconcl("R-DECOMP", site, "%s not executable: %s: %s" % (q, type(e).__name__, e))
                return
            n += 1
            shown = "Angle(%s).%s()" % (repr(float(v)), q)
            if not (isinstance(r, tuple) and len(r) == 4 and all(isinstance(x, (int, Fraction)) and not isinstance(x, bool) for x in r)):
                bad.setdefault(q + ":shape", []).append("%s = %r" % (shown, r))
                continue
            d_, m_, s_, sg_ = r
            txt = "%s = (%s, %s, %.12g, %s)" % (shown, d_, m_, float(s_), sg_)
            if F(d_).denominator != 1 or not 0 <= d_ < turn:
                bad.setdefault(q + ":leading", []).append("%s: leading field not an integer in [0, %d)" % (txt, turn))
            elif F(m_).denominator != 1 or not 0 <= m_ < 60:
                bad.setdefault(q + ":minutes", []).append("%s: minutes not an integer in [0, 60)" % txt)
            elif not 0 <= s_ < 60:
                bad.setdefault(q + ":seconds", []).append("%s: seconds outside [0, 60)" % txt)
            elif sg_ not in (1, -1) or (v != 0 and (sg_ < 0) != (v < 0)):
                bad.setdefault(q + ":sign", []).append("%s: sign is not that of the value" % txt)
            elif abs(sg_ * (d_ + F(m_) / 60 + F(s_) / 3600) * scale - v) > F(1, 10 ** 9):
                bad.setdefault(q + ":recombine", []).append("%s recombines to %.12g, not %.12g" % (txt, float(sg_ * (d_ + F(m_) / 60 + F(s_) / 3600) * scale), float(v)))
    for kind, lst in sorted(bad.items()):
        rep.violation("R-DECOMP", site, "decomp:" + kind, lst[0] + "  (%d of %d executed splits fail this way)" % (len(lst), n), obligation=True)
    if not bad:
        rep.ok("R-DECOMP", site, "%d splits executed exactly (values at and within 1e-13..1e-9 of whole seconds, minutes, degrees/hours, 0 and +-360): canonical fields, "
                                 "sign of the value, recombination to 1e-9 deg" % n, obligation=True)
    rep.floor("sexagesimal splits executed", n, 600)
    return not bad


def delegation(repo, rep, grid_ok=None):
    rep.rule("R-SIB", "delegation to the one decomposition routine; paired bases")
    A = ("angle", T.sym("A"))
    t1 = ret_term(repo, MOD, "Angle.dms_tuple", arg_terms={"self": A})
    t2 = ret_term(repo, MOD, "Angle.ra_tuple", arg_terms={"self": A})
    rep.fn(MOD, "Angle.dms_tuple"); rep.fn(MOD, "Angle.ra_tuple")
    ok1 = t1 == T.call("Angle.Angle.deg2dms", T.call("red", T.sym("A")))
    ok2 = t2 == T.call("Angle.Angle.deg2dms", T.mul(T.num(Fraction(1, 15)), T.call("red", T.sym("A"))))
    if ok1 and ok2:
        rep.ok("R-SIB", "Angle.Angle.dms_tuple/ra_tuple", "deg2dms(value) and deg2dms(value/15)")
    elif grid_ok:
        # another shape, but the tuples were executed on the boundary grid and are the decomposition (R-DECOMP): nothing to report
        rep.ok("R-SIB", "Angle.Angle.dms_tuple/ra_tuple", "not literally deg2dms(value) / deg2dms(value/15), but the executed tuples are the decomposition (R-DECOMP)")
    else:
        rep.violation("R-SIB", "Angle.Angle.dms_tuple/ra_tuple", "delegation", "tuples are not deg2dms(value) / deg2dms(value/15): %s ; %s" % (T.show(t1)[:60], T.show(t2)[:60]))
    # deg2dms: reduce first, absolute value, bases 60/60 ; dms2deg: /60, /3600
    rep.fn(MOD, "Angle.deg2dms"); rep.fn(MOD, "Angle.dms2deg")
    fn = repo.func(MOD, "Angle.deg2dms")
    t4 = ret_term(repo, MOD, "Angle.deg2dms", arg_terms={fn.args.args[0].arg: T.sym("X")})
    a = T.call("abs", T.call("red", T.sym("X")))
    mi_f = T.mul(T.num(60), T.call("mod", a, T.num(1)))
    model = ("tuple", T.call("int", a), T.call("int", mi_f), T.mul(T.num(60), T.call("mod", mi_f, T.num(1))),
             T.phi(("cmp", "Lt", T.call("red", T.sym("X")), T.num(0)), T.num(-1), T.num(1)))
    t4n = ("tuple",) + tuple(t4[1:]) if t4[0] in ("tuple", "list") else t4
    st = {}
    ok4, why = signcase_equal(t4n, model, stats=st)
    if ok4 is True:
        rep.ok("R-SIB", "Angle.Angle.deg2dms", "reduces first, works on |value|: (int(a), int(60*frac(a)), 60*frac(60*frac(a)), sign) in all %d sign cases" % st.get("cases", 1),
               obligation=True)
    elif ok4 is False:
        trail, t_res, m_res = why
        rep.violation("R-SIB", "Angle.Angle.deg2dms", "decomposition",
                      "deg2dms is not (int(a), int(60 frac a), 60 frac(60 frac a), sign) of a = |reduce(value)|: in the case %s it returns %s, the decomposition is %s"
                      % (", ".join("%s %s" % kv for kv in trail) or "of any value", T.show(t_res)[:160], T.show(m_res)[:160]), obligation=True)
    else:
        rep.inconcl("R-SIB", "Angle.Angle.deg2dms", "equality with the sexagesimal decomposition not decided: %s" % why)
    fn = repo.func(MOD, "Angle.dms2deg")
    nm = [a.arg for a in fn.args.args]
    t5 = ret_term(repo, MOD, "Angle.dms2deg", arg_terms={nm[0]: T.sym("D"), nm[1]: T.sym("M"), nm[2]: T.sym("S")})
    r = T.call("Angle.Angle.reduce_dms", T.sym("D"), T.sym("M"), T.sym("S"))
    comp = lambda i: ("idx", r, T.num(i))
    want = T.mul(comp(3), T.add(comp(0), T.mul(T.num(Fraction(1, 60)), comp(1)), T.mul(T.num(Fraction(1, 3600)), comp(2))))
    got = t5
    while got[0] == "call" and got[1] == "float" and len(got) == 3:
        got = got[2]
    known = {comp(i) for i in range(4)}
    foreign = [x for x in T.walk(got) if x[0] in ("call", "idx", "sym", "phi") and x not in known and x != r and x[0] != "num"
               and not (x[0] == "sym" and x in (T.sym("D"), T.sym("M"), T.sym("S")))]
    if _alg_equal(got, want):
        rep.ok("R-SIB", "Angle.Angle.dms2deg", "sign*(d + m/60 + s/3600) of reduce_dms(...): bases pair with deg2dms (x60, x60)")
    elif foreign:
        rep.inconcl("R-SIB", "Angle.Angle.dms2deg", "the result is not a polynomial in the pieces of reduce_dms(d, m, s): " + T.show(t5)[:120])
    else:
        rep.violation("R-SIB", "Angle.Angle.dms2deg", "recombination", "dms2deg is not sign*(d + m/60 + s/3600) of the reduced pieces: " + T.show(t5)[:140])
