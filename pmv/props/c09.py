"""C09 geocentric positions match the library's own heliocentric vectors.

Decided: D1 the seven planetary reductions are one algorithm (R-SIB); D2 the returned
direction depends on the light time: the body is evaluated at epoch - tau with
tau = 0.0057755183 * distance, the Earth at the query epoch (R-DEP); the Sun used for the
elongation must be taken at the query epoch, not at the light-time-shifted one
(R-TAINT-LT); Minor: in the second pass the anomaly and radius depend on tau in each of
the three orbit regimes; Pluto: second heliocentric call at epoch - tau; D3 the caller's
Epoch is not shifted (R-EFFECT: `epoch -= tau` rebinds); D4 the elongation is
Angle(acos(.), radians=True) (hence in [0, 180]); Pluto refuses years outside 1885-2099."""
from fractions import Fraction

from .. import symx, terms as T
from ..frontend import AnalysisError
from ..rules import ret_term, outcomes, find_calls, radians_of_angle, refusal_check, cmp_is, timearg_scan, stateless_scan
from .. import units, guards, effects

MANIFEST = {
    "level": "other",
    "technique": "static analysis: sibling comparison of the seven reductions by value numbering, dependence (slicing) of the returned direction on the light time, taint rule for the light-time-shifted epoch, partial evaluation of the minor-body routine per orbit regime, parity abstract interpretation (reflection about perihelion) of the near-parabolic and parabolic solvers, effect analysis, alias-retention rule for persistent stores (no class attribute / global keeps a caller's Epoch by reference), refusal path rule; the Angle / Epoch operator semantics the evaluator assumes are verified (operator conformance, operands never written)",
    "text": "Decides for all epochs that the seven planetary reductions are the same computation, that the body is re-evaluated one light time earlier while the Earth stays at the query epoch, that the light-time shift never reaches the caller's Epoch object, and - as a necessary condition of the elongation clause - at which epoch the Sun is taken; for minor bodies that every orbit regime actually applies the light time and that the near-parabolic and parabolic solvers are symmetric about perihelion (true anomaly odd, radius even in the time from perihelion - a necessary condition of agreeing with the Kepler-based heliocentric position on both sides of perihelion). The Sun/Earth vector Pluto and the minor bodies are referred to is shown to keep no reference to a caller's mutable Epoch between calls (a memo keyed on the object would serve stale vectors once the caller re-uses it). Pointing accuracy and the elongation values are numerical and not decided. The Kepler solver the elliptic minor-body branch relies on is held to the anomaly-reduction and sign rules of C11 (every linear piece of the mean anomaly, either sign, any number of turns).",
    "note": "Trusted: light-time constant 0.0057755183 d/AU (family constant, must agree across members). Undecided: pointing within 0.02 / 1e-4 deg, elongation value, Mercury/Venus maxima.",
}
PLANETS = ["Mercury", "Venus", "Mars", "Jupiter", "Saturn", "Uranus", "Neptune"]
LT = Fraction("0.0057755183")


def norm_names(x, p):
    """replace the owning class name by a placeholder and re-normalise (operand order must not depend on the planet's name)"""
    pre = p + "." + p + "."

    def rn(s):
        return "<PLANET>." + s[len(pre):] if s.startswith(pre) else s
    return T.renorm(x, rn)


def run(repo, rep, tier):
    rep.decided = ["D1 seven reductions identical", "D2 light time applied to the body, Earth and Sun at the query epoch; Minor regimes; Pluto",
                   "D3 caller's Epoch not shifted", "D4 elongation from acos; Pluto year refusal"]
    rep.undecided = ["pointing accuracy 0.02 / 1e-4 deg", "elongation value", "Mercury/Venus maximum elongation"]
    rep.rule("R-SIB", "clone family members compute the same value-number term")
    rep.rule("R-TAINT-LT", "values at the light-time-shifted epoch flow only into the body's own heliocentric position")
    rep.rule("R-DEP", "the returned direction depends on the light time")
    terms = {}
    for p in PLANETS:
        q = p + ".geocentric_position"
        rep.fn(p, q)
        fn = repo.func(p, q)
        t = ret_term(repo, p, q, arg_terms={fn.args.args[0].arg: ("epoch", T.sym("E"))})
        terms[p] = t
        site = "%s.%s" % (p, q)
        if t[0] != "tuple" or len(t) != 4:
            rep.violation("R-SIB", site, "shape", "does not return (ra, dec, elongation)")
            continue
        body = T.call("%s.%s.geometric_heliocentric_position" % (p, p))
        calls = [x for x in T.walk(t) if x[0] == "call" and x[1] == "%s.%s.geometric_heliocentric_position" % (p, p)]
        epochs = {c[2] for c in calls}
        shifted = [e for e in epochs if e != ("epoch", T.sym("E"))]
        ok_lt = False
        tau = None
        for e in shifted:
            if e[0] == "epoch" and e[1][0] == "add" and T.sym("E") in e[1][1:]:
                rest = [s for s in e[1][1:] if s != T.sym("E")]
                if len(rest) == 1:
                    c, r = T.split_coeff(rest[0])
                    if c == -LT and r[0] == "call" and r[1] == "sqrt":
                        ok_lt = True
                        tau = T.neg(rest[0])
        radec = ("tuple", t[1], t[2])
        dep = tau is not None and any(x == tau or (x[0] == "epoch" and x == shifted[0]) for x in T.walk(radec)) if shifted else False
        if ok_lt and ("epoch", T.sym("E")) in epochs and dep:
            rep.ok("R-DEP", site, "body at epoch - 0.0057755183*distance (distance from the first pass at the query epoch); ra/dec depend on it", sample=(p == "Venus"))
        else:
            rep.violation("R-DEP", site, "light-time", "the returned direction is not computed from the body's position one light time (0.0057755183 d/AU x distance) earlier")
        earth = [x for x in T.walk(t) if x[0] == "call" and x[1] == "Earth.Earth.geometric_heliocentric_position"]
        if earth and all(c[2] == ("epoch", T.sym("E")) for c in earth):
            rep.ok("R-TAINT-LT", site + ":earth", "Earth's heliocentric position taken at the query epoch", sample=False)
        else:
            rep.violation("R-TAINT-LT", site, "earth-epoch", "the Earth's position is not taken at the (unshifted) query epoch")
        suns = [x for x in T.walk(t[3]) if x[0] == "call" and x[1] == "Sun.Sun.apparent_geocentric_position"]
        if not suns:
            rep.violation("R-TAINT-LT", site, "no-sun", "the elongation does not use the Sun's apparent position")
        elif all(c[2] == ("epoch", T.sym("E")) for c in suns):
            rep.ok("R-TAINT-LT", site + ":sun", "Sun for the elongation taken at the query epoch")
        else:
            # quantitative three-valued verdict: the Sun moves 0.95..1.02 deg/day; the shift is tau = LT * distance
            oe = repo.mod(p).literal("ORBITAL_ELEM")
            a_p, e_p = oe[1][0], oe[2][0]
            eo = repo.mod("Earth").literal("ORBITAL_ELEM")
            a_e, e_e = eo[1][0], eo[2][0]
            dmax = a_p * (1 + e_p) + a_e * (1 + e_e)
            dmin = abs(a_p * (1 - e_p) - a_e * (1 + e_e)) if a_p > a_e else 0.0
            upper = 1.02 * float(LT) * dmax
            lower = 0.95 * float(LT) * dmin
            what = ("the elongation is measured against the Sun at the light-time-shifted epoch (`epoch -= tau` rebinds the name later passed to "
                    "Sun.apparent_geocentric_position); Sun's motion x light time = %.4f..%.4f deg (distance %.2f..%.2f AU) vs the property's 0.02 deg"
                    % (lower, upper, dmin, dmax))
            if upper <= 0.02:
                rep.ok("R-TAINT-LT", site + ":sun", "Sun taken at epoch - tau, but the induced elongation error <= %.4f deg < 0.02 deg: PROVED harmless" % upper)
            elif lower >= 0.02:
                rep.violation("R-TAINT-LT", site, "sun-epoch-shifted", what + ": REFUTED")
            else:
                rep.inconcl("R-TAINT-LT", site, what)
        el = radians_of_angle(t[3])
        if el is not None and el[0] == "call" and el[1] == "acos":
            rep.ok("R-E4-ID", site + ":elongation", "elongation = Angle(acos(.), radians=True): in [0, 180]", sample=False)
        else:
            rep.violation("R-E4-ID", site, "elongation-form", "elongation is not Angle(acos(.), radians=True)")
    ref = norm_names(terms["Venus"], "Venus")
    for p in PLANETS:
        if norm_names(terms[p], p) == ref:
            rep.ok("R-SIB", "%s.%s.geocentric_position" % (p, p), "identical to the six sibling reductions (value numbers equal)", sample=(p == "Mars"))
        else:
            rep.violation("R-SIB", "%s.%s.geocentric_position" % (p, p), "differs", "reduction differs from its siblings")
    pluto(repo, rep)
    minor(repo, rep)
    minor_time_symmetry(repo, rep)
    minor_orientation(repo, rep)
    fam = [(p, p + ".geocentric_position") for p in PLANETS] + [("Pluto", "Pluto.geocentric_position"), ("Pluto", "Pluto.geometric_heliocentric_position"),
           ("Minor", "Minor.geocentric_position"), ("Minor", "Minor.heliocentric_ecliptical_position"), ("Minor", "Minor._near_parabolic"), ("Minor", "Minor.set"),
           # the Sun/Earth vector Pluto and the minor bodies are referred to: must depend on its epoch argument only
           ("Sun", "Sun.rectangular_coordinates_j2000")]
    timearg_scan(repo, rep, fam)
    units.check_functions(repo, rep, fam)
    guards.check_functions(repo, rep, fam)
    effects.check_functions(repo, rep, fam)
    stateless_scan(repo, rep, fam)
    # Minor's elliptic branch places the body through the shared Kepler solver: its anomaly reduction and sign bookkeeping (rule of C11)
    from .c11 import kepler_rules
    kepler_rules(repo, rep)
    # premise of the evaluator: Angle / Epoch operators mean what their names say and leave their operands alone
    from ..premises import operator_semantics
    operator_semantics(repo, rep)
    return "other"


def pluto(repo, rep):
    q = "Pluto.geocentric_position"
    rep.fn("Pluto", q)
    fn = repo.func("Pluto", q)
    outs = outcomes(repo, "Pluto", q, arg_terms={fn.args.args[0].arg: ("epoch", T.sym("E"))})
    site = "Pluto." + q
    isyear = lambda t: t == T.call("Epoch.Epoch.year", ("epoch", T.sym("E")))
    ok, msg = refusal_check(outs, "ValueError", [cmp_is("Lt", isyear, 1885), cmp_is("Gt", isyear, 2099)], "year < 1885 or year > 2099")
    if not ok:
        # the range test may live in the heliocentric routine this one calls first with the very same epoch
        t0 = symx.return_term(outs)
        inner = [x for x in (T.walk(t0) if t0 is not None else []) if x[0] == "call" and x[1] == "Pluto.Pluto.geometric_heliocentric_position"
                 and x[2:] == (("epoch", T.sym("E")),)]
        if inner:
            f2 = repo.func("Pluto", "Pluto.geometric_heliocentric_position")
            outs2 = outcomes(repo, "Pluto", "Pluto.geometric_heliocentric_position", arg_terms={f2.args.args[0].arg: ("epoch", T.sym("E"))})
            ok, msg2 = refusal_check(outs2, "ValueError", [cmp_is("Lt", isyear, 1885), cmp_is("Gt", isyear, 2099)], "year < 1885 or year > 2099")
            if ok:
                msg = "refusal delegated to geometric_heliocentric_position(epoch), called with the query epoch: " + msg2
    if ok:
        rep.ok("R-RANGE-REFUSE", site, msg)
    else:
        rep.violation("R-RANGE-REFUSE", site, "range-1885-2099", msg)
    t = symx.return_term(outs)
    calls = [x for x in T.walk(t) if x[0] == "call" and x[1] == "Pluto.Pluto.geometric_heliocentric_position"]
    eps = {c[2] for c in calls}
    shifted = [e for e in eps if e != ("epoch", T.sym("E"))]
    ok = False
    for e in shifted:
        if e[0] == "epoch" and e[1][0] == "add" and T.sym("E") in e[1][1:]:
            rest = [s for s in e[1][1:] if s != T.sym("E")]
            if len(rest) == 1 and T.split_coeff(rest[0])[0] == -LT:
                ok = True
    dep = any(x in shifted for x in T.walk(("tuple", t[1], t[2]))) if t[0] == "tuple" else False
    suns = [x for x in T.walk(t) if x[0] == "call" and x[1] == "Sun.Sun.rectangular_coordinates_j2000"]
    if ok and dep and suns and all(c[2] == ("epoch", T.sym("E")) for c in suns):
        rep.ok("R-DEP", site, "Pluto at epoch - 0.0057755183*distance, Sun vector at the query epoch; ra/dec depend on the shifted position")
    else:
        rep.violation("R-DEP", site, "light-time", "Pluto's direction is not built from its position one light time earlier and the Sun vector at the query epoch")


def _definite(v, r, why):
    """a definite asymmetry: the anomaly is even / the radius odd, or an even and an odd quantity were added and
    the sum reaches the result; anything the analysis merely does not understand is reported as inconclusive"""
    return v.p == "E" or r.p == "O" or "sum of an even and an odd quantity" in str(why)


def minor_orientation(repo, rep):
    """R-RECIPE (Minor.set): the six orientation constants that geocentric_position uses (Meeus 33.7) are
        F = cos Om, G = sin Om cos eps, H = sin Om sin eps, P = -sin Om cos i, Q = cos Om cos i cos eps - sin i sin eps,
        R = cos Om cos i sin eps + sin i cos eps;  A = atan2(F, P), B = atan2(G, Q), C = atan2(H, R), a = sqrt(F^2 + P^2), ...
    as terms in (Om, i) - for every orientation, retrograde orbits (cos i < 0) included.  heliocentric_ecliptical_position reads
    i directly, so a constant that loses the sign of cos i makes the two routines disagree for i > 90 deg."""
    from ..poly import Algebra
    from ..rules import D2R
    rep.rule("R-RECIPE", "orientation constants of Minor.set equal the published expressions in (Omega, i) as terms (polynomial normal form in sin/cos atoms)")
    q = "Minor.set"
    site = "Minor." + q
    rep.fn("Minor", q)
    fn = repo.func("Minor", q)
    nm = [a_.arg for a_ in fn.args.args]
    if nm != ["self", "q", "e", "i", "omega", "w", "t"]:
        rep.inconcl("R-RECIPE", site, "signature is not (q, e, i, omega, w, t)")
        return
    at = {"self": T.sym("self"), "q": T.sym("NUM_Q"), "e": T.sym("NUM_E"), "i": ("angle", T.sym("I")), "omega": ("angle", T.sym("OM")),
          "w": ("angle", T.sym("W")), "t": ("epoch", T.sym("T0"))}
    outs = [o for o in outcomes(repo, "Minor", q, arg_terms=at) if o.kind in ("ret", "fall")]
    if not outs:
        rep.inconcl("R-RECIPE", site, "no value-setting path")
        return
    env = outs[0].env
    om, inc = T.mul(T.sym("OM"), D2R), T.mul(T.sym("I"), D2R)
    sn, cs = (lambda x: T.call("sin", x)), (lambda x: T.call("cos", x))
    alg = Algebra(atomize=True)
    # eps: taken from the code's own constants (sin eps, cos eps of J2000): identified as the two numeric factors of G and H
    fields = {k_: env.get("self._" + k_) for k_ in ("aa", "bb", "cc", "am", "bm", "cm")}
    if any(v is None for v in fields.values()) or any(fields[k_][0] != "call" or fields[k_][1] != "atan2" for k_ in ("aa", "bb", "cc")):
        rep.inconcl("R-RECIPE", site, "orientation constants are not stored as atan2(.., ..) / sqrt(..) fields _aa.._cm")
        return
    F_, P_ = fields["aa"][2], fields["aa"][3]
    G_, Q_ = fields["bb"][2], fields["bb"][3]
    H_, R_ = fields["cc"][2], fields["cc"][3]
    try:
        cg, rg = T.split_coeff(G_)
        ch, rh = T.split_coeff(H_)
        if rg != sn(om) or rh != sn(om) or not (0 < cg < 1 and 0 < ch < 1) or abs(float(cg * cg + ch * ch) - 1.0) > 1e-6:
            rep.violation("R-RECIPE", site, "orientation:GH", "G, H are not sin(Omega) * (cos eps, sin eps) of one obliquity: %s ; %s" % (T.show(G_)[:60], T.show(H_)[:60]), obligation=True)
            return
        ce, se = T.num(cg), T.num(ch)
        want = {"F": cs(om), "P": T.mul(T.num(-1), sn(om), cs(inc)),
                "Q": T.sub(T.mul(cs(om), cs(inc), ce), T.mul(sn(inc), se)), "R": T.add(T.mul(cs(om), cs(inc), se), T.mul(sn(inc), ce))}
        got = {"F": F_, "P": P_, "Q": Q_, "R": R_}
        bad = [k_ for k_ in ("F", "P", "Q", "R") if not alg.equal(got[k_], want[k_])]
        mods = {"am": T.add(T.mul(F_, F_), T.mul(P_, P_)), "bm": T.add(T.mul(G_, G_), T.mul(Q_, Q_)), "cm": T.add(T.mul(H_, H_), T.mul(R_, R_))}
        for k_, w_ in mods.items():
            v = fields[k_]
            if not (v[0] == "call" and v[1] == "sqrt" and alg.equal(v[2], w_)):
                bad.append(k_)
    except Exception as e:
        rep.inconcl("R-RECIPE", site, "orientation constants not comparable: %s" % e)
        return
    if bad:
        rep.violation("R-RECIPE", site, "orientation:" + ",".join(bad),
                      "orientation constant(s) %s differ from the published expressions in (Omega, i); e.g. %s = %s - for retrograde orbits (cos i < 0) a form like "
                      "sqrt(1 - sin^2 i) loses the sign and geocentric_position works in the mirrored orbit plane" % (", ".join(bad), bad[0], T.show(got.get(bad[0], fields.get(bad[0])))[:100]),
                      obligation=True)
    else:
        rep.ok("R-RECIPE", site, "F, G, H, P, Q, R and the moduli a, b, c are the published expressions in (Omega, i), valid for every inclination", obligation=True)


def minor_time_symmetry(repo, rep):
    """R-PARITY: two-body motion is symmetric about perihelion: v(-t) = -v(t), r(-t) = r(t).  The Kepler path
    (heliocentric_ecliptical_position, and geocentric_position for e < 0.98) has this symmetry by construction
    of kepler_equation; the near-parabolic and parabolic solvers must have it too, otherwise the geocentric
    direction cannot agree with the library's own heliocentric position on both sides of perihelion."""
    import ast
    from .. import parity
    from ..frontend import body_without_docstring, norm_text
    rep.rule("R-PARITY", "parity analysis (abstract interpretation over {zero, even, odd, unknown} with sign transfer, peeled loops): "
                         "true anomaly odd and radius even in the time from perihelion, every branch and loop test even")
    n = 0
    # ---- the near-parabolic solver
    q = "Minor._near_parabolic"
    fn = repo.func("Minor", q)
    tname = fn.args.args[1].arg
    try:
        res, _ = parity.analyse(body_without_docstring(fn), odd_names=[tname])
        ret = parity.summarise_returns(res)
    except NotImplementedError as e:
        rep.inconcl("R-PARITY", "Minor." + q, str(e))
        res, ret = None, "skip"
    site = "Minor." + q
    if ret == "skip":
        n += 1
    elif ret is None or len(ret) != 2:
        n += 1
        rep.inconcl("R-PARITY", site, "does not return a (true anomaly, radius) pair on every path")
    else:
        n += 1
        v, r = ret
        if v.p in ("O", "Z") and r.p in ("E",) and not res.bad_conds:
            rep.ok("R-PARITY", site, "v(-t) = -v(t) (mod 360), r(-t) = r(t): %d statements, %d loops, %d sign transfer(s), every test even"
                   % (res.stmts, res.loops, res.sign_transfers), obligation=True)
        else:
            why = v.why if v.p == "T" else r.why if r.p == "T" else res.bad_conds[0][2] if res.bad_conds else "parities (%s, %s)" % (v.p, r.p)
            if _definite(v, r, why):
                rep.violation("R-PARITY", site, "asymmetric:perihelion",
                              "the near-parabolic solver is not symmetric about perihelion (true anomaly %s, radius %s under t -> -t): %s"
                              % (v.p, r.p, why), obligation=True)
            else:
                rep.inconcl("R-PARITY", site, "symmetry about perihelion not established: " + str(why)[:200])
    # ---- the parabolic blocks of geocentric_position
    q = "Minor.geocentric_position"
    fn = repo.func("Minor", q)
    blocks = []
    for node in ast.walk(fn):
        if isinstance(node, ast.If) and any(isinstance(x, ast.While) for b in node.body for x in ast.walk(b)) \
                and "1.0" in norm_text(node.test) and "abs(" in norm_text(node.test):
            blocks.append(node)
    for k, node in enumerate(sorted(blocks, key=lambda x: x.lineno)):
        site = "Minor.%s:parabolic#%d" % (q, k + 1)
        try:
            res, env = parity.analyse(node.body, odd_names=["t_peri"], odd_exprs=["epoch - self._t", "epoch - t"])
        except NotImplementedError as e:
            rep.inconcl("R-PARITY", site, str(e))
            continue
        v, r = (env or {}).get("v"), (env or {}).get("rr")
        if v is None or r is None:
            rep.inconcl("R-PARITY", site, "the block does not assign v and rr")
            continue
        n += 1
        if v.p == "O" and r.p == "E" and not res.bad_conds:
            rep.ok("R-PARITY", site, "parabolic branch: v odd, r even in the time from perihelion", obligation=True)
        else:
            why = v.why if v.p == "T" else r.why if r.p == "T" else res.bad_conds[0][2] if res.bad_conds else "parities (%s, %s)" % (v.p, r.p)
            if _definite(v, r, why):
                rep.violation("R-PARITY", "Minor." + q, "asymmetric:parabolic#%d" % (k + 1),
                              "the parabolic branch is not symmetric about perihelion (true anomaly %s, radius %s under t -> -t): %s"
                              % (v.p, r.p, why), obligation=True)
            else:
                rep.inconcl("R-PARITY", site, "symmetry about perihelion not established: " + str(why)[:200])
    rep.floor("time-symmetry instances (near-parabolic solver [+ parabolic blocks where they are recognisable])", n, 1)


def minor(repo, rep):
    q = "Minor.geocentric_position"
    rep.fn("Minor", q)
    fn = repo.func("Minor", q)
    ename = fn.args.args[1].arg
    regimes = {"elliptic (e = 0.5)": Fraction(1, 2), "parabolic (e = 1)": Fraction(1), "near-parabolic (e = 0.99)": Fraction(99, 100)}
    for name, ev in regimes.items():
        extra = {"self._t": ("epoch", T.sym("TP")), "self._e": ("num", ev), "self._tol": ("num", Fraction("1e-10")), "self._w": ("angle", T.sym("W"))}
        outs, _ = symx.eval_function(repo, "Minor", q, arg_terms={ename: ("epoch", T.sym("E"))}, extra_env=extra)
        t = symx.return_term(outs)
        site = "Minor.%s[%s]" % (q, name)
        if t is None or t[0] != "tuple" or len(t) != 4:
            rep.violation("R-DEP", site, "shape", "does not return (ra, dec, elongation)")
            continue
        taus = [x for x in T.walk(t) if x[0] == "mul" and x[1] in (("num", LT), ("num", -LT)) and any(y[0] == "call" and y[1] == "sqrt" for y in x[2:])]
        if not taus:
            opaque = [x for x in T.walk(t) if x[0] == "call" and isinstance(x[1], str) and (x[1].startswith(".") or x[1] in ("apply", "generator"))]
            if opaque:
                # the position goes through objects / methods the evaluator does not model: the dependence on the light time cannot be read off
                rep.inconcl("R-DEP", site, "light-time dependence not readable: unmodelled call `%s`" % opaque[0][1])
            else:
                rep.violation("R-DEP", site, "tau-ignored", "the light time 0.0057755183 * distance never reaches the returned values in this orbit regime")
            continue
        tau = taus[0]
        radec = ("tuple", t[1], t[2])
        # atan2(eta, xi): xi = x + xs where x is the second-pass position; it must depend on tau
        dep = any(x == tau for x in T.walk(radec))
        if dep:
            rep.ok("R-DEP", site, "second-pass position (hence ra/dec) depends on the light time")
        else:
            rep.violation("R-DEP", site, "tau-ignored",
                          "in this orbit regime the light-time-corrected pass recomputes the anomaly from the uncorrected time since perihelion: "
                          "the returned ra/dec do not depend on tau at all")
    # Sun vector at the query epoch
    outs, _ = symx.eval_function(repo, "Minor", q, arg_terms={ename: ("epoch", T.sym("E"))},
                                 extra_env={"self._t": ("epoch", T.sym("TP")), "self._e": ("num", Fraction(1, 2)), "self._tol": ("num", Fraction("1e-10"))})
    t = symx.return_term(outs)
    suns = [x for x in T.walk(t) if x[0] == "call" and x[1] == "Sun.Sun.rectangular_coordinates_j2000"]
    if suns and all(c[2] == ("epoch", T.sym("E")) for c in suns):
        rep.ok("R-TAINT-LT", "Minor." + q + ":sun", "Sun vector taken at the query epoch")
    else:
        rep.violation("R-TAINT-LT", "Minor." + q, "sun-epoch", "the Sun's rectangular coordinates are not taken at the query epoch")
