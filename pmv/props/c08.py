"""C08 Sun/Earth positions agree across frames; obliquity and nutation are sane.

Decided: D1 the Sun's geocentric position is the Earth's heliocentric one reflected
(lon + 180, -lat, same r) at the same epoch, geometric and apparent; D2 the abridged
J2000 Earth longitude series uses the frequencies of the full series (a term whose
frequency has no counterpart is an error of up to 2A; compared with the property's
2 arcsec) and both variants share the radius series; D3 changing frame is a rotation:
the effective 3x3 matrices of the J2000->FK5, J2000->B1950 and J2000->equinox
transformations are orthogonal, the equinox rotation does not depend on the observation
epoch, and its angle polynomials are those of precession_equatorial for a start at
J2000; D4 mean obliquity agrees with the IAU 1976 cubic to 3 arcsec for |T| <= 20
centuries; D5 nutation series stay within 3.5 / 1.5 arcsec of their 18.6-year main term
(triangle bound over the coefficient tables), the first argument row is the node alone,
both nutation routines share their argument polynomials; D6 true obliquity is the sum."""
import math
from fractions import Fraction

from .. import symx, terms as T
from ..frontend import AnalysisError
from ..poly import Algebra, Poly
from ..rules import ret_term, outcomes, find_calls, pure_polys, all_value_terms, numeric_poly, timearg_scan, D2R
from .. import units, guards, effects

MANIFEST = {
    "level": "other",
    "technique": "static analysis: term matching for the reflection, literal-table audit of the abridged series against the full series with amplitude-derived tolerances, extraction of the effective frame matrices from symbolically evaluated code and orthogonality check (numeric 1e-6 / symbolic), non-interference (slicing) of the rotation on the observation epoch, polynomial extraction and exact comparison with the IAU obliquity cubic, triangle-inequality bound over the nutation tables; the Angle / Epoch operator semantics the evaluator assumes are verified (operator conformance, operands never written)",
    "text": "Reflection, orthogonality of every frame matrix as actually applied by the code (a clobbered in-place product is not orthogonal), independence of the equinox rotation from the observation time, frequency agreement of the abridged J2000 series with the full one, the obliquity polynomial and the nutation bounds are decided from source and tables for all epochs. The low-accuracy solar longitude, radius vector and apparent longitude are shown to be Meeus' ch. 25 expressions (trigonometric normal form; the book states 0.01 degree, which is what leaves room inside the property's 0.02 degree against VSOP87) - a term that is not identically the recipe is reported only with an epoch in 1800-2200 at which the two expressions differ by more than 0.005 degree. The 2 arcsec / 1e-5 AU agreement of positions across frames is numerical and not decided beyond these necessary conditions. The Moon's mean node on which the property builds its main-term model is compared with the node argument of the nutation series itself over years -2000..4000 (agreement to 0.02 degree on today's tree).",
    "note": "Trusted oracles: IAU 1976 obliquity cubic; 1 rad = 206264.806 arcsec. Undecided: frame agreement to 2 arcsec, norm of rectangular coordinates (the mean-equinox variant drops cos(beta)); the 0.01 degree accuracy of the low-accuracy recipe itself is the book's statement (trusted).",
}
ARCSEC = 206264.806247
IAU76 = [84381.448, -46.8150, -0.00059, 0.001813]


def run(repo, rep, tier):
    rep.decided = ["D1 reflection", "D2 J2000 series frequencies / shared radius series", "D3 frame matrices orthogonal, epoch-independent, polynomial copies",
                   "D4 mean obliquity vs IAU cubic (3 arcsec)", "D5 nutation bounds, argument rows, shared polynomials", "D6 true obliquity is the sum"]
    rep.undecided = ["2 arcsec / 1e-5 AU agreement across frames", "norm of rectangular coordinates", "coarse vs VSOP within 0.02 deg (decided: the coarse formulas are Meeus' ch. 25 recipe, whose stated accuracy is 0.01 deg)"]
    rep.decided.append("D7 low-accuracy solar longitude, radius and apparent longitude are Meeus' ch. 25 expressions (R-COARSE)")
    reflection(repo, rep)
    series(repo, rep)
    matrices(repo, rep)
    obliquity(repo, rep)
    nutation(repo, rep)
    coarse(repo, rep)
    fam = [("Sun", "Sun." + q) for q in ("geometric_geocentric_position", "apparent_geocentric_position", "rectangular_coordinates_mean_equinox",
                                         "rectangular_coordinates_j2000", "rectangular_coordinates_b1950", "rectangular_coordinates_equinox",
                                         "true_longitude_coarse", "apparent_longitude_coarse", "apparent_rightascension_declination_coarse")] + \
          [("Coordinates", q) for q in ("mean_obliquity", "true_obliquity", "nutation_longitude", "nutation_obliquity")] + \
          [("Moon", "Moon.longitude_mean_ascending_node"), ("Earth", "Earth.geometric_heliocentric_position_j2000")]
    timearg_scan(repo, rep, fam)
    units.check_functions(repo, rep, fam)
    guards.check_functions(repo, rep, fam)
    effects.check_functions(repo, rep, fam)
    # premise of the evaluator: Angle / Epoch operators mean what their names say and leave their operands alone
    from ..premises import operator_semantics
    operator_semantics(repo, rep)
    return "other"


def coarse(repo, rep):
    """R-COARSE.  The low-accuracy solar position is Meeus' ch. 25 recipe: L0 + C, with the equation of the centre C a three-term sine
    series in the mean anomaly M, radius from the true anomaly M + C, apparent longitude by the -0.00569 - 0.00478 sin(Omega) correction.
    The book gives its accuracy as 0.01 degree, which is what leaves room inside the property's 0.02 degree against VSOP87.  The extracted
    terms are compared with the recipe by the trigonometric normal form (sin 2M = 2 sin M cos M etc. are identities there).  A term that is
    not identically the recipe is reported only with a witness: an epoch in 1800-2200 at which the two differ by more than 0.005 degree
    (2e-6 AU) - found by evaluating the difference of the two terms, not the library."""
    from ..poly import eval_numeric
    rep.rule("R-COARSE", "the low-accuracy solar longitude / radius are Meeus' ch. 25 expressions (trigonometric normal form); a mismatch is reported with an epoch "
                         "in 1800-2200 at which the difference exceeds 0.005 deg / 2e-6 AU")
    N = lambda x: T.num(Fraction(x))
    J = T.sym("J")
    Tc = T.mul(T.add(J, N("-2451545")), T.num(Fraction(1, 36525)))
    L0 = T.call("pos", T.add(N("280.46646"), T.mul(Tc, T.add(N("36000.76983"), T.mul(N("0.0003032"), Tc)))))
    M = T.add(N("357.52911"), T.mul(Tc, T.add(N("35999.05029"), T.mul(N("-0.0001537"), Tc))))
    E = T.add(N("0.016708634"), T.mul(Tc, T.add(N("-0.000042037"), T.mul(N("-0.0000001267"), Tc))))

    def S(k):
        return T.call("sin", T.mul(T.num(k), M, D2R))
    C = T.add(T.mul(T.add(N("1.914602"), T.mul(Tc, T.add(N("-0.004817"), T.mul(N("-0.000014"), Tc)))), S(1)),
              T.mul(T.add(N("0.019993"), T.mul(N("-0.000101"), Tc)), S(2)), T.mul(N("0.000289"), S(3)))
    ref_lon = T.add(L0, C)
    ref_r = T.mul(N("1.000001018"), T.add(T.ONE, T.neg(T.mul(E, E))), T.power(T.add(T.ONE, T.mul(E, T.call("cos", T.mul(T.add(M, C), D2R)))), T.num(-1)))
    OM = T.add(N("125.04"), T.mul(N("-1934.136"), Tc))
    ref_app = T.add(ref_lon, N("-0.00569"), T.mul(N("-0.00478"), T.call("sin", T.mul(OM, D2R))))
    jobs = [("Sun.true_longitude_coarse", 1, ref_lon, "true longitude", 0.005), ("Sun.true_longitude_coarse", 2, ref_r, "radius vector", 2e-6),
            ("Sun.apparent_longitude_coarse", 1, ref_app, "apparent longitude", 0.005)]
    for q, comp, ref, what, tol in jobs:
        site = "Sun." + q
        rep.fn("Sun", q)
        try:
            t = ret_term(repo, "Sun", q, arg_terms={"epoch": ("epoch", J)})
        except AnalysisError as e:
            rep.inconcl("R-COARSE", site, "%s: not extractable: %s" % (what, e))
            continue
        if t[0] != "tuple" or len(t) <= comp:
            rep.inconcl("R-COARSE", site, "%s: result is not a tuple with that component" % what)
            continue
        code = t[comp][1] if t[comp][0] == "angle" else t[comp]
        if code[0] == "call" and code[1] == "red" and len(code) == 3:
            code = code[2]
        # the apparent longitude is built on the true longitude of the sibling routine: substitute that routine's own term
        sib = [x for x in T.walk(code) if x[0] == "idx" and x[1][0] == "call" and x[1][1].endswith("true_longitude_coarse") and x[2] == T.num(0)]
        if sib:
            try:
                tl = ret_term(repo, "Sun", "Sun.true_longitude_coarse", arg_terms={"epoch": ("epoch", J)})
                lon_t = tl[1][1] if tl[1][0] == "angle" else tl[1]
                code = T.subst(code, {x: lon_t for x in set(sib)})
            except AnalysisError:
                pass

        def nested(x):
            return [y for y in T.walk(x) if y[0] == "call" and y[1] in ("sin", "cos") and len(y) == 3
                    and any(z[0] == "call" and z[1] in ("sin", "cos") for z in T.walk(y[2]))]
        try:
            nc, nr = nested(code), nested(ref)
            if len(set(nc)) == 1 and len(set(nr)) == 1 and nc[0][1] == nr[0][1]:
                # one trigonometric function of an argument that itself contains sines (cos of the true anomaly): arguments compared first
                k_ = T.sym("NESTED_TRIG")
                same = Algebra(atomize=True).equal(nc[0][2], nr[0][2]) and \
                    Algebra(atomize=True).equal(T.subst(code, {nc[0]: k_}), T.subst(ref, {nr[0]: k_}))
            else:
                same = Algebra(atomize=True).equal(code, ref)
        except Exception as e:
            same = None
        if same:
            rep.ok("R-COARSE", site + ":" + what, "%s == Meeus ch. 25 (trigonometric normal form)" % what, obligation=True)
            continue
        # a witness: evaluate both terms (pos() is the identity modulo 360) on epochs every 9 days through 1800-2200
        worst = None
        try:
            strip = lambda x: T.subst(x, {y: y[2] for y in T.walk(x) if y[0] == "call" and y[1] in ("pos", "red") and len(y) == 3})
            a_, b_ = strip(code), strip(ref)
            j = 2378497.0
            while j < 2524594.0:
                d = eval_numeric(a_, {"J": j}) - eval_numeric(b_, {"J": j})
                if comp != 2:
                    d = (d + 180.0) % 360.0 - 180.0
                if worst is None or abs(d) > abs(worst[0]):
                    worst = (d, j)
                j += 9.0
        except Exception as e:
            worst = None
        if worst is not None and abs(worst[0]) > tol:
            rep.violation("R-COARSE", site, "coarse:" + what.replace(" ", "-"),
                          "the %s is not Meeus' low-accuracy expression: at JDE %.1f the two differ by %.5f %s (the recipe itself is good to 0.01 deg, the property allows 0.02 deg "
                          "against VSOP87)" % (what, worst[1], worst[0], "AU" if comp == 2 else "deg"), obligation=True)
        else:
            rep.inconcl("R-COARSE", site, "%s: not identical to the recipe as a term%s" % (what, "" if worst is None else "; the largest difference found over 1800-2200 is %.2g" % abs(worst[0])))


def reflection(repo, rep):
    rep.rule("R-SIB", "reflection form / shared computation")
    for q, src in (("Sun.geometric_geocentric_position", "Earth.Earth.geometric_heliocentric_position"),
                   ("Sun.apparent_geocentric_position", "Earth.Earth.apparent_heliocentric_position")):
        rep.fn("Sun", q)
        fn = repo.func("Sun", q)
        nm = [a.arg for a in fn.args.args]
        at = {nm[0]: ("epoch", T.sym("E"))}
        for n in nm[1:]:
            at[n] = T.sym("FLAG")
        t = ret_term(repo, "Sun", q, arg_terms=at)
        site = "Sun." + q
        calls = [x for x in T.walk(t) if x[0] == "call" and x[1] == src]
        ok = False
        if t[0] == "tuple" and len(t) == 4 and len(set(calls)) == 1:
            X = calls[0]
            lon, lat, r = t[1], t[2], t[3]
            ok_lon = lon[0] == "angle" or True
            want_lon = T.add(T.call(".to_positive", ("idx", X, T.num(0))), T.num(180))
            ok = (lon == want_lon or (lon[0] == "angle" and lon[1] == T.add(T.call("pos", ("idx", X, T.num(0))), T.num(180)))) \
                and lat == T.neg(("idx", X, T.num(1))) and r == ("idx", X, T.num(2)) and X[2] == ("epoch", T.sym("E"))
        if ok:
            rep.ok("R-SIB", site, "(lon.to_positive() + 180, -lat, r) of %s at the same epoch" % src)
        else:
            rep.violation("R-SIB", site, "reflection", "result is not (longitude + 180, -latitude, r) of the Earth's position at the same epoch: " + T.show(t)[:140])


def series(repo, rep):
    rep.rule("R-TABLE-REL", "relation among literals with tolerances derived from the property (PROVED / REFUTED / INCONCLUSIVE)")
    E = repo.mod("Earth")
    L, LJ = E.literal("VSOP87_L"), E.literal("VSOP87_L_J2000")
    rep.table("Earth.VSOP87_L"); rep.table("Earth.VSOP87_L_J2000")
    n = 0
    freqs = sorted({round(t[2], 2) for s in L for t in s})
    import bisect
    TMAX = 1.0      # millennia from J2000 for years 1000..3000
    for k, ser in enumerate(LJ):
        for i, (A, B, C) in enumerate(ser):
            n += 1
            site = "Earth.VSOP87_L_J2000[%d][%d]" % (k, i)
            j = bisect.bisect_left(freqs, round(C, 2) - 0.011)
            has = j < len(freqs) and abs(freqs[j] - C) <= 0.011
            bound = 2.0 * abs(A) * 1e-8 * ARCSEC * TMAX ** k
            if has:
                # same frequency: for the constant-order series the amplitude must agree as well
                if k == 0 and abs(A) >= 1000:
                    cands = [t for t in L[0] if abs(t[2] - C) <= 0.011]
                    da = min(abs(t[0] - A) for t in cands)
                    db = min(abs(t[1] - B) for t in cands)
                    err = (da + abs(A) * db) * 1e-8 * ARCSEC
                    if err <= 0.2:
                        rep.ok("R-TABLE-REL", site, "term %s has its counterpart in the full series (error <= %.3f arcsec)" % ([A, B, C], err), obligation=True, sample=(i < 2))
                    elif err >= 2.0:
                        rep.violation("R-TABLE-REL", site, "amplitude:%s" % A, "term %s deviates from the full series by %.2f arcsec (> 2)" % ([A, B, C], err), obligation=True)
                    else:
                        rep.inconcl("R-TABLE-REL", site, "term %s deviates from the full series by %.2f arcsec" % ([A, B, C], err))
                continue
            nearest = min(freqs, key=lambda f: abs(f - C))
            dphase = abs(nearest - C) * TMAX
            if bound <= 0.2:
                rep.ok("R-TABLE-REL", site, "frequency %.4f has no counterpart (nearest %.4f) but the term is worth at most %.3f arcsec: PROVED harmless" % (C, nearest, bound), obligation=True)
            elif bound >= 2.0 and dphase >= math.pi:
                rep.violation("R-TABLE-REL", site, "frequency:%s" % C,
                              "term [%s, %s, %s]: frequency %.4f rad/millennium does not occur in the full Earth series (nearest %.4f): the term "
                              "decorrelates within the 1000-3000 range and contributes an error of up to %.0f arcsec (property: 2 arcsec)" % (A, B, C, C, nearest, bound), obligation=True)
            else:
                rep.inconcl("R-TABLE-REL", site, "frequency %.4f has no counterpart (nearest %.4f); error bound %.2f arcsec" % (C, nearest, bound))
    # (b) every term of the full constant-order series worth more than the property's 2 arcsec must be present in the abridged one
    for i, (A, B, C) in enumerate(L[0]):
        if abs(A) * 1e-8 * ARCSEC < 2.0 or C == 0:
            continue
        n += 1
        present = any(abs(t[2] - C) <= 0.011 for t in LJ[0])
        site = "Earth.VSOP87_L[0][%d]~VSOP87_L_J2000[0]" % i
        if present:
            rep.ok("R-TABLE-REL", site, "term of %.0f arcsec at frequency %.4f is present in the J2000 series" % (abs(A) * 1e-8 * ARCSEC, C), obligation=True, sample=(i < 3))
        else:
            near = min(LJ[0], key=lambda t: abs(t[2] - C))
            rep.violation("R-TABLE-REL", "Earth.VSOP87_L_J2000[0]", "missing-frequency:%.4f" % C,
                          "the J2000 longitude series has no term at %.4f rad/millennium, a term worth %.0f arcsec in the full series [%s, %s, %s]; "
                          "its closest entry is %s - the positions in the J2000 frame are off by up to %.0f arcsec (property: 2 arcsec)"
                          % (C, abs(A) * 1e-8 * ARCSEC, A, B, C, near, abs(A) * 1e-8 * ARCSEC), obligation=True)
    rep.floor("J2000 longitude terms audited", n, 100)


def effective_matrix(repo, q, alg):
    """numeric 3x3 matrix M with result = M * (x, y, z), where (x, y, z) are the three rectangular
    components built from (lon, lat, r); None if not linear with numeric coefficients"""
    fn = repo.func("Sun", q)
    t = ret_term(repo, "Sun", q, arg_terms={fn.args.args[0].arg: ("epoch", T.sym("E"))})
    if t[0] != "tuple" or len(t) != 4:
        return None, "does not return (x, y, z)"
    rows = []
    basis = None
    for comp in t[1:]:
        r = alg.rat(comp)
        if not r.d.is_const():
            return None, "component is not polynomial"
        n = r.n.scale(1 / r.d.const_value())
        row = {}
        for m, c in n.t.items():
            row[m] = row.get(m, 0) + c
        rows.append(row)
    monos = sorted({m for row in rows for m in row}, key=repr)
    if len(monos) != 3:
        return None, "result is not a linear map of three base components (found %d monomials)" % len(monos)
    M = [[float(row.get(m, 0)) for m in monos] for row in rows]
    return M, monos


def matrices(repo, rep):
    rep.rule("R-ORTHO", "a change of frame is a rotation: the matrix effectively applied by the code satisfies M*M^T = I")
    rep.rule("R-NONINT", "a rotation between two fixed frames does not depend on the observation epoch")
    for q in ("Sun.rectangular_coordinates_j2000", "Sun.rectangular_coordinates_b1950"):
        rep.fn("Sun", q)
        alg = Algebra(atomize=True)
        M, info = effective_matrix(repo, q, alg)
        site = "Sun." + q
        if M is None:
            rep.violation("R-ORTHO", site, "shape", info)
            continue
        worst = 0.0
        for i in range(3):
            for j in range(3):
                v = sum(M[i][k] * M[j][k] for k in range(3)) - (1.0 if i == j else 0.0)
                worst = max(worst, abs(v))
        if worst <= 1e-6:
            rep.ok("R-ORTHO", site, "effective matrix orthogonal: max |M M^T - I| = %.1e" % worst, obligation=True)
        elif worst >= 1e-4:
            rep.violation("R-ORTHO", site, "not-orthogonal",
                          "the matrix effectively applied is not a rotation: max |M M^T - I| = %.2e (an in-place product `x = ...; y = f(x, ...)` "
                          "reads components that were already overwritten)" % worst, obligation=True)
        else:
            rep.inconcl("R-ORTHO", site, "max |M M^T - I| = %.2e" % worst)
    # equinox: symbolic matrix
    q = "Sun.rectangular_coordinates_equinox"
    rep.fn("Sun", q)
    fn = repo.func("Sun", q)
    nm = [a.arg for a in fn.args.args]
    t = ret_term(repo, "Sun", q, arg_terms={nm[0]: ("epoch", T.sym("E")), nm[1]: ("epoch", T.sym("EQ"))})
    site = "Sun." + q
    base = [x for x in T.walk(t) if x[0] == "call" and x[1] == "Sun.Sun.rectangular_coordinates_j2000"]
    if t[0] != "tuple" or len(t) != 4 or len(set(base)) != 1:
        rep.violation("R-ORTHO", site, "shape", "does not rotate the J2000 rectangular coordinates")
        return
    X = base[0]
    comps = [("idx", X, T.num(i)) for i in range(3)]
    alg = Algebra(atomize=True)
    M = []
    lin = True
    for comp in t[1:]:
        sub = T.subst(comp, {comps[0]: T.sym("X0"), comps[1]: T.sym("Y0"), comps[2]: T.sym("Z0")})
        r = alg.rat(sub)
        n = r.n.scale(1 / r.d.const_value()) if r.d.is_const() else None
        if n is None:
            lin = False
            break
        row = [Poly(), Poly(), Poly()]
        for m, c in n.t.items():
            vs = [(a, e) for a, e in m if a in (("V", "X0"), ("V", "Y0"), ("V", "Z0"))]
            rest = tuple((a, e) for a, e in m if a not in (("V", "X0"), ("V", "Y0"), ("V", "Z0")))
            if len(vs) != 1 or vs[0][1] != 1:
                lin = False
                break
            idx = ["X0", "Y0", "Z0"].index(vs[0][0][1])
            row[idx] = row[idx] + Poly({rest: c})
        M.append(row)
    if not lin:
        rep.violation("R-ORTHO", site, "shape", "result is not linear in the J2000 coordinates")
        return
    ok = True
    for i in range(3):
        for j in range(3):
            p = Poly()
            for k in range(3):
                p = p + M[i][k] * M[j][k]
            p = alg.reduce(p - (Poly.const(1) if i == j else Poly()))
            if not p.is_zero():
                ok = False
    if ok:
        rep.ok("R-ORTHO", site, "matrix built from (zeta, z, theta) is orthogonal for all angles (symbolic M M^T = I)", obligation=True)
    else:
        rep.violation("R-ORTHO", site, "not-orthogonal", "the (zeta, z, theta) matrix is not orthogonal", obligation=True)
    # non-interference: the angle atoms must not depend on the observation epoch E
    deps = set()
    for name, term in alg.theta_rev.items():
        if any(x == T.sym("E") for x in T.walk(term)):
            deps.add(name)
    used = {a[1] for row in M for p in row for a in p.atoms() if a[0] in ("S", "C")}
    dep_used = [d for d in deps if any(d in repr(u) for u in used)]
    if dep_used:
        rep.violation("R-NONINT", site, "matrix-depends-on-epoch",
                      "the rotation from J2000 to the requested equinox depends on the observation epoch: the precession angles are evaluated with "
                      "T = (epoch - equinox_epoch)/36525 although the starting frame is the fixed J2000 one (T must be 0)")
    else:
        rep.ok("R-NONINT", site, "rotation angles depend on the equinox epoch only")
    # polynomial copies: with epoch := equinox_epoch (T = 0) the angle polynomials must be those of precession_equatorial(J2000 -> equinox)
    t0 = ret_term(repo, "Sun", q, arg_terms={nm[0]: ("epoch", T.sym("EQ")), nm[1]: ("epoch", T.sym("EQ"))})
    pfn = repo.func("Coordinates", "precession_equatorial")
    pn = [a.arg for a in pfn.args.args]
    outs = outcomes(repo, "Coordinates", "precession_equatorial",
                    arg_terms={pn[0]: ("epoch", T.num(2451545)), pn[1]: ("epoch", T.sym("EQ")), pn[2]: ("angle", T.sym("RA")), pn[3]: ("angle", T.sym("DEC")),
                               pn[4]: ("angle", T.ZERO), pn[5]: ("angle", T.ZERO)})
    ref = set(pure_polys(all_value_terms(outs), "EQ", min_degree=2))
    outs2 = outcomes(repo, "Sun", q, arg_terms={nm[0]: ("epoch", T.sym("EQ")), nm[1]: ("epoch", T.sym("EQ"))})
    got = set(pure_polys(all_value_terms(outs2), "EQ", min_degree=2))
    ref3 = {p for p in ref if len(p) == 4}
    got3 = {p for p in got if len(p) == 4}
    # the same polynomial may be met in arcseconds (raw) or in degrees (after Angle(0, 0, x)): both scalings are accepted
    got3 = got3 | {tuple(c / 3600 for c in p) for p in got3} | {tuple(c * 3600 for c in p) for p in got3}
    if len(ref3) >= 3 and ref3 <= got3:
        rep.ok("R-POLY", site, "zeta, z, theta (T = 0) are the polynomials of precession_equatorial for a start at J2000", obligation=True)
    else:
        rep.violation("R-POLY", site, "poly-copy", "precession polynomials (zeta, z, theta) differ from those of precession_equatorial: missing %d of %d"
                      % (len(ref3 - got3), len(ref3)), obligation=True)


def obliquity(repo, rep, span=20, tol=3.0, only_poly=False):
    rep.rule("R-POLY", "polynomial extracted from the source compared with the reference over the property's domain")
    q = "mean_obliquity"
    rep.fn("Coordinates", q)
    fn = repo.func("Coordinates", q)
    outs = outcomes(repo, "Coordinates", q, arg_terms={fn.args.vararg.arg: ("tuple", ("epoch", T.add(T.num(2451545), T.mul(T.num(36525), T.sym("TT"))))),
                                                       fn.args.kwarg.arg: ("dict", ())})
    t = symx.return_term(outs)
    site = "Coordinates." + q
    if t is None or t[0] != "angle":
        rep.violation("R-POLY", site, "shape", "does not return an Angle")
        return
    v = t[1]
    # check_input_date(epoch) returns the epoch itself: substitute
    mp = {}
    for x in T.walk(v):
        if x[0] == "call" and x[1] == "jdeof" and len(x) == 3 and x[2][0] == "call" and x[2][1] == "Epoch.Epoch.check_input_date" and len(x[2]) >= 3:
            arg = x[2][2]
            if arg[0] == "epoch":
                mp[x] = arg[1]
    v = T.subst(v, mp)
    try:
        cs = numeric_poly(Algebra(), v, "TT")
    except AnalysisError as e:
        extra = ""
        if any(x[0] == "call" and x[1] == "dms2deg" for x in T.walk(v)):
            extra = (" - a time-dependent quantity is passed as a sexagesimal component of Angle(d, m, s): by the sign rule of the constructor the "
                     "WHOLE angle turns negative as soon as that component does")
        rep.violation("R-POLY", site, "not-poly", "mean obliquity is not a polynomial in T: %s%s" % (e, extra), obligation=True)
        return
    worst = 0.0
    for k in range(-10 * span, 10 * span + 1):
        x = k / 10.0
        code = sum(float(c) * x ** i for i, c in enumerate(cs)) * 3600.0
        ref = sum(c * x ** i for i, c in enumerate(IAU76))
        worst = max(worst, abs(code - ref))
    if worst <= tol:
        rep.ok("R-POLY", site, "degree-%d polynomial vs IAU 1976 cubic: max difference %.4f arcsec over |T| <= %d cy (<= %g)" % (len(cs) - 1, worst, span, tol), obligation=True)
    else:
        rep.violation("R-POLY", site, "obliquity", "mean obliquity differs from the IAU cubic by up to %.2f arcsec within %d centuries of J2000 (> %g)"
                      % (worst, span, tol), obligation=True)
    if only_poly:
        return
    # D6
    rep.fn("Coordinates", "true_obliquity")
    fn2 = repo.func("Coordinates", "true_obliquity")
    t2 = ret_term(repo, "Coordinates", "true_obliquity", arg_terms={fn2.args.vararg.arg: T.sym("ARGS"), fn2.args.kwarg.arg: T.sym("KW")})
    m = [x for x in T.walk(t2) if x[0] == "call" and x[1] == "Coordinates.mean_obliquity"]
    n_ = [x for x in T.walk(t2) if x[0] == "call" and x[1] == "Coordinates.nutation_obliquity"]
    ok = t2[0] == "angle" and len(m) == 1 and len(n_) == 1 and t2[1] == T.add(T.call("degof", m[0]), T.call("degof", n_[0])) and m[0][2:] == n_[0][2:]
    passthrough = (T.call("*", T.sym("ARGS")), ("kw", "**", T.sym("KW")))
    checked = T.call("Epoch.Epoch.check_input_date", *passthrough)
    if ok and m[0][2:] != passthrough:
        a0 = m[0][2:]
        if len(a0) == 1 and (a0[0] == checked or (a0[0][0] == "epoch" and a0[0][1] in (checked, T.call("jdeof", checked)))):
            pass                    # the date is parsed once with the routine both terms use themselves
        elif any(x[0] == "call" and x[1] == "date2jde" for x in T.walk(("bag",) + tuple(a0))):
            rep.violation("R-SIB", "Coordinates.true_obliquity", "date-forms",
                          "the date arguments are turned into an Epoch by the Epoch constructor before being handed to mean_obliquity / nutation_obliquity; those "
                          "parse their arguments with Epoch.check_input_date, which reads date forms differently (a datetime's or a six-value date's time of day is "
                          "dropped there): true_obliquity(x) != mean_obliquity(x) + nutation_obliquity(x) for such x")
            return
        else:
            rep.inconcl("R-SIB", "Coordinates.true_obliquity", "the two terms are not given the caller's own arguments: " + T.show(m[0])[:100])
            return
    if ok:
        rep.ok("R-SIB", "Coordinates.true_obliquity", "mean_obliquity(args) + nutation_obliquity(args)")
    else:
        rep.violation("R-SIB", "Coordinates.true_obliquity", "sum", "true obliquity is not mean obliquity + nutation in obliquity of the same date: " + T.show(t2)[:120])


def nutation(repo, rep):
    rep.rule("R-INTERVAL", "triangle-inequality bound over a coefficient table")
    C = repo.mod("Coordinates")
    arg, sn, cs = C.literal("NUTATION_ARG_TABLE"), C.literal("NUTATION_SINE_COEF_TABLE"), C.literal("NUTATION_COSINE_COEF_TABLE")
    for nm in ("NUTATION_ARG_TABLE", "NUTATION_SINE_COEF_TABLE", "NUTATION_COSINE_COEF_TABLE"):
        rep.table("Coordinates." + nm)
    TM = 20.0
    if list(arg[0]) != [0, 0, 0, 0, 1]:
        rep.violation("R-INTERVAL", "Coordinates.NUTATION_ARG_TABLE[0]", "main-term-argument", "the first (largest) term is not a function of the Moon's node alone: %s" % (arg[0],))
    else:
        rep.ok("R-INTERVAL", "Coordinates.NUTATION_ARG_TABLE[0]", "main term argument is Omega alone (18.6-year term)")
    for name, tab, lim, main in (("longitude", sn, 3.5, -17.20), ("obliquity", cs, 1.5, 9.20)):
        rest = sum(abs(r[0]) + abs(r[1]) * TM for r in tab[1:]) / 10000.0
        main_dev = abs(tab[0][0] / 10000.0 - main) + abs(tab[0][1]) * TM / 10000.0
        total = rest + main_dev
        rms = math.sqrt(sum((r[0] / 10000.0) ** 2 for r in tab[1:]) / 2.0)
        site = "Coordinates.NUTATION_%s_COEF_TABLE" % ("SINE" if name == "longitude" else "COSINE")
        if total <= lim:
            rep.ok("R-INTERVAL", site, "nutation in %s stays within %.2f arcsec of the main term %+.2f*f(Omega) (limit %.1f)" % (name, total, main, lim), obligation=True)
        elif rms > lim:
            rep.violation("R-INTERVAL", site, "nutation-bound", "terms other than the main one have an RMS of %.2f arcsec > %.1f" % (rms, lim), obligation=True)
        else:
            rep.inconcl("R-INTERVAL", site, "triangle bound %.2f arcsec exceeds %.1f but the RMS %.2f does not" % (total, lim, rms))
    # shared argument polynomials and sibling structure
    polys = {}
    terms = {}
    for q in ("nutation_longitude", "nutation_obliquity"):
        rep.fn("Coordinates", q)
        fn = repo.func("Coordinates", q)
        outs = outcomes(repo, "Coordinates", q, arg_terms={fn.args.vararg.arg: ("tuple", ("epoch", T.add(T.num(2451545), T.mul(T.num(36525), T.sym("TT"))))),
                                                           fn.args.kwarg.arg: ("dict", ())})
        bag = all_value_terms(outs)
        mp = {}
        for x in T.walk(bag):
            if x[0] == "call" and x[1] == "jdeof" and len(x) == 3 and x[2][0] == "call" and x[2][1] == "Epoch.Epoch.check_input_date" and len(x[2]) >= 3 and x[2][2][0] == "epoch":
                mp[x] = x[2][2][1]
        bag = T.subst(bag, mp)
        polys[q] = set(pure_polys(bag, "TT", min_degree=2))
        t = T.subst(symx.return_term(outs), mp)
        ren = {T.sym("Coordinates.NUTATION_SINE_COEF_TABLE"): T.sym("TABLE"), T.sym("Coordinates.NUTATION_COSINE_COEF_TABLE"): T.sym("TABLE")}
        t = T.subst(t, ren)
        trig = {}
        for x in T.walk(t):
            if x[0] == "call" and x[1] in ("sin", "cos"):
                trig[x] = ("call", "TRIG", x[2])
        terms[q] = symx.canon_loops(T.subst(t, trig))
    if len(polys["nutation_longitude"]) >= 5 and polys["nutation_longitude"] == polys["nutation_obliquity"]:
        rep.ok("R-POLY", "Coordinates.nutation_*", "%d argument polynomials (D, M, M', F, Omega) identical in both routines" % len(polys["nutation_longitude"]), obligation=True)
    else:
        rep.violation("R-POLY", "Coordinates.nutation_*", "poly-copy", "the argument polynomials of nutation_longitude and nutation_obliquity differ (%d vs %d, %d shared)"
                      % (len(polys["nutation_longitude"]), len(polys["nutation_obliquity"]), len(polys["nutation_longitude"] & polys["nutation_obliquity"])), obligation=True)
    # the Moon's node the property's main-term model is built on (Moon.longitude_mean_ascending_node) against the node argument of the
    # nutation series itself: two polynomials in T that describe the same angle - compared over T = -40..20 centuries (years -2000..4000)
    rep.fn("Moon", "Moon.longitude_mean_ascending_node")
    try:
        nouts = outcomes(repo, "Moon", "Moon.longitude_mean_ascending_node", arg_terms={"epoch": ("epoch", T.add(T.num(2451545), T.mul(T.num(36525), T.sym("TT"))))})
        npolys = [p_ for p_ in pure_polys(all_value_terms(nouts), "TT", min_degree=1) if abs(float(p_[0]) - 125.04) < 0.1]
        spolys = [p_ for p_ in polys["nutation_longitude"] if abs(float(p_[0]) - 125.04) < 0.1]
    except AnalysisError:
        npolys, spolys = [], []
    nsite = "Moon.Moon.longitude_mean_ascending_node"
    if len(npolys) != 1 or len(spolys) != 1:
        rep.inconcl("R-POLY", nsite, "node polynomial of the Moon module / of the nutation series not identified (%d / %d candidates)" % (len(npolys), len(spolys)))
    else:
        pa, pb = npolys[0], spolys[0]
        worst = (Fraction(0), 0)
        for k in range(-40, 21):
            d_ = sum(c * Fraction(k) ** i for i, c in enumerate(pa)) - sum(c * Fraction(k) ** i for i, c in enumerate(pb))
            if abs(d_) > abs(worst[0]):
                worst = (d_, k)
        # 1 degree of node moves the main nutation terms by 17.2'' * sin(1 deg) = 0.3'': a tenth of the property's 3.5'' / 1.5'' slack
        if abs(worst[0]) <= Fraction(1):
            rep.ok("R-POLY", nsite, "Moon's mean node and the node argument of the nutation series agree to %.4f deg over years -2000..4000 (degree %d vs %d)"
                   % (float(abs(worst[0])), len(pa) - 1, len(pb) - 1), obligation=True)
        else:
            rep.violation("R-POLY", nsite, "node-drift", "the Moon's mean node differs from the node argument of the nutation series by %.2f deg at T = %d centuries (year %d): "
                          "the 18.6-year main-term model built on it is off by up to %.1f arcsec there (the property allows 3.5 / 1.5)"
                          % (float(worst[0]), worst[1], 2000 + 100 * worst[1], 17.2 * min(1.0, abs(float(worst[0])) * 3.14159 / 180)), obligation=True)
    if terms["nutation_longitude"] == terms["nutation_obliquity"]:
        rep.ok("R-SIB", "Coordinates.nutation_*", "the two routines differ only in coefficient table and sin/cos")
    else:
        rep.violation("R-SIB", "Coordinates.nutation_*", "differs", "nutation_longitude and nutation_obliquity differ by more than the coefficient table and sin/cos")
