"""C07 VSOP87 heliocentric positions are physical, continuous and self-consistent.

Decided: D1 mean-longitude rate of the series (L1[0]) equals the orbital-element table
to 1e-6; D2 Kepler's third law between the table's semi-major axis and mean motion
(0.1 % / 1 %); D3 the longitude returned by the evaluators and every planet wrapper is
normalised to [0,360) on every path; D4 the L, B and R blocks of the evaluator are one
computation, wrappers pass their own module's tables in the right order, tables are
never written, time arguments are exact; D5 constant terms are (A,0,0) rows and R0[0]
lies inside the mean orbit."""
import ast
import math

from .. import symx, terms as T
from ..frontend import AnalysisError, norm_text
from ..rules import ret_term, radians_of_angle, timearg_scan
from .. import units, guards, effects

MANIFEST = {
    "level": "other",
    "technique": "static analysis: audit of literal tables against each other (VSOP87 series vs orbital-element tables, Kepler III), interprocedural Angle-range typestate for the [0,360) clause, sibling comparison of the three series-evaluation blocks by value numbering, partial evaluation of the evaluator on symbolic literal tables (loops unrolled) compared with the direct term-by-term sum as a polynomial identity over Q, call-site argument audit of the 17 wrappers, effect analysis, anomaly-reduction decision table and true-anomaly relation of the Kepler solver (shared with C11); the Angle / Epoch operator semantics the evaluator assumes are verified (operator conformance, operands never written)",
    "text": "The clauses of the property that are statements about literals (mean-longitude rate agreement to 1e-6, Kepler's third law) are decided completely from the tables; the [0,360) clause is decided for every path of the evaluators and all wrappers; the evaluator is shown to apply one and the same summation to L, B and R, that summation is shown to equal 1e-8 * sum_i tau^i sum_k A cos(B + C tau) identically for every series count in use (exact arithmetic; floating-point rounding not covered), and every wrapper to pass its own tables. Bounds on latitude/radius, monotonicity and agreement with Kepler positions depend on thousands of series terms at runtime epochs and are not decided. As a premise the date <-> JDE conversions every Epoch passes through are executed on whole runs of civil days (R-CYCLE of C01): consecutive days exactly 1.0 apart, which the monotonic-longitude and daily-rate clauses presuppose.",
    "note": "Trusted: ast.literal_eval of the tables; the Gaussian constant 0.9856076686 deg/day (also used by the library). Undecided: latitude/radius bounds, monotone longitude, Kepler-orbit agreement, FK5/aberration sizes, rounding error of the summation order.",
}

PLANETS = ["Mercury", "Venus", "Earth", "Mars", "Jupiter", "Saturn", "Uranus", "Neptune"]
OUTER_1PCT = {"Saturn", "Uranus", "Neptune"}


def run(repo, rep, tier):
    rep.decided = ["D1 series L1[0] rate == ORBITAL_ELEM L rate (1e-6)", "D2 Kepler III (0.1 %/1 %)",
                   "D3 longitude normalised on every path of evaluators and wrappers (R-POS)",
                   "D4 one evaluator block for L/B/R; wrappers pass own tables; tables never written; exact time arguments",
                   "D5 constant terms (A,0,0); R0[0] within the mean orbit"]
    rep.undecided = ["latitude and radius bounds", "monotone longitude / daily rate", "agreement with Kepler positions",
                     "floating-point rounding of the summation order (the identity is decided over the rationals)"]
    rep.assumptions = ["tables are read with ast.literal_eval from the current source"]
    rep.rule("R-TABLE-REL", "relation among literals, two-sided tolerance from the property (PROVED / REFUTED / INCONCLUSIVE)")
    n_rel = 0
    for p in PLANETS:
        m = repo.mod(p)
        L, R = m.literal("VSOP87_L"), m.literal("VSOP87_R")
        oe, oej = m.literal("ORBITAL_ELEM"), m.literal("ORBITAL_ELEM_J2000")
        rep.table(p + ".VSOP87_L"); rep.table(p + ".ORBITAL_ELEM"); rep.table(p + ".ORBITAL_ELEM_J2000"); rep.table(p + ".VSOP87_R")
        # D5 constant-term rows
        for nm, tab in (("VSOP87_L", L), ("VSOP87_R", R)):
            row = tab[0][0]
            if not (row[1] == 0 and row[2] == 0):
                rep.violation("R-TABLE-REL", "%s.%s[0][0]" % (p, nm), "const-row", "leading term %r is not a constant (A, 0, 0) row" % (row,), obligation=True)
        if len(L) < 2 or not (L[1][0][1] == 0 and L[1][0][2] == 0):
            rep.violation("R-TABLE-REL", "%s.VSOP87_L[1][0]" % p, "rate-row", "L1 leading term is not the secular rate row (A, 0, 0)", obligation=True)
            continue
        # D1
        rate_series = L[1][0][0] * 1e-8 * (180.0 / math.pi) / 10.0      # degrees per Julian century
        rate_table = oe[0][1]
        rel = abs(rate_series - rate_table) / abs(rate_table)
        n_rel += 1
        site = "%s.VSOP87_L[1][0]~ORBITAL_ELEM[0][1]" % p
        if rel <= 1e-6:
            rep.ok("R-TABLE-REL", site, "series rate %.7f deg/cy vs table %.7f: rel %.2e <= 1e-6 PROVED" % (rate_series, rate_table, rel), obligation=True)
        else:
            rep.violation("R-TABLE-REL", site, "rate", "mean-longitude rate of the series %.7f deg/cy differs from the orbital-element table %.7f by rel %.2e > 1e-6"
                          % (rate_series, rate_table, rel), obligation=True)
        # D2 Kepler III
        a = oe[1][0]
        n_k = 0.9856076686 / (a ** 1.5) * 36525.0
        n_t = oej[0][1]
        tol = 1e-2 if p in OUTER_1PCT else 1e-3
        rel = abs(n_k - n_t) / n_t
        n_rel += 1
        site = "%s.ORBITAL_ELEM a~n" % p
        if rel <= tol:
            rep.ok("R-TABLE-REL", site, "Kepler III: k/a^1.5 = %.4f deg/cy vs sidereal rate %.4f: rel %.2e <= %g PROVED" % (n_k, n_t, rel, tol), obligation=True)
        else:
            rep.violation("R-TABLE-REL", site, "kepler3", "mean motion %.4f deg/cy and semi-major axis %.6f AU violate Kepler's third law: rel %.2e > %g"
                          % (n_t, a, rel, tol), obligation=True)
        # the two element tables agree on the epoch values (L0, i0, Omega0, pi0 are frame independent at J2000)
        pairs = [(oe[0][0], oej[0][0], "L0"), (oe[3][0], oej[1][0], "i0"), (oe[4][0], oej[2][0], "Omega0"), (oe[5][0], oej[3][0], "pi0")]
        bad = [nm for x, y, nm in pairs if abs(x - y) > 1e-6]
        n_rel += 1
        if bad:
            rep.violation("R-TABLE-REL", "%s.ORBITAL_ELEM~ORBITAL_ELEM_J2000" % p, "epoch-values", "constant terms differ between the two element tables: %s" % bad, obligation=True)
        else:
            rep.ok("R-TABLE-REL", "%s.ORBITAL_ELEM~ORBITAL_ELEM_J2000" % p, "constant terms L0, i0, Omega0, pi0 agree at J2000", obligation=True, sample=False)
        # L0 of the series vs table (same epoch value of the mean longitude): wide sanity relation 0.01 deg... the
        # series constant is a mean longitude only up to periodic terms at J2000, so only R0 is related to the orbit
        r0 = R[0][0][0] * 1e-8
        e = oe[2][0]
        n_rel += 1
        if a * (1 - e) * 0.99 <= r0 <= a * (1 + e) * 1.01:
            rep.ok("R-TABLE-REL", "%s.VSOP87_R[0][0]" % p, "R0 = %.5f AU inside a(1-e)..a(1+e) = %.5f..%.5f" % (r0, a * (1 - e), a * (1 + e)), obligation=True, sample=False)
        else:
            rep.violation("R-TABLE-REL", "%s.VSOP87_R[0][0]" % p, "r0", "constant radius term %.5f AU outside the mean orbit %.5f..%.5f" % (r0, a * (1 - e), a * (1 + e)), obligation=True)
    rep.floor("table relations", n_rel, 24)
    evaluator_blocks(repo, rep)
    direct_summation(repo, rep)
    corrections(repo, rep)
    wrappers = wrapper_audit(repo, rep)
    # the 17 wrappers only `return <evaluator>(...)` (R-ARGS), so they inherit the evaluators' verdict
    units.first_component_pos(repo, rep, [("Coordinates", "vsop_pos"), ("Coordinates", "geometric_vsop_pos"), ("Coordinates", "apparent_vsop_pos")])
    units.first_component_pos(repo, rep, wrappers, rule="R-POS-WRAP")
    fam = [("Coordinates", q) for q in ("vsop_pos", "geometric_vsop_pos", "apparent_vsop_pos", "orbital_elements")] + wrappers
    timearg_scan(repo, rep, fam)
    units.check_functions(repo, rep, fam)
    guards.check_functions(repo, rep, fam)
    effects.check_functions(repo, rep, fam)
    # second premise: the epochs this property quantifies over are days on the JDE axis; Epoch(JDE), Epoch + days and Epoch(y, m, d) all pass through the
    # date <-> JDE conversions, so "longitude only ever increases, at a Keplerian daily rate" presupposes that consecutive civil days are 1.0 apart
    # and read back as themselves (R-CYCLE of C01, quick tier)
    from .c01 import cycle_roundtrip
    cycle_roundtrip(repo, rep, "quick")
    # premise of the evaluator: Angle / Epoch operators mean what their names say and leave their operands alone
    from ..premises import operator_semantics
    operator_semantics(repo, rep)
    return "other"


def evaluator_blocks(repo, rep):
    rep.rule("R-SIB", "clone family members compute the same value-number term")
    rep.fn("Coordinates", "vsop_pos")
    fn = repo.func("Coordinates", "vsop_pos")
    names = [a.arg for a in fn.args.args]
    if len(names) != 4:
        raise AnalysisError("vsop_pos signature changed")
    t = ret_term(repo, "Coordinates", "vsop_pos", arg_terms={names[0]: ("epoch", T.sym("E")), names[1]: T.sym("TL"),
                                                             names[2]: T.sym("TB"), names[3]: T.sym("TR")})
    if t[0] != "tuple" or len(t) != 4:
        rep.violation("R-SIB", "Coordinates.vsop_pos", "shape", "does not return (lon, lat, r)")
        return
    X, Y, Z = radians_of_angle(t[1]), radians_of_angle(t[2]), t[3]
    if X is None or Y is None:
        rep.violation("R-SIB", "Coordinates.vsop_pos", "shape", "longitude/latitude are not built with Angle(.., radians=True)")
        return
    cx = symx.canon_loops(X)
    cy = symx.canon_loops(T.subst(Y, {T.sym("TB"): T.sym("TL")}))
    cz = symx.canon_loops(T.subst(Z, {T.sym("TR"): T.sym("TL")}))
    if cx == cy == cz:
        rep.ok("R-SIB", "Coordinates.vsop_pos", "the L, B and R blocks are the same computation of their table (value-number terms equal)", obligation=True)
    else:
        which = "B" if cx != cy else "R"
        rep.violation("R-SIB", "Coordinates.vsop_pos", "blocks-differ:" + which,
                      "the %s block of the series evaluator is not the same computation as the L block" % which, obligation=True)
    # each block reads only its own table
    for nm, blk, own in (("L", X, "TL"), ("B", Y, "TB"), ("R", Z, "TR")):
        syms = {x[1] for x in T.walk(blk) if x[0] == "sym" and x[1] in ("TL", "TB", "TR")}
        if syms != {own}:
            rep.violation("R-SIB", "Coordinates.vsop_pos", "table-mix:" + nm, "the %s block reads table(s) %s" % (nm, sorted(syms)), obligation=True)
    # structure of one block: sum of A*cos(B + C*t), scaled 1e-8, t = (E - 2451545)/365250
    want_scale = T.num(1) [1] / 10**8
    c, rest = T.split_coeff(cx)
    ok_scale = c == want_scale
    cos_args = [x for x in T.walk(cx) if x[0] == "call" and x[1] == "cos"]
    tfac = T.mul(T.num(1), T.add(T.sym("E"), T.num(-2451545)))
    ok_t = any(depends_t(x) for x in cos_args)
    if ok_scale and cos_args and ok_t:
        rep.ok("R-SIB", "Coordinates.vsop_pos:block", "block = 1e-8 * Horner_t(sum A*cos(B + C*t)), t = (JDE - 2451545)/365250", obligation=True)
    else:
        rep.violation("R-SIB", "Coordinates.vsop_pos", "block-form", "series block is not 1e-8 * sum A*cos(B + C*t) with t in Julian millennia from J2000 "
                      "(scale ok=%s, cos terms=%d, time arg ok=%s)" % (ok_scale, len(cos_args), ok_t), obligation=True)


def direct_summation(repo, rep):
    """R-UNROLL: vsop_pos is executed on symbolic literal tables of every series count that occurs in the
    package (loops over the literal unrolled) and the result is compared, as a polynomial identity over Q
    with atomic cosines, with the direct sum 1e-8 * sum_i tau^i * sum_k A_ik cos(B_ik + C_ik tau)."""
    from fractions import Fraction
    from ..poly import Algebra
    rep.rule("R-UNROLL", "evaluator executed on a symbolic table of each series count in use == direct term-by-term sum "
                         "1e-8 * sum_i tau^i sum_k A cos(B + C tau), tau = (JDE - 2451545)/365250 (exact identity, every power of tau present)")
    counts = set()
    for p in PLANETS:
        m = repo.mod(p)
        for nm in ("VSOP87_L", "VSOP87_B", "VSOP87_R", "VSOP87_L_J2000", "VSOP87_B_J2000"):
            if nm in m.globals:
                try:
                    counts.add(len(m.literal(nm)))
                except Exception:
                    pass
    fn = repo.func("Coordinates", "vsop_pos")
    names = [a.arg for a in fn.args.args]
    tau = T.mul(T.num(Fraction(1, 365250)), T.add(T.sym("E"), T.num(-2451545)))

    def table(tag, n):
        rows = []
        for i in range(n):
            k_n = 2 if i in (0, n - 1) else 1
            rows.append(("list",) + tuple(("list", T.sym("%sA%d_%d" % (tag, i, k)), T.sym("%sB%d_%d" % (tag, i, k)), T.sym("%sC%d_%d" % (tag, i, k)))
                                          for k in range(k_n)))
        return ("list",) + tuple(rows)

    def direct(tag, n):
        tot = []
        for i in range(n):
            k_n = 2 if i in (0, n - 1) else 1
            for k in range(k_n):
                a, b, c = (T.sym("%s%s%d_%d" % (tag, x, i, k)) for x in "ABC")
                tot.append(T.mul(T.num(Fraction(1, 10 ** 8)), T.power(tau, T.num(i)), a, T.call("cos", T.add(b, T.mul(c, tau)))))
        return T.add(*tot)
    done = 0
    for n in sorted(counts):
        t = ret_term(repo, "Coordinates", "vsop_pos", unroll=12,
                     arg_terms={names[0]: ("epoch", T.sym("E")), names[1]: table("L", n), names[2]: table("B", n), names[3]: table("R", n)})
        if t[0] != "tuple" or len(t) != 4:
            continue
        got = {"L": radians_of_angle(t[1]), "B": radians_of_angle(t[2]), "R": t[3]}
        for tag in "LBR":
            site = "Coordinates.vsop_pos[%s, %d series]" % (tag, n)
            g = got[tag]
            if g is None or any(isinstance(x, tuple) and x and x[0] in ("loop", "loopout") for x in T.walk(g)):
                rep.inconcl("R-UNROLL", site, "the evaluator could not be executed on a literal table (a loop was not unrolled)")
                continue
            alg = Algebra(atomize=True)
            try:
                same = alg.equal(g, direct(tag, n))
            except Exception as e:      # NotAlgebraic
                rep.inconcl("R-UNROLL", site, "result is not a polynomial in the table entries: %s" % str(e)[:80])
                continue
            done += 1
            if same:
                rep.ok("R-UNROLL", site, "== 1e-8 * sum_{i<%d} tau^i sum_k A cos(B + C tau) identically" % n, obligation=True, sample=(tag == "L"))
            else:
                rep.violation("R-UNROLL", "Coordinates.vsop_pos", "direct-sum:%s:%d" % (tag, n),
                              "for a %s table with %d series the evaluator does not return the direct term-by-term sum "
                              "1e-8 * sum_i tau^i sum_k A cos(B + C tau) (a series or a power of tau is lost or altered)" % (tag, n), obligation=True)
    rep.floor("direct-summation identities decided", done, 3)


def corrections(repo, rep):
    """R-RECIPE: FK5 and aberration corrections equal the documented expressions (Meeus 32.3 and 25.10) for both values of
    each flag; the apparent position always starts from the FK5-corrected geometric one (the flags are not cross-wired)."""
    from fractions import Fraction as F_
    from ..poly import Algebra
    rep.rule("R-RECIPE", "correction terms extracted by partial evaluation for each flag value == the documented expressions")
    E = ("epoch", T.sym("E"))
    args = {"epoch": E, "vsop_l": T.sym("TL"), "vsop_b": T.sym("TB"), "vsop_r": T.sym("TR")}
    alg = Algebra(atomize=True)

    def inner(x):
        while x[0] in ("angle",) or (x[0] == "call" and x[1] == "pos" and len(x) == 3):
            x = x[1] if x[0] == "angle" else x[2]
        return x

    def same(a, b):
        if a == b:
            return True
        try:
            return alg.equal(a, b)
        except Exception:
            return False
    # ---- geometric_vsop_pos
    q = "geometric_vsop_pos"
    site = "Coordinates." + q
    fn = repo.func("Coordinates", q)
    an = [a.arg for a in fn.args.args]
    if len(an) != 5:
        rep.inconcl("R-RECIPE", site, "signature changed")
        return
    V = T.call("Coordinates.vsop_pos", E, T.sym("TL"), T.sym("TB"), T.sym("TR"))
    L, B, R = (("idx", V, T.num(i)) for i in range(3))
    Tc = T.mul(T.num(F_(1, 36525)), T.add(T.sym("E"), T.num(-2451545)))
    lam = T.add(L, T.neg(T.mul(Tc, T.add(T.num(F_("1.397")), T.mul(T.num(F_("0.00031")), Tc)))))
    c, s_ = T.call("cos", T.call("rad", lam)), T.call("sin", T.call("rad", lam))
    asec = T.num(F_(1, 3600))
    dlon = T.mul(asec, T.add(T.num(F_("-0.09033")), T.mul(T.num(F_("0.03916")), T.add(c, s_), T.call("tan", T.call("rad", B)))))
    dlat = T.mul(asec, T.num(F_("0.03916")), T.add(c, T.neg(s_)))
    n = 0
    for flag in (True, False):
        t = ret_term(repo, "Coordinates", q, arg_terms=dict(zip(an, [E, T.sym("TL"), T.sym("TB"), T.sym("TR"), ("bool", flag)])))
        if t[0] != "tuple" or len(t) != 4:
            rep.violation("R-RECIPE", site, "shape", "does not return (lon, lat, r)")
            continue
        lo, la, r = inner(t[1]), inner(t[2]), t[3]
        want = (T.add(L, dlon), T.add(B, dlat), R) if flag else (L, B, R)
        ok = same(lo, want[0]) and same(la, want[1]) and r == want[2]
        n += 1
        if ok:
            rep.ok("R-RECIPE", site + "[tofk5=%s]" % flag, ("dL = -0.09033'' + 0.03916''(cos l' + sin l') tan B, dB = 0.03916''(cos l' - sin l'), "
                                                             "l' = L - 1.397 T - 0.00031 T^2") if flag else "series values returned unchanged", obligation=True)
        else:
            rep.violation("R-RECIPE", site, "fk5:%s" % flag, "with tofk5=%s the result is not %s" % (flag, "the FK5-corrected position (Meeus 32.3)" if flag else "the plain series position"), obligation=True)
    # ---- apparent_vsop_pos
    q = "apparent_vsop_pos"
    site = "Coordinates." + q
    fn = repo.func("Coordinates", q)
    an = [a.arg for a in fn.args.args]
    G = T.call("Coordinates.geometric_vsop_pos", E, T.sym("TL"), T.sym("TB"), T.sym("TR"))
    G0, G1, G2 = (("idx", G, T.num(i)) for i in range(3))
    ab = T.mul(T.num(F_("-20.4898")), asec, T.power(G2, T.num(-1)))
    for flag in (True, False):
        t = ret_term(repo, "Coordinates", q, arg_terms=dict(zip(an, [E, T.sym("TL"), T.sym("TB"), T.sym("TR"), ("bool", flag)])))
        if t[0] != "tuple" or len(t) != 4:
            rep.violation("R-RECIPE", site, "shape", "does not return (lon, lat, r)")
            continue
        gcalls = {x for x in T.walk(t) if x[0] == "call" and x[1] == "Coordinates.geometric_vsop_pos"}
        n += 1
        extra = [x for g in gcalls for x in g[6:]]
        if gcalls != {G}:
            bad = [x for x in extra if not (x == ("bool", True) or (x[0] == "kw" and x[2] == ("bool", True)))]
            if bad or not gcalls:
                rep.violation("R-RECIPE", site, "fk5-flag:%s" % flag,
                              "with nutation=%s the geometric position is requested with tofk5 = %s: the apparent position must always start from the "
                              "FK5-corrected one (the nutation flag is wired into the FK5 switch)" % (flag, T.show(bad[0])[:30] if bad else "?"), obligation=True)
                continue
            t = T.subst(t, {g: G for g in gcalls})
        nut = T.call("degof", T.call("Coordinates.nutation_longitude", E))
        want_lon = T.add(G0, ab, nut) if flag else T.add(G0, ab)
        if same(inner(t[1]), want_lon) and inner(t[2]) == G1 and t[3] == G2:
            rep.ok("R-RECIPE", site + "[nutation=%s]" % flag, "lon = FK5 lon %s- 20.4898''/R, lat and r unchanged" % ("+ dpsi " if flag else ""), obligation=True)
        else:
            rep.violation("R-RECIPE", site, "aberration:%s" % flag, "with nutation=%s the longitude is not FK5 longitude %s- 20.4898''/R" % (flag, "+ nutation " if flag else ""),
                          obligation=True)
    rep.floor("correction recipes decided (2 functions x 2 flag values)", n, 4)


def depends_t(cos_call):
    """cos(B + C*t) with t = (E - 2451545)/365250 exactly"""
    from fractions import Fraction
    arg = cos_call[2]
    parts = arg[1:] if arg[0] == "add" else (arg,)
    for p in parts:
        c, rest = T.split_coeff(p)
        fac = rest[1:] if rest[0] == "mul" else (rest,)
        if T.add(T.sym("E"), T.num(-2451545)) in fac and c == Fraction(1, 365250):
            return True
    return False


def wrapper_audit(repo, rep):
    """17 call sites: each planet wrapper passes VSOP87_L, VSOP87_B, VSOP87_R of its own module, in that order."""
    rep.rule("R-ARGS", "each planet wrapper hands its own module's tables to the evaluator, in the order (L, B, R)")
    out = []
    n = 0
    for p in PLANETS:
        for q, callee in (("geometric_heliocentric_position", "geometric_vsop_pos"), ("apparent_heliocentric_position", "apparent_vsop_pos")):
            qual = "%s.%s" % (p, q)
            fn = repo.func(p, qual)
            rep.fn(p, qual)
            out.append((p, qual))
            n += check_wrapper(repo, rep, p, qual, fn, callee, ["VSOP87_L", "VSOP87_B", "VSOP87_R"])
    qual = "Earth.geometric_heliocentric_position_j2000"
    fn = repo.func("Earth", qual)
    out.append(("Earth", qual))
    n += check_wrapper(repo, rep, "Earth", qual, fn, "geometric_vsop_pos", ["VSOP87_L_J2000", "VSOP87_B_J2000", "VSOP87_R"])
    # orbital element wrappers
    for p in PLANETS:
        for q, tabs in (("orbital_elements_mean_equinox", ["ORBITAL_ELEM", "ORBITAL_ELEM"]), ("orbital_elements_j2000", ["ORBITAL_ELEM", "ORBITAL_ELEM_J2000"])):
            qual = "%s.%s" % (p, q)
            fn = repo.func(p, qual)
            n += check_wrapper(repo, rep, p, qual, fn, "orbital_elements", tabs)
    rep.floor("wrapper call sites", n, 28)
    # the property compares the VSOP87 positions with the positions obtained from the mean elements "through Kepler's equation":
    # the solver's anomaly reduction and true-anomaly relation are part of that chain (rules shared with C11)
    from .c11 import kepler_rules
    rep.fn("Coordinates", "kepler_equation")
    kepler_rules(repo, rep)
    return out


def check_wrapper(repo, rep, mod, qual, fn, callee, tables):
    """by symbolic evaluation (helpers introduced by a refactoring are inlined, keyword arguments put in place):
    every value-returning path returns <callee>(epoch, <this module's tables in order>[, the wrapper's own flag])"""
    from ..rules import outcomes
    site = "%s.%s" % (mod, qual)
    nm = [a.arg for a in fn.args.args]
    E = ("epoch", T.sym("E"))
    outs = [o for o in outcomes(repo, mod, qual, arg_terms={nm[0]: E}) if o.kind == "ret"]
    if not outs:
        rep.violation("R-ARGS", site, "not-delegating", "no value-returning path")
        return 1
    want = [T.sym("%s.%s" % (mod, t)) for t in tables]
    for o in outs:
        v = o.value
        if not (v[0] == "call" and v[1] == "Coordinates." + callee):
            if any(x[0] == "call" and x[1] == "Coordinates." + callee for x in T.walk(v)):
                rep.inconcl("R-ARGS", site, "the result of %s(...) is post-processed: %s" % (callee, T.show(v)[:100]))
            else:
                rep.violation("R-ARGS", site, "not-delegating", "does not return %s(...): %s" % (callee, T.show(v)[:100]))
            return 1
        args = list(v[2:])
        got = [a[1].split(".", 1)[1] if (a[0] == "sym" and a[1].startswith(mod + ".")) else T.show(a)[:30] for a in args[1:1 + len(tables)]]
        if args[1:1 + len(tables)] != want:
            rep.violation("R-ARGS", site, "tables:" + ",".join(got), "passes %s to %s; expected this module's %s" % (got, callee, tables))
            return 1
        if not args or args[0] != E:
            rep.violation("R-ARGS", site, "epoch-arg", "first argument of %s is not the epoch parameter" % callee)
            return 1
        extra = args[1 + len(tables):]
        if any(not (a[0] == "sym" and a[1] in nm) and not (a[0] == "kw" and a[2][0] == "sym" and a[2][1] in nm) for a in extra):
            rep.violation("R-ARGS", site, "extra-arg", "further arguments of %s are not the wrapper's own parameters: %s" % (callee, [T.show(a)[:30] for a in extra]))
            return 1
    rep.ok("R-ARGS", site, "%s(epoch, %s)" % (callee, ", ".join(tables)), sample=(mod == "Venus"))
    return 1
