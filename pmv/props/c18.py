"""C18 Earth ellipsoid quantities and surface distance satisfy their identities.

Decided (exact real arithmetic, all latitudes / both ellipsoids at once):
  D1 sea-level geocentric coordinates lie on the meridian ellipse; height adds
     h/a*(cos phi, sin phi); parallel radius rp == a * rho*cos(phi') (squares compared);
     linear speed == omega * rp; b == a(1-f), e^2 == 2f - f^2; meridian radius of
     curvature is b^2/a at the equator and (a^2/b)^2 squared at the poles
  D2 surface distance is symmetric in its two points
  D3 parallax routines use sin(pi) = sin(8.794 arcsec)/distance, radians throughout, type guards
"""
from fractions import Fraction

from .. import symx, terms as T
from ..frontend import AnalysisError
from ..poly import Algebra
from ..rules import ret_term, find_calls, outcomes, D2R
from .. import units, guards, effects

MANIFEST = {
    "level": "other",
    "technique": "static analysis: symbolic evaluation to terms and polynomial normal form with sin^2+cos^2=1, sin/cos(atan x) and sqrt(x)^2=x (ellipse identity, height terms, rp = a*rho*cos(phi'), curvature limits, symmetry of the distance formula), term equality of the Andoyer-Lambert distance and of the topocentric parallax formulae (cross-multiplied atan2 arguments) with the published ones, algebra-decided guard of the coincident-point singularity, unit inference, guard dominance; the Angle / Epoch operator semantics the evaluator assumes are verified (operator conformance, operands never written)",
    "text": "The ellipsoid identities named in the property are discharged symbolically for every latitude and for arbitrary (a, f), hence for both built-in ellipsoids; symmetry of the distance formula is shown by exchanging the two points in the symbolic result. Every value-returning path of the distance is the Andoyer-Lambert formula or the guarded coincident-point case (no division by the identically vanishing s there); parallax_correction is the rigorous topocentric projection (for which the displacement is bounded by the horizontal parallax) with sin(pi) = sin(8.794 arcsec)/distance. Numerical statements (1e-4 agreement with the meridian integral, 0.6 % bound) are not decided.",
    "note": "Trusted: term/polynomial engine incl. the atan and sqrt relations (valid for positive radicands); Ellipsoid fields are read through self._ellip. Undecided: curvature integral, 0.6 % bound, parallax_ecliptical's closed form.",
}
MOD = "Earth"


def ell(field):
    return ("attr", ("attr", T.sym("self"), "_ellip"), field)


def inline_ellipsoid(repo, t):
    """replace calls of Ellipsoid.b()/e() on self._ellip by their bodies (in terms of _a, _f)"""
    mp = {}
    for x in T.walk(t):
        if x[0] == "call" and x[1] in (".b", ".e") and x[2] == ("attr", T.sym("self"), "_ellip"):
            body = ret_term(repo, MOD, "Ellipsoid." + x[1][1:])
            sub = {}
            for y in T.walk(body):
                if y[0] == "attr" and y[1] == T.sym("self"):
                    sub[y] = ell(y[2])
            mp[x] = T.subst(body, sub)
    return T.subst(t, mp) if mp else t


def lat_rad(t):
    """the latitude in radians as it appears in the term for an Angle argument"""
    return T.mul(T.sym("PHI"), D2R)


def parallax_recipe(repo, rep):
    """R-RECIPE (parallax_correction): the returned right ascension and declination are the rigorous topocentric formulae
        tan(dalpha) = -rho cos phi' sin pi sin H / (cos delta - rho cos phi' sin pi cos H)
        tan(delta') = (sin delta - rho sin phi' sin pi) cos(dalpha) / (cos delta - rho cos phi' sin pi cos H)
    - the projection of the body's position seen from the observer, for which the displacement is bounded by the horizontal
    parallax.  Compared as terms (polynomial normal form of the atan2 arguments, cross-multiplied)."""
    from ..rules import D2R
    rep.rule("R-RECIPE", "each path returns the published formula (term equality) or the stated value of the singular case")
    q = "Earth.parallax_correction"
    site = MOD + "." + q
    fn = repo.func(MOD, q)
    nm = [a_.arg for a_ in fn.args.args]
    want_names = ["right_ascension", "declination", "latitude", "distance", "hour_angle"]
    if nm[:5] != want_names:
        rep.inconcl("R-RECIPE", site, "signature is not (right_ascension, declination, latitude, distance, hour_angle, ...)")
        return
    t = ret_term(repo, MOD, q, arg_terms={nm[0]: ("angle", T.sym("RA")), nm[1]: ("angle", T.sym("DEC")), nm[2]: ("angle", T.sym("LAT")),
                                          nm[3]: T.sym("distance"), nm[4]: ("angle", T.sym("HA"))})
    if t[0] != "tuple" or len(t) != 3 or t[1][0] != "angle" or t[2][0] != "angle":
        rep.inconcl("R-RECIPE", site, "does not return a pair of Angles")
        return
    rc = [x for x in T.walk(t) if x[0] == "call" and x[1].endswith("rho_cosphi")]
    rs = [x for x in T.walk(t) if x[0] == "call" and x[1].endswith("rho_sinphi")]
    if len(set(rc)) != 1 or len(set(rs)) != 1:
        rep.inconcl("R-RECIPE", site, "rho cos phi' / rho sin phi' are not each taken once from the ellipsoid routines")
        return
    RC, RS = rc[0], rs[0]
    SP = T.mul(T.call("sin", T.mul(T.num(Fraction("8.794") / 3600), D2R)), T.power(T.sym("distance"), T.num(-1)))
    H = T.mul(T.sym("HA"), D2R)
    DE = T.mul(T.sym("DEC"), D2R)
    den = T.sub(T.call("cos", DE), T.mul(RC, SP, T.call("cos", H)))
    num_a = T.mul(T.num(-1), RC, SP, T.call("sin", H))
    alg = Algebra(atomize=True)

    def atan2_of(x):
        """x == k * atan2(y, z) (+ rest): returns (y, z, rest) for the single atan2 at the top of x/d2r**-1"""
        c, r = T.split_coeff(x)
        parts = r[1:] if r[0] == "add" else (r,)
        hits = []
        rest = []
        for p_ in parts:
            cp, rp_ = T.split_coeff(p_)
            fac = rp_[1:] if rp_[0] == "mul" else (rp_,)
            at = [f for f in fac if f[0] == "call" and f[1] == "atan2" and len(f) == 4]
            others = [f for f in fac if f not in at]
            if len(at) == 1 and others == [T.power(D2R, T.num(-1))] and c * cp == 1:
                hits.append(at[0])
            else:
                rest.append(T.mul(T.num(c), p_))
        if len(hits) != 1:
            return None
        return hits[0][2], hits[0][3], T.add(*rest) if rest else T.ZERO
    ra, de = atan2_of(t[1][1]), atan2_of(t[2][1])
    if ra is None or de is None:
        rep.inconcl("R-RECIPE", site, "the corrections are not of the form atan2(y, x): formula not compared")
        return
    try:
        ok_ra = alg.equal(T.mul(ra[0], den), T.mul(num_a, ra[1])) and alg.equal(ra[2], T.sym("RA"))
        # sign of the pair (y, x): x must be the same positive multiple; compare x directly up to the common factor used for y
        ok_ra = ok_ra and alg.equal(ra[1], den)
        da = T.call("atan2", ra[0], ra[1])
        num_d = T.mul(T.sub(T.call("sin", DE), T.mul(RS, SP)), T.call("cos", da))
        ok_de = alg.equal(T.mul(de[0], den), T.mul(num_d, de[1])) and alg.equal(de[1], den) and alg.equal(de[2], T.ZERO)
    except Exception as e:
        rep.inconcl("R-RECIPE", site, "formula comparison failed: %s" % e)
        return
    if ok_ra:
        rep.ok("R-RECIPE", site + ":ra", "dalpha = atan2(-rho cos phi' sin pi sin H, cos delta - rho cos phi' sin pi cos H)", obligation=True)
    else:
        rep.violation("R-RECIPE", site, "parallax-ra", "the right-ascension correction is not atan2(-rho cos phi' sin pi sin H, cos delta - rho cos phi' sin pi cos H): "
                      + T.show(T.call("atan2", ra[0], ra[1]))[:140], obligation=True)
    if ok_de:
        rep.ok("R-RECIPE", site + ":dec", "delta' = atan2((sin delta - rho sin phi' sin pi) cos(dalpha), cos delta - rho cos phi' sin pi cos H)", obligation=True)
    else:
        rep.violation("R-RECIPE", site, "parallax-dec", "the topocentric declination is not atan2((sin delta - rho sin phi' sin pi) cos(dalpha), cos delta - rho cos phi' sin pi cos H) - "
                      "cos(dalpha) must multiply the whole numerator; otherwise the body is displaced by more than the horizontal parallax far from the meridian: "
                      + T.show(T.call("atan2", de[0], de[1]))[:160], obligation=True)


def andoyer(repo, rep, d, alg0):
    """R-RECIPE: every value-returning path of Earth.distance is either the coincident-point guard (s == 0 -> 0) or the
    Andoyer-Lambert formula d (1 + f (H1 sin^2F cos^2G - H2 cos^2F sin^2G)) with its own s, c, omega, R - no shortcut path
    (e.g. a plain spherical distance for small separations) may bypass the flattening correction."""
    from .c10 import phi_leaves
    from ..rules import D2R
    rep.rule("R-RECIPE", "each path returns the published formula (term equality) or the stated value of the singular case")
    site = "Earth.Earth.distance"
    half = T.num(Fraction(1, 2))
    P1, P2, L1, L2 = (T.mul(T.sym(n), D2R) for n in ("P1", "P2", "L1", "L2"))
    F, G, LAM = T.mul(half, T.add(P1, P2)), T.mul(half, T.sub(P1, P2)), T.mul(half, T.sub(L1, L2))
    sq = lambda fn_, x: T.power(T.call(fn_, x), T.num(2))
    S = T.add(T.mul(sq("sin", G), sq("cos", LAM)), T.mul(sq("cos", F), sq("sin", LAM)))
    C = T.add(T.mul(sq("cos", G), sq("cos", LAM)), T.mul(sq("sin", F), sq("sin", LAM)))
    ell = ("attr", T.sym("self"), "_ellip")
    A_, FL = ("attr", ell, "_a"), ("attr", ell, "_f")
    OM = T.call("atan", T.call("sqrt", T.div(S, C)))
    R = T.div(T.call("sqrt", T.mul(S, C)), OM)
    D = T.mul(T.num(2), OM, A_)
    H1 = T.div(T.add(T.mul(T.num(3), R), T.num(-1)), T.mul(T.num(2), C))
    H2 = T.div(T.add(T.mul(T.num(3), R), T.num(1)), T.mul(T.num(2), S))
    want = T.mul(D, T.add(T.num(1), T.mul(FL, T.sub(T.mul(H1, sq("sin", F), sq("cos", G)), T.mul(H2, sq("cos", F), sq("sin", G))))))
    from ..rules import even_norm
    from ..poly import Algebra
    n_main = 0
    for conds, leaf in phi_leaves(d):
        val = leaf[1] if leaf[0] == "tuple" and len(leaf) >= 2 else leaf
        if val == T.ZERO:
            # only under a test that the separation measure s is zero
            conds_n = [(("cmp", "Eq", c[1][2], c[1][3]) if (c[0] == "not" and c[1][0] == "cmp" and c[1][1] == "NotEq") else c) for c in conds]
            zero_guard = any(c[0] == "cmp" and c[1] == "Eq" and c[3] == T.ZERO and even_norm(c[2]) == even_norm(S) for c in conds_n)
            if zero_guard:
                rep.ok("R-RECIPE", site + "[s == 0]", "returns 0 exactly when s = sin^2G cos^2L + cos^2F sin^2L vanishes (coincident points)", obligation=True)
            else:
                rep.violation("R-RECIPE", site, "zero-path", "a path returns the distance 0 under a condition other than s == 0: " + T.show(T.land(*conds))[:100], obligation=True)
            continue
        ok = even_norm(val) == even_norm(want)
        if not ok:
            try:
                ok = Algebra(atomize=True).equal(val, want)
            except Exception:
                ok = False
        if ok:
            n_main += 1
            rep.ok("R-RECIPE", site + "[Andoyer]", "d (1 + f (H1 sin^2F cos^2G - H2 cos^2F sin^2G)) with H1 = (3R-1)/2C, H2 = (3R+1)/2S, R = sqrt(SC)/omega, d = 2 omega a",
                   obligation=True)
        else:
            has_f = any(x == FL for x in T.walk(val))
            rep.violation("R-RECIPE", site, "shortcut-path" if not has_f else "formula",
                          ("a value-returning path bypasses the flattening correction (returns %s): for those inputs the result is the spherical distance, "
                           "off by up to 0.3 %% from the ellipsoidal one" % T.show(val)[:60]) if not has_f else
                          "the returned expression is not the Andoyer-Lambert formula", obligation=True)
    if n_main == 0:
        rep.violation("R-RECIPE", site, "no-main-path", "no path returns the Andoyer-Lambert formula", obligation=True)


def run(repo, rep, tier):
    rep.decided = ["D1 meridian ellipse, height terms, rp == a*rho*cos(phi'), omega*rp, b and e definitions, curvature at equator and pole",
                   "D2 distance symmetric", "D3 parallax constant, units, guards"]
    rep.undecided = ["distance == meridian integral (1e-4)", "0.6 % of the great-circle distance", "parallax limits"]
    rep.decided.append("D2b distance of coincident points is 0 (no identically vanishing divisor)")
    rep.assumptions = ["exact real arithmetic", "radicands positive"]
    rep.rule("R-E4-ID", "algebraic identity discharged by polynomial normal form")
    alg = Algebra()
    A, F = ell("_a"), ell("_f")
    lat = ("angle", T.sym("PHI"))
    phi = lat_rad(None)

    def val(q, **extra):
        rep.fn(MOD, "Earth." + q)
        fn = repo.func(MOD, "Earth." + q)
        names = [a.arg for a in fn.args.args]
        at = {names[1]: lat}
        at.update(extra)
        return inline_ellipsoid(repo, ret_term(repo, MOD, "Earth." + q, arg_terms=at))
    H = T.sym("H")
    rs, rc = val("rho_sinphi", height=H), val("rho_cosphi", height=H)
    rs0, rc0 = T.subst(rs, {H: T.ZERO}), T.subst(rc, {H: T.ZERO})
    b_over_a = T.sub(T.ONE, F)
    site = "Earth.Earth.rho_sinphi/rho_cosphi"
    if alg.equal(T.add(T.mul(rc0, rc0), T.mul(T.div(rs0, b_over_a), T.div(rs0, b_over_a))), T.ONE):
        rep.ok("R-E4-ID", site, "(rho cos phi')^2 + (rho sin phi' * a/b)^2 == 1 at sea level, for all latitudes and any (a, f)", obligation=True)
    else:
        rep.violation("R-E4-ID", site, "meridian-ellipse", "sea-level geocentric coordinates do not lie on the meridian ellipse", obligation=True)
    ok_h = alg.equal(T.sub(rs, rs0), T.mul(H, T.power(A, T.num(-1)), T.call("sin", phi))) and \
        alg.equal(T.sub(rc, rc0), T.mul(H, T.power(A, T.num(-1)), T.call("cos", phi)))
    if ok_h:
        rep.ok("R-E4-ID", site + ":height", "height adds h/a * (cos phi, sin phi)", obligation=True)
    else:
        rep.violation("R-E4-ID", site, "height-terms", "height contribution is not h/a*(cos phi, sin phi)", obligation=True)
    rp = val("rp")
    if alg.equal(T.mul(rp, rp), T.mul(A, A, rc0, rc0)):
        rep.ok("R-E4-ID", "Earth.Earth.rp", "rp^2 == (a * rho cos phi')^2 (same sign: both positive for |phi| < 90)", obligation=True)
    else:
        rep.violation("R-E4-ID", "Earth.Earth.rp", "parallel-radius", "parallel radius differs from a * rho*cos(phi')", obligation=True)
    lv = val("linear_velocity")
    want = T.mul(ell("_omega"), T.call("Earth.Earth.rp", T.sym("self"), lat))
    if lv == want:
        rep.ok("R-E4-ID", "Earth.Earth.linear_velocity", "== omega * rp(latitude)", obligation=True)
    else:
        rep.violation("R-E4-ID", "Earth.Earth.linear_velocity", "omega-rp", "linear velocity is not omega * rp(latitude): " + T.show(lv)[:100], obligation=True)
    # Ellipsoid definitions
    rep.fn(MOD, "Ellipsoid.b"); rep.fn(MOD, "Ellipsoid.e")
    a_, f_ = ("attr", T.sym("self"), "_a"), ("attr", T.sym("self"), "_f")
    bt, et = ret_term(repo, MOD, "Ellipsoid.b"), ret_term(repo, MOD, "Ellipsoid.e")
    if alg.equal(bt, T.mul(a_, T.sub(T.ONE, f_))) and alg.equal(T.mul(et, et), T.sub(T.mul(T.num(2), f_), T.mul(f_, f_))):
        rep.ok("R-E4-ID", "Earth.Ellipsoid.b/e", "b == a(1 - f), e^2 == 2f - f^2", obligation=True)
    else:
        rep.violation("R-E4-ID", "Earth.Ellipsoid.b/e", "ellipsoid-defs", "b or e does not follow from (a, f)", obligation=True)
    rm = val("rm")
    B = T.mul(A, b_over_a)
    zero_s = {}
    rm_eq = subst_trig(rm, phi, sin_v=T.ZERO, cos_v=T.ONE)
    rm_po = subst_trig(rm, phi, sin_v=T.ONE, cos_v=T.ZERO)
    ok_eq = alg.equal(rm_eq, T.mul(B, B, T.power(A, T.num(-1))))
    ok_po = alg.equal(T.mul(rm_po, rm_po), T.power(T.mul(A, A, T.power(B, T.num(-1))), T.num(2)))
    if ok_eq and ok_po:
        rep.ok("R-E4-ID", "Earth.Earth.rm", "meridian radius of curvature: b^2/a at the equator, (a^2/b)^2 squared at the poles", obligation=True)
    else:
        rep.violation("R-E4-ID", "Earth.Earth.rm", "curvature-limits", "rm is not b^2/a at the equator (%s) / a^2/b at the poles (%s)" % (ok_eq, ok_po), obligation=True)
    # D2 symmetry
    rep.fn(MOD, "Earth.distance")
    fn = repo.func(MOD, "Earth.distance")
    names = [a.arg for a in fn.args.args]
    at = {names[1]: ("angle", T.sym("L1")), names[2]: ("angle", T.sym("P1")), names[3]: ("angle", T.sym("L2")), names[4]: ("angle", T.sym("P2"))}
    d = ret_term(repo, MOD, "Earth.distance", arg_terms=at)

    def component(x, i):
        """i-th element of a tuple-valued term (phi nodes are pushed inside)"""
        if x[0] == "tuple" and len(x) > i + 1:
            return x[i + 1]
        if x[0] == "phi":
            a, b = component(x[2], i), component(x[3], i)
            return None if a is None or b is None else T.phi(x[1], a, b)
        return None
    d_first = component(d, 0)
    if d_first is None:
        rep.violation("R-E4-ID", "Earth.Earth.distance", "shape", "does not return (distance, error)", obligation=True)
    else:
        swap = {T.sym("L1"): T.sym("L2"), T.sym("L2"): T.sym("L1"), T.sym("P1"): T.sym("P2"), T.sym("P2"): T.sym("P1")}
        d2 = T.subst(d_first, swap)
        from ..rules import even_norm
        if even_norm(d_first) == even_norm(d2):
            rep.ok("R-E4-ID", "Earth.Earth.distance", "distance(p1, p2) == distance(p2, p1): the symbolic results coincide after cos(-x) = cos(x), sin(-x)^2 = sin(x)^2", obligation=True)
        else:
            rep.violation("R-E4-ID", "Earth.Earth.distance", "symmetry", "the distance formula is not symmetric in its two points", obligation=True)
    # D2b coincident points: no divisor vanishes identically, the distance is 0
    rep.rule("R-SINGULAR", "on the input class where a formula is singular (coincident points) no divisor is identically zero and the stated value is returned")
    same = {names[1]: ("angle", T.sym("LON")), names[2]: ("angle", T.sym("LAT")), names[3]: ("angle", T.sym("LON")), names[4]: ("angle", T.sym("LAT"))}
    dz = component(ret_term(repo, MOD, "Earth.distance", arg_terms=same), 0)

    def decide(c):
        # a test `x == 0` / `x != 0` whose left side is identically zero on this input class is decided by the algebra
        if c[0] == "cmp" and c[1] in ("Eq", "NotEq") and c[3] == T.ZERO:
            try:
                if alg.is_zero(c[2]):
                    return c[1] == "Eq"
            except Exception:
                return None
        return None
    if dz is not None:
        from ..rules import assume
        dz = assume(dz, decide)
    site = "Earth.Earth.distance[coincident]"
    if dz is None:
        rep.inconcl("R-SINGULAR", site, "result shape not understood")
    else:
        zero_div = None
        for x in T.walk(dz):
            if x[0] == "pow" and x[2][0] == "num" and x[2][1] < 0:
                try:
                    if alg.is_zero(x[1]):
                        zero_div = x[1]
                        break
                except Exception:
                    pass
        if zero_div is not None:
            rep.violation("R-SINGULAR", "Earth.Earth.distance", "coincident-zero-division",
                          "for coincident points the divisor %s is identically zero: ZeroDivisionError instead of the distance 0" % T.show(zero_div)[:70], obligation=True)
        else:
            try:
                is0 = dz == T.ZERO or alg.is_zero(dz)
            except Exception:
                is0 = None
            if is0:
                rep.ok("R-SINGULAR", site, "distance(p, p) folds to 0 (the singular case s == 0 is returned before any division)", obligation=True)
            elif is0 is None:
                rep.inconcl("R-SINGULAR", site, "value for coincident points not reduced: " + T.show(dz)[:80])
            else:
                rep.violation("R-SINGULAR", "Earth.Earth.distance", "coincident-nonzero", "distance(p, p) is not 0: " + T.show(dz)[:80], obligation=True)
    # D2c Andoyer-Lambert recipe on every value-returning path
    andoyer(repo, rep, d, alg)
    # D3 parallax constant
    for q in ("Earth.parallax_correction", "Earth.parallax_ecliptical"):
        rep.fn(MOD, q)
        t = ret_term(repo, MOD, q)
        sp = T.call("sin", T.mul(T.num(Fraction("8.794") / 3600), D2R))
        hits = [x for x in T.walk(t) if x[0] == "mul" and sp in x[1:]]
        dist_names = [a.arg for a in repo.func(MOD, q).args.args if a.arg == "distance"]
        ok = bool(hits) and bool(dist_names) and all(T.power(T.sym("distance"), T.num(-1)) in x[1:] for x in hits)
        if ok:
            rep.ok("R-E4-ID", MOD + "." + q, "sin(pi) = sin(8.794 arcsec)/distance at %d site(s)" % len(hits), obligation=True)
        else:
            rep.violation("R-E4-ID", MOD + "." + q, "parallax-constant", "horizontal parallax is not sin(8.794 arcsec)/distance", obligation=True)
    parallax_recipe(repo, rep)
    fam = [(MOD, "Earth." + q) for q in ("rho", "rho_sinphi", "rho_cosphi", "rp", "linear_velocity", "rm", "distance", "parallax_correction", "parallax_ecliptical")] + \
          [(MOD, "Ellipsoid.b"), (MOD, "Ellipsoid.e")]
    units.check_functions(repo, rep, fam)
    guards.check_functions(repo, rep, fam)
    effects.check_functions(repo, rep, fam)
    # premise of the evaluator: Angle / Epoch operators mean what their names say and leave their operands alone
    from ..premises import operator_semantics
    operator_semantics(repo, rep)
    return "other"


def subst_trig(t, ang, sin_v, cos_v):
    mp = {T.call("sin", ang): sin_v, T.call("cos", ang): cos_v}
    return T.subst(t, mp)
