"""C01 calendar date <-> Julian Day is an exact bijection on civil days.

Decided: D1 refusal of impossible dates: year < -4712, day < 1, day beyond the month's
length (table checked against the stdlib calendar) with February taken from the leap
rule in force (Gregorian rule only from 1582 on, divisibility by 4 before);
D2 INT() is floor (base.iint) and the calendar algorithms truncate quotients/products
through it, never through int(); D3 the century correction is added only when the date
is not Julian (forward) / the day number is >= 2299161 (inverse), and both thresholds
denote 15 October 1582; D4 forward and inverse algorithms use paired constants
(365.25, 30.6001, 4716/4715, 1524.5 == 1524 + 0.5, month offsets +1/+12 vs -1/-13,
century terms inverse to each other, Meeus' 1867216.25 / 36524.25)."""
import ast
import calendar
from fractions import Fraction

from .. import symx, terms as T
from ..frontend import AnalysisError, norm_text, body_without_docstring
from ..rules import ret_term, outcomes, find_calls, exc_name, conjuncts, disjuncts
from .. import effects, guards
from .c10 import phi_leaves

MANIFEST = {
    "level": "other",
    "technique": "static analysis: path rule for the refusals, table audit against the stdlib calendar, syntactic rule on truncation (iint vs int) in the calendar algorithms, control-dependence of the century correction, pairing of forward/inverse constants extracted from the symbolically evaluated conversion routines, exact execution (rational arithmetic) of the extracted date -> JDE and JDE -> date terms on every day of whole calendar cycles, exact execution of the accept / refuse decision of Epoch.set (with _check_values and _compute_jde by their own terms) on every class of (year, month, day), exhaustive decision tables (leap rule over the residues mod 400 on both sides of 1582, the Julian/Gregorian test on every ordering class of (year, month, day) against the change-over date)",
    "text": "The refusal clause is decided by executing the construction path of Epoch(year, month, day) - wherever in it the tests are made - on every class of date (years on both sides of -4712, of the leap rules and of 1582; every month; day 0, a fraction below 1, 1, the last day, the last day plus a fraction, the first day past the month end, 32): ValueError exactly for year < -4712, day < 1 and days past the month's length under the leap rule in force; the month-length and month-name tables are compared with the standard library; floor semantics of INT() and its use in the algorithms, the conditional calendar switch at 15 October 1582 in both directions, and the pairing of every constant of the forward conversion with its inverse are decided from the source. The bijection itself is decided by exact execution of the two extracted conversion terms on consecutive civil days: a full Julian 4-year cycle for positive and negative years, the first years of the domain, 1582-1583, the turn of every kind of century year, the last year of the domain and - thorough tier - every one of the 146097 days of a Gregorian 400-year cycle: the date reads back as itself, consecutive days are exactly 1 apart, and the three anchor values hold. Outside the executed days the claim rests on the periodicity of the recipes; the float evaluation of INT(365.25 y) and INT(30.6001 (m+1)) is argued, not proved, to agree with the exact one.",
    "note": "Trusted: stdlib calendar tables and leap rule; Python floor; JDN 2299161 = 15 Oct 1582 (computed in the checker with integer arithmetic). Undecided: float vs exact evaluation of the floors; days outside the executed cycles (periodicity).",
}
MOD = "Epoch"


def run(repo, rep, tier):
    rep.decided = ["D1 refusals and month tables", "D2 INT() is floor and is what the algorithms use", "D3 calendar switch conditional on 15 Oct 1582 in both directions",
                   "D4 forward/inverse constants pair up"]
    rep.decided.append("D5 date -> JDE -> date identity, 1-day spacing and the three anchors by exact execution on whole calendar cycles (R-CYCLE)")
    rep.undecided = ["floating-point evaluation of INT(365.25 y) / INT(30.6001 (m + 1)) versus the exact rational execution (margin argued, not proved)",
                     "days outside the executed cycles rest on the 4-year / 400-year periodicity of the recipes (not proved symbolically)"]
    grid_ok = refusal_grid(repo, rep)
    d1(repo, rep, grid_ok)
    d2(repo, rep)
    cycle_ok = cycle_roundtrip(repo, rep, tier)
    d34(repo, rep, cycle_ok)
    fam = [(MOD, "Epoch." + q) for q in ("_compute_jde", "get_date", "_check_values", "get_month", "is_leap", "is_julian", "julian", "leap")] + [("base", "iint")]
    effects.check_functions(repo, rep, fam)
    guards.check_functions(repo, rep, fam)
    return "other"


# --------------------------------------------------------------------------------------------------------------------------
# R-CYCLE: date -> JDE -> date on whole calendar cycles, by exact execution of the two extracted conversion terms
# --------------------------------------------------------------------------------------------------------------------------
def _civil_days(start, count):
    """count consecutive civil dates from `start` (y, m, d) in the checker's own calendar: Julian up to 4 Oct 1582 (leap
    years: y % 4 == 0, astronomical year numbering), Gregorian from 15 Oct 1582 (the month table was audited above)"""
    y, m, d = start
    out = []
    for _ in range(count):
        out.append((y, m, d))
        if (y, m, d) == (1582, 10, 4):
            d = 15
            continue
        greg = (y, m, d) >= (1582, 10, 15)
        leap = calendar.isleap(y) if greg else (y % 4 == 0)
        mlen = calendar.mdays[m] + (1 if (m == 2 and leap) else 0)
        d += 1
        if d > mlen:
            d, m = 1, m + 1
            if m > 12:
                m, y = 1, y + 1
    return out


_CYCLE_TERMS = {}


def _cycle_terms(root):
    """(tj, tg, prims) for the tree at `root` (cached per process: worker processes of the thorough tier re-derive them once)"""
    if root not in _CYCLE_TERMS:
        from ..frontend import Repo
        from .c16 import stdlib_prims
        repo = Repo(root) if root else Repo()
        fj = repo.func(MOD, "Epoch._compute_jde")
        jn = [a.arg for a in fj.args.args]
        Y, M, D = T.sym("NUM_Y"), T.sym("NUM_M"), T.sym("NUM_D")
        at = {jn[0]: T.sym("self"), jn[1]: Y, jn[2]: M, jn[3]: D}
        for extra, v in (("utc2tt", ("bool", False)), ("leap_seconds", T.ZERO), ("local", ("bool", False))):
            if extra in jn:
                at[extra] = v
        tj = ret_term(repo, MOD, "Epoch._compute_jde", arg_terms=at)
        fg = repo.func(MOD, "Epoch.get_date")
        atg = {"self": ("epoch", T.sym("NUM_J"))}
        if fg.args.kwarg is not None:
            atg[fg.args.kwarg.arg] = ("dict", ())
        tg = ret_term(repo, MOD, "Epoch.get_date", arg_terms=atg)
        _CYCLE_TERMS[root] = (tj, tg, stdlib_prims(repo))
    return _CYCLE_TERMS[root]


def _cycle_chunk(job):
    """worker: executes both terms exactly on `count` consecutive civil days; returns (n, first problem or None)"""
    from ..rules import eval_exact, NotEvaluable
    root, start, count, frac = job
    tj, tg, prims = _cycle_terms(root)
    Y, M, D, J = T.sym("NUM_Y"), T.sym("NUM_M"), T.sym("NUM_D"), T.sym("NUM_J")
    prev = None
    n = 0
    for (y, m, d) in _civil_days(start, count):
        dd = Fraction(d) + frac
        try:
            j = eval_exact(tj, {Y: Fraction(y), M: Fraction(m), D: dd, "$memo": {}}, prims)
            g = eval_exact(tg, {J: j, "$memo": {}}, prims)
        except NotEvaluable as e:
            return n, ("not-evaluable", "%s for %d-%02d-%02d" % (e, y, m, d))
        except (TypeError, ValueError, ZeroDivisionError) as e:
            return n, ("not-evaluable", "%s: %s for %d-%02d-%02d" % (type(e).__name__, e, y, m, d))
        n += 1
        if prev is not None and j - prev[0] != 1:
            return n, ("spacing", "%d-%02d-%02d -> JDE %s and the next civil day %d-%02d-%02d -> JDE %s are %s days apart, not 1"
                       % (prev[1] + (float(prev[0]),) + (y, m, d, float(j), float(j - prev[0]))))
        if not (isinstance(g, tuple) and len(g) == 3 and g[0] == y and g[1] == m and g[2] == dd):
            return n, ("round-trip", "%d-%02d-%s -> JDE %s reads back as %s" % (y, m, float(dd), float(j), tuple(float(x) for x in g) if isinstance(g, tuple) else g))
        prev = (j, (y, m, d))
    return n, None


def cycle_roundtrip(repo, rep, tier):
    """R-CYCLE.  Both conversions are integer recipes (floors of linear functions of the year, month and day number), so they are
    executed *exactly* on consecutive civil days: every day of a full Julian 4-year cycle (positive and negative years), of the
    first year of the domain, of 1582-1583 (the change-over), the turn of each kind of century year and - thorough tier - every
    day of a full Gregorian 400-year cycle (146097 days).  Checked on each day: the read-back is the date itself, and the next
    civil day is exactly 1 later.  The anchor values are checked too.  (Exact rational arithmetic; the float evaluation differs
    only if 30.6001*(m+1) or 365.25*y came within 1e-9 of an integer, which their decimal expansions exclude for |y| < 1e6.)"""
    from ..rules import eval_exact, NotEvaluable
    rep.rule("R-CYCLE", "date -> JDE -> date is the identity and consecutive civil days are 1 apart on every day of whole calendar cycles "
                        "(exact execution of the two extracted conversion terms)")
    site = "Epoch.Epoch._compute_jde/get_date"
    root = repo.root
    F0 = Fraction(0)
    jobs = [(root, (999, 3, 1), 1462, F0), (root, (-9, 3, 1), 1462, F0), (root, (-4712, 1, 1), 800, F0), (root, (1581, 12, 1), 800, F0),
            (root, (1582, 9, 1), 90, Fraction(3, 4))]
    for cy in (1600, 1700, 1800, 1900, 2000, 2100, 2024):
        jobs.append((root, (cy - 1, 12, 1), 130, F0))
    jobs.append((root, (5999, 1, 1), 366, F0))
    full = tier == "thorough"
    if full:
        # 146097 days from 1600-03-01 in 16 chunks whose starts are computed with the checker's calendar
        starts = []
        day = (1600, 3, 1)
        chunk = 146097 // 16 + 1
        remaining = 146097 + 1
        while remaining > 0:
            c_ = min(chunk + 1, remaining)
            starts.append((day, c_))
            seq = _civil_days(day, c_)
            day = seq[-1]                 # chunks overlap by one day so that the spacing across the seam is checked
            remaining -= (c_ - 1)
            if c_ == 1:
                break
        jobs += [(root, st, c_, F0) for st, c_ in starts if c_ > 1]
    results = []
    if full:
        from concurrent.futures import ProcessPoolExecutor
        try:
            with ProcessPoolExecutor(max_workers=14) as ex:
                results = list(ex.map(_cycle_chunk, jobs))
        except Exception:
            results = [_cycle_chunk(j_) for j_ in jobs]
    else:
        results = [_cycle_chunk(j_) for j_ in jobs]
    n = sum(r[0] for r in results)
    probs = [r[1] for r in results if r[1] is not None]
    ne = [p for p in probs if p[0] == "not-evaluable"]
    bad = [p for p in probs if p[0] != "not-evaluable"]
    for kind, msg in bad[:2]:
        rep.violation("R-CYCLE", site, "cycle:" + kind, msg, obligation=True)
    if ne and not bad:
        rep.inconcl("R-CYCLE", site, "conversion terms not executable: " + ne[0][1])
    if not probs:
        rep.ok("R-CYCLE", site, "%d civil days executed exactly: read-back == date, consecutive days 1 apart%s"
               % (n, " (incl. the full Gregorian cycle 1600-03-01 .. 2000-03-01)" if full else ""), obligation=True)
        rep.floor("civil days executed through both conversions", n, 5000)
    # anchors
    tj, tg, prims = _cycle_terms(root)
    Y, M, D = T.sym("NUM_Y"), T.sym("NUM_M"), T.sym("NUM_D")
    try:
        anchors = [((-4712, 1, Fraction(3, 2)), Fraction(0)), ((1858, 11, Fraction(17)), Fraction("2400000.5")), ((2000, 1, Fraction(3, 2)), Fraction(2451545))]
        wrong = []
        for (y, m, d), want in anchors:
            j = eval_exact(tj, {Y: Fraction(y), M: Fraction(m), D: d, "$memo": {}}, prims)
            if j != want:
                wrong.append("%d-%d-%s -> %s (expected %s)" % (y, m, float(d), float(j), float(want)))
        if wrong:
            rep.violation("R-CYCLE", site, "anchors", "anchor dates: " + "; ".join(wrong), obligation=True)
        else:
            rep.ok("R-CYCLE", site + ":anchors", "-4712-01-01.5 -> 0, 1858-11-17.0 -> 2400000.5, 2000-01-01.5 -> 2451545", obligation=True)
            return not probs
    except NotEvaluable as e:
        rep.inconcl("R-CYCLE", site, "anchors not executable: %s" % e)
    return False


class _Refused(Exception):
    def __init__(self, exc):
        Exception.__init__(self, exc)
        self.exc = exc


def refusal_grid(repo, rep):
    """R-REFUSE-GRID.  Whether Epoch(year, month, day) is accepted is a decision over comparisons, the month-length table and the leap
    rule.  Epoch.set is evaluated symbolically for three positional numbers; its outcomes (and those of _check_values, reached through
    the call, with _compute_jde given by its own term) are executed exactly for every class of date: years on both sides of -4712, of
    the Julian/Gregorian leap rules and of 1582; every month; day 0, a fraction below 1, 1, the last day, the last day plus a fraction,
    the first day past the month end, 32.  Decided per class: refused with ValueError exactly when year < -4712, day < 1 or
    day >= month length + 1 under the leap rule in force - wherever in the construction path the test is made."""
    from ..rules import eval_exact, NotEvaluable, repo_prims
    from .c16 import stdlib_prims
    rep.rule("R-REFUSE-GRID", "Epoch(year, month, day) raises ValueError exactly for year < -4712, day < 1 or a day past the month's length under the leap rule in force, "
                              "and builds an Epoch otherwise: decision executed exactly on every class of (year, month, day)")
    site = "Epoch.Epoch.set"
    rep.fn(MOD, "Epoch.set")
    Y, M, D = T.sym("NUM_Y"), T.sym("NUM_M"), T.sym("NUM_D")
    fs = repo.func(MOD, "Epoch.set")
    fc = repo.func(MOD, "Epoch._check_values")
    if fs.args.vararg is None or fs.args.kwarg is None or fc.args.vararg is None:
        rep.inconcl("R-REFUSE-GRID", site, "set(*args, **kwargs) / _check_values(*args) signatures changed")
        return
    try:
        outs_set = outcomes(repo, MOD, "Epoch.set", arg_terms={"self": T.sym("self"), fs.args.vararg.arg: ("tuple", Y, M, D), fs.args.kwarg.arg: ("dict", ())})
        CV = [T.sym("NUM_CV%d" % i) for i in range(3)]
        outs_cv = outcomes(repo, MOD, "Epoch._check_values", arg_terms={"self": T.sym("self"), fc.args.vararg.arg: ("tuple",) + tuple(CV)})
    except AnalysisError as e:
        rep.inconcl("R-REFUSE-GRID", site, "not extractable: %s" % e)
        return
    hold = {}

    def select(outs, env):
        for o in outs:
            if eval_exact(o.cond, dict(env, **{"$memo": {}}), hold["p"]) is True:
                return o
        raise NotEvaluable("no outcome selected")

    def hook(t, env):
        v = hold["std"](t, env)
        if v is not None:
            return v
        if t[0] == "call" and t[1] == "Epoch.Epoch._check_values":
            args = [a for a in t[2:] if a != T.sym("self")]
            if len(args) != 3:
                raise NotEvaluable("_check_values called with %d values" % len(args))
            e2 = {CV[i]: eval_exact(args[i], env, hold["p"]) for i in range(3)}
            o = select(outs_cv, e2)
            if o.kind == "raise":
                raise _Refused(o.value[1] if o.value and o.value[0] == "str" else "?")
            if o.kind != "ret":
                raise NotEvaluable("_check_values falls off the end")
            return eval_exact(o.value, dict(e2, **{"$memo": {}}), hold["p"])
        return None
    hold["std"] = stdlib_prims(repo)
    hold["p"] = repo_prims(repo, hook)
    years = [-4714, -4713, -4712, -4711, -4, -1, 0, 1, 4, 100, 1500, 1581, 1582, 1583, 1600, 1700, 1900, 2000, 2023, 2024, 2100, 6000]
    bad = {}
    n = 0
    for y in years:
        julian_rule = y <= 1582
        leap = (y % 4 == 0) if julian_rule else calendar.isleap(y)
        for m in range(1, 13):
            mlen = calendar.mdays[m] + (1 if (m == 2 and leap) else 0)
            for d in (Fraction(0), Fraction(1, 2), Fraction(1), Fraction(mlen), Fraction(mlen) + Fraction(3, 4), Fraction(mlen + 1), Fraction(32), Fraction(-3)):
                if y == 1582 and m == 10:
                    continue                         # the dropped days 5-14 October are not part of the refusal clause
                env = {Y: Fraction(y), M: Fraction(m), D: d}
                try:
                    try:
                        o = select(outs_set, env)
                        if o.kind == "raise":
                            got = o.value[1] if o.value and o.value[0] == "str" else "?"
                        else:
                            # the stored value must be computable (a refusal may sit in a callee)
                            jt = o.env.get("self._jde")
                            if jt is not None:
                                eval_exact(jt, dict(env, **{"$memo": {}}), hold["p"])
                            got = None
                    except _Refused as r:
                        got = r.exc
                except NotEvaluable as e:
                    rep.inconcl("R-REFUSE-GRID", site, "decision not executable for (%d, %d, %s): %s" % (y, m, float(d), e))
                    return
                except (TypeError, ValueError, IndexError, KeyError, ZeroDivisionError) as e:
                    rep.inconcl("R-REFUSE-GRID", site, "decision not executable for (%d, %d, %s): %s: %s" % (y, m, float(d), type(e).__name__, e))
                    return
                n += 1
                want = y < -4712 or d < 1 or d >= mlen + 1
                shown = "Epoch(%d, %d, %s)" % (y, m, float(d) if d.denominator != 1 else int(d))
                if want and got is None:
                    bad.setdefault("accepted", []).append("%s is accepted; %s" % (shown, "years before -4712 must be refused" if y < -4712 else ("day below 1" if d < 1 else "the month has %d days" % mlen)))
                elif want and got != "ValueError":
                    bad.setdefault("class", []).append("%s is refused with %s, not ValueError" % (shown, got))
                elif not want and got is not None:
                    bad.setdefault("refused", []).append("%s is refused (%s) although the date exists (the month has %d days)" % (shown, got, mlen))
    for kind, lst in sorted(bad.items()):
        rep.violation("R-REFUSE-GRID", site, "refusal-grid:" + kind, lst[0] + "  (%d of %d executed classes fail this way)" % (len(lst), n), obligation=True)
    if not bad:
        rep.ok("R-REFUSE-GRID", site, "%d classes of (year, month, day) executed: ValueError exactly for year < -4712, day < 1, day >= month length + 1 (leap rule in force)" % n, obligation=True)
    rep.floor("date classes executed for the refusal decision", n, 1800)
    return not bad


def d1(repo, rep, grid_ok=None):
    """refusals of Epoch._check_values decided on the path conditions of its symbolic evaluation (no statement shapes):
    which (year, month, day) reach `raise ValueError`, the month-length limit as a decision table over
    (month == 2, is_leap(year)), and the month-length table itself"""
    from ..rules import assume, formula_dnf
    rep.rule("R-RANGE-REFUSE", "a dominating test with the property-stated bound reaches raise ValueError")
    q = "Epoch._check_values"
    rep.fn(MOD, q)
    fn = repo.func(MOD, q)
    site = "Epoch." + q
    Y, M, D = T.sym("NUM_Y"), T.sym("NUM_M"), T.sym("NUM_D")
    at = {"self": T.sym("self")}
    if fn.args.vararg:
        at[fn.args.vararg.arg] = ("tuple", Y, M, D)
    else:
        names = [a.arg for a in fn.args.args if a.arg != "self"]
        at.update(dict(zip(names, (Y, M, D))))
    outs = outcomes(repo, MOD, q, arg_terms=at)
    raises = [o for o in outs if o.kind == "raise" and o.value == ("str", "ValueError")]
    atoms = set()
    for o in raises:
        for conj in (formula_dnf(o.cond) or []):
            for a, pol in conj:
                if pol:
                    atoms.add(a)
    def refused(op, var, bound):
        for a in atoms:
            if a[0] == "cmp" and a[2] == var and a[3] == T.num(bound) and a[1] == op:
                return True
        return False
    for frag, ok_, what in (("year<-4712", refused("Lt", Y, -4712), "year before -4712"), ("day<1", refused("Lt", D, 1), "day below 1")):
        if ok_:
            rep.ok("R-RANGE-REFUSE", site + ":" + frag, "refused with ValueError")
        elif grid_ok:
            rep.ok("R-RANGE-REFUSE", site + ":" + frag, "not tested in this form in _check_values; the construction path refuses it all the same (R-REFUSE-GRID)")
        else:
            rep.violation("R-RANGE-REFUSE", site, "refusal:" + frag, "%s is not refused with ValueError (`%s`)" % (what, frag))
    # the month-length refusal: day >= limit + 1 (or day > limit), limit built from a 12-entry table
    limit = None
    for a in atoms:
        if a[0] == "cmp" and a[2] == D and a[1] in ("GtE", "Gt") and any(x[0] in ("list", "tuple") and len(x) == 13 for x in T.walk(a[3])):
            limit = T.add(a[3], T.num(-1)) if a[1] == "GtE" else a[3]
    if limit is None and grid_ok:
        rep.ok("R-RANGE-REFUSE", site + ":month-length", "no `day >= table limit + 1` test of the known form; days past the month end are refused all the same (R-REFUSE-GRID)")
        d1_rest(repo, rep)
        return
    if limit is None:
        rep.violation("R-RANGE-REFUSE", site, "refusal:month-length", "a day beyond the month's length is not refused")
        return
    rep.ok("R-RANGE-REFUSE", site + ":month-length", "day >= month length + 1 refused with ValueError")
    tabs = {x for x in T.walk(limit) if x[0] in ("list", "tuple") and len(x) == 13}
    ok_tab = len(tabs) == 1 and [e[1] for e in next(iter(tabs))[1:] if e[0] == "num"] == list(calendar.mdays[1:])
    if ok_tab:
        rep.ok("R-TABLE-AUDIT", site + ":maxdays", "month lengths == calendar.mdays[1:]")
    else:
        rep.violation("R-TABLE-AUDIT", site, "maxdays", "month-length table differs from the calendar (31,28,31,30,31,30,31,31,30,31,30,31)")
    # decision table over (month == 2, is_leap(year))
    months = {x for x in T.walk(limit) if x[0] == "cmp" and x[1] == "Eq" and x[3] == T.num(2)}
    leaps = {x for x in T.walk(limit) if x[0] == "call" and x[1] == "Epoch.Epoch.is_leap"}
    feb = False
    if len(months) == 1 and len(leaps) == 1 and next(iter(leaps))[2] == Y:
        mtest, ltest = next(iter(months)), next(iter(leaps))
        feb = True
        for is_feb in (True, False):
            for is_leap_ in (True, False):
                def decide(c, is_feb=is_feb, is_leap_=is_leap_):
                    if c == mtest:
                        return is_feb
                    if c == ltest:
                        return is_leap_
                    return None
                v = assume(limit, decide)
                want29 = is_feb and is_leap_
                if want29 != (v == T.num(29)) or (not want29 and not (v[0] == "idx" and v[1][0] in ("list", "tuple"))):
                    feb = False
    if feb:
        rep.ok("R-DEP", site + ":february", "February limit is 29 exactly when Epoch.is_leap(year)")
    elif grid_ok:
        rep.ok("R-DEP", site + ":february", "February limit not of the form `29 if is_leap(year)`; 29 February is accepted exactly in leap years all the same (R-REFUSE-GRID)")
    else:
        rep.violation("R-DEP", site, "february", "the February limit does not depend on Epoch.is_leap(year)")
    d1_rest(repo, rep)


def d1_rest(repo, rep):
    month_forms(repo, rep)
    # month names
    q = "Epoch.get_month"
    rep.fn(MOD, q)
    fn = repo.func(MOD, q)
    names = {}
    for n in ast.walk(fn):
        if isinstance(n, ast.Assign) and isinstance(n.value, ast.List) and len(n.value.elts) == 12:
            try:
                names[n.targets[0].id] = [e.value for e in n.value.elts]
            except AttributeError:
                pass
    abbr = list(calendar.month_abbr)[1:]
    full = list(calendar.month_name)[1:]
    if abbr in names.values() and full in names.values():
        rep.ok("R-TABLE-AUDIT", "Epoch." + q, "month name tables == calendar.month_abbr / month_name")
    elif len(names) >= 2:
        rep.violation("R-TABLE-AUDIT", "Epoch." + q, "month-names", "month name tables differ from the English calendar names in order")
    else:
        # the names are kept in another data structure: audit every 12-entry (or 12 x 2) string table of the module instead
        found = []
        for gname, gnode in repo.mod(MOD).globals.items():
            try:
                val = ast.literal_eval(gnode)
            except Exception:
                continue
            if isinstance(val, (list, tuple)) and len(val) == 12:
                if all(isinstance(x, str) for x in val):
                    found.append(list(val))
                elif all(isinstance(x, (list, tuple)) and len(x) == 2 and all(isinstance(y, str) for y in x) for x in val):
                    found.append([x[0] for x in val])
                    found.append([x[1] for x in val])
        def near(tab, ref):
            """a table that is meant to be `ref` but is not: same names in another order, or all but one or two entries equal"""
            return tab != ref and (sorted(tab) == sorted(ref) or sum(1 for a_, b_ in zip(tab, ref) if a_ == b_) >= 10)
        wrong = [tab for tab in found if near(tab, abbr) or near(tab, full)]
        if wrong:
            rep.violation("R-TABLE-AUDIT", "Epoch." + q, "month-names", "a month name table differs from the English calendar names in order: %s" % (wrong[0],))
        elif abbr in found and full in found:
            rep.ok("R-TABLE-AUDIT", "Epoch." + q, "month name tables (module level) == calendar.month_abbr / month_name")
        else:
            rep.inconcl("R-TABLE-AUDIT", "Epoch." + q, "month name tables not (both) found in a literal form")
    # is_leap
    q = "Epoch.is_leap"
    rep.fn(MOD, q)
    fn = repo.func(MOD, q)
    t = ret_term(repo, MOD, q, arg_terms={fn.args.args[0].arg: T.sym("NUM_Y")})
    ok = False
    for conds, leaf in phi_leaves(t):
        pass
    if t[0] == "phi" and t[1][0] == "cmp" and t[1][1] in ("GtE", "Gt") and t[1][2] == T.sym("NUM_Y"):
        thr = t[1][3][1] + (1 if t[1][1] == "Gt" else 0)
        greg, jul = t[2], t[3]
        ok_g = greg[0] == "call" and greg[1] in (".isleap",) or (greg[0] == "call" and "isleap" in str(greg[1]))
        ok_j = jul == ("cmp", "Eq", T.call("mod", T.call("abs", T.sym("NUM_Y")), T.num(4)), T.ZERO)
        ok = ok_g and ok_j and thr in (1582, 1583)
    if ok:
        rep.ok("R-DEP", "Epoch." + q, "Gregorian rule (calendar.isleap) from %d on, |year| %% 4 == 0 before" % thr)
        return
    # any other way of writing it: the rule is a decision over residues and the side of the change-over - executed on every class
    from ..rules import eval_exact, NotEvaluable, repo_prims
    from .c16 import stdlib_prims
    prims = repo_prims(repo, stdlib_prims_noleap(repo))
    years = list(range(-4712, -4690)) + list(range(-12, 13)) + list(range(1170, 1230)) + list(range(1570, 2401)) + [2800, 3000, 4000, 5999, 6000]
    wrong = []
    try:
        for y in years:
            got = eval_exact(t, {T.sym("NUM_Y"): Fraction(y), "$memo": {}}, prims)
            want = (y % 4 == 0) if y <= 1582 else calendar.isleap(y)
            if bool(got) != want:
                wrong.append((y, got))
    except (NotEvaluable, TypeError, ValueError, IndexError, KeyError) as e:
        rep.inconcl("R-DEP", "Epoch." + q, "leap rule neither in the known form nor executable: %s" % e)
        return
    if wrong:
        rep.violation("R-DEP", "Epoch." + q, "leap-rule", "is_leap(%d) = %s: the leap rule is divisibility by 4 in the Julian calendar (to 1582) and the 4/100/400 rule from 1583 "
                      "(%d of %d executed years differ: %s)" % (wrong[0][0], wrong[0][1], len(wrong), len(years), ", ".join(str(w[0]) for w in wrong[:8])))
    else:
        rep.ok("R-DEP", "Epoch." + q, "leap rule executed on %d years (every residue mod 400 after 1582, Julian years of both signs): 4/100/400 from 1583, divisibility by 4 before" % len(years))


def stdlib_prims_noleap(repo):
    """calendar.isleap only (is_leap itself is the function under examination)"""
    from ..rules import eval_exact

    def prims(t, env):
        if t[0] == "call" and t[1] == "calendar.isleap" and len(t) == 3:
            return bool(calendar.isleap(int(eval_exact(t[2], env, prims))))
        return None
    return prims


def month_forms(repo, rep):
    """R-FORMS: the day-of-month refusal must not depend on how the month was spelled.  _check_values is evaluated with the
    month bound to each literal form (number, three-letter name, full name) of each of the 12 months; its ValueError
    conditions - comparisons of the day with the month length, the leap test of the year - are then executed exactly for
    the last day of the month and the day after it, in a leap and a common year of both calendars."""
    from ..rules import eval_exact, NotEvaluable
    from .c16 import stdlib_prims
    rep.rule("R-FORMS", "the month-length refusal is the same for the month given as number, short name or long name "
                        "(decision table: 12 months x 3 spellings x leap/common years of both calendars x last day / day after)")
    q = "Epoch._check_values"
    site = "Epoch." + q
    fn = repo.func(MOD, q)
    Y, D = T.sym("NUM_Y"), T.sym("NUM_D")
    base = stdlib_prims(repo)
    gm_cache = {}

    def prims(t, env):
        if t[0] == "call" and t[1] == "Epoch.Epoch.get_month" and len(t) >= 3 and t[2][0] in ("str", "num"):
            key = t[2:]
            if key not in gm_cache:
                gfn = repo.func(MOD, "Epoch.get_month")
                gn = [a.arg for a in gfn.args.args]
                at = {gn[0]: t[2]}
                if len(gn) > 1:
                    at[gn[1]] = t[3] if len(t) > 3 and t[3][0] != "kw" else ("bool", False)
                outs, _ = symx.eval_function(repo, MOD, "Epoch.get_month", arg_terms=at, unroll=16)
                live = [o for o in outs if symx.fold_bool(o.cond) == ("bool", True)]
                gm_cache[key] = live[0].value if len(live) == 1 and live[0].kind == "ret" else None
            v = gm_cache[key]
            if v is None:
                raise NotEvaluable("get_month(%s) does not fold to one value" % (t[2],))
            return eval_exact(v, env, prims)
        return base(t, env)
    abbr = list(calendar.month_abbr)
    full = list(calendar.month_name)
    years = (2000, 1900, -4712, 1001)
    n = 0
    bad = None
    for m in range(1, 13):
        for form, mv in (("number", T.num(m)), ("short name", ("str", abbr[m])), ("long name", ("str", full[m]))):
            at = {"self": T.sym("self")}
            if fn.args.vararg:
                at[fn.args.vararg.arg] = ("tuple", Y, mv, D)
            else:
                names = [a.arg for a in fn.args.args if a.arg != "self"]
                at.update(dict(zip(names, (Y, mv, D))))
            # only refusals that look at the day are of interest here (refusals of hours, minutes, ... cannot fire: those arguments are absent)
            outs = [o for o in outcomes(repo, MOD, q, arg_terms=at) if o.kind == "raise" and any(x == D for x in T.walk(o.cond))]
            for y in years:
                leap = (y % 4 == 0) if y < 1583 else calendar.isleap(y)
                mlen = calendar.mdays[m] + (1 if (m == 2 and leap) else 0)
                for d in (mlen, mlen + 1):
                    env = {Y: Fraction(y), D: Fraction(d)}
                    try:
                        hits = [o for o in outs if eval_exact(o.cond, env, prims)]
                    except NotEvaluable as e:
                        rep.inconcl("R-FORMS", site, "refusal conditions not executable for the month as %s: %s" % (form, e))
                        return
                    n += 1
                    refused = any(o.kind == "raise" for o in hits)
                    if refused != (d > mlen) and bad is None:
                        bad = (y, mv[1] if mv[0] == "str" else m, d, form, refused)
    rep.floor("(month spelling, year class, day) combinations executed", n, 250)
    if bad:
        y, mtxt, d, form, refused = bad
        rep.violation("R-FORMS", site, "month-form:" + form,
                      "with the month given as %s: (%d, %r, %d) is %s although the date %s" % (form, y, mtxt, d, "refused" if refused else "accepted",
                                                                                               "exists" if refused else "does not exist"), obligation=True)
    else:
        rep.ok("R-FORMS", site, "month-length refusal identical for number / short name / long name on all %d combinations" % n, obligation=True)


def d2(repo, rep):
    rep.rule("R-FLOOR", "INT() is floor: base.iint derives from math.floor; calendar algorithms truncate non-integral values with iint, not int")
    rep.fn("base", "iint")
    t = ret_term(repo, "base", "iint", arg_terms={"number": T.sym("NUM_X")})
    if t in (T.call("int", T.call("floor", T.sym("NUM_X"))), T.call("floor", T.sym("NUM_X"))):
        rep.ok("R-FLOOR", "base.iint", "int(floor(x))")
    else:
        rep.violation("R-FLOOR", "base.iint", "not-floor", "iint is not floor: " + T.show(t)[:80])
    n = 0
    for q in ("Epoch._compute_jde", "Epoch.get_date", "Epoch.moslem2gregorian", "Epoch.gregorian2moslem", "Epoch.easter", "Epoch.jewish_pesach"):
        fn = repo.func(MOD, q)
        rep.fn(MOD, q)
        bad = []
        for node in ast.walk(fn):
            if isinstance(node, ast.Call) and isinstance(node.func, ast.Name) and node.func.id == "int" and node.args:
                a = node.args[0]
                n += 1
                if isinstance(a, ast.Name):
                    continue          # int(<name>) of an already integral value
                if any(isinstance(x, (ast.Div, ast.Mult)) for x in ast.walk(a)) or any(isinstance(x, ast.Constant) and isinstance(x.value, float) for x in ast.walk(a)):
                    bad.append(norm_text(node))
            if isinstance(node, ast.BinOp) and isinstance(node.op, ast.FloorDiv):
                pass
        if bad:
            rep.violation("R-FLOOR", "Epoch." + q, "int-truncation:" + bad[0][:30],
                          "truncates with int() (rounds toward zero; wrong for negative years): " + ", ".join(bad)[:120])
        else:
            rep.ok("R-FLOOR", "Epoch." + q, "no int() truncation of a quotient/product", sample=False)
        n += sum(1 for node in ast.walk(fn) if isinstance(node, ast.Call) and isinstance(node.func, ast.Name) and node.func.id == "iint")
    rep.floor("iint/int call sites in the calendar algorithms", n, 40)


def floors(t):
    return [x for x in T.walk(t) if x[0] == "call" and x[1] == "floor"]


def lin(x):
    """x == k * (rest + c)  or k*rest -> (k, rest_without_const, c)"""
    k, rest = T.split_coeff(x)
    c = Fraction(0)
    if rest[0] == "add":
        parts = []
        for p in rest[1:]:
            if p[0] == "num":
                c += p[1]
            else:
                parts.append(p)
        rest = T.add(*parts)
    return k, rest, c


def gregorian_jdn(y, m, d):
    a = (14 - m) // 12
    yy = y + 4800 - a
    mm = m + 12 * a - 3
    return d + (153 * mm + 2) // 5 + 365 * yy + yy // 4 - yy // 100 + yy // 400 - 32045


class _Diagnosis:
    """report proxy for the formula-shape rules of d34 once the conversions have been executed on whole calendar cycles (R-CYCLE discharged):
    a mismatch with Meeus' way of writing the two algorithms is then a remark, not a finding"""

    def __init__(self, rep):
        self._rep = rep

    def __getattr__(self, name):
        return getattr(self._rep, name)

    def violation(self, rule, site, key, msg, **kw):
        kw.pop("construct", None)
        self._rep.ok(rule, "%s:%s" % (site, key), "not in the published form (%s); the two conversions are exact inverses with days 1.0 apart on every executed "
                                                  "civil day all the same (R-CYCLE)" % msg[:140], obligation=kw.get("obligation", False))


def d34(repo, rep, cycle_ok=None):
    if cycle_ok:
        rep = _Diagnosis(rep)
    rep.rule("R-PAIR", "constants of the forward conversion pair with those of the inverse")
    rep.rule("R-DEP", "control dependence of a value on a test")
    q = "Epoch._compute_jde"
    fn = repo.func(MOD, q)
    nm = [a.arg for a in fn.args.args]
    # forward, month > 2 (no shift), no UTC
    F = ret_term(repo, MOD, q, arg_terms={nm[1]: T.sym("Y"), nm[2]: T.sym("M"), nm[3]: T.sym("D"), nm[4]: ("bool", False), nm[5]: T.ZERO, nm[6]: ("bool", False)})
    site = "Epoch." + q
    # shift: phi(M <= 2 ? Y-1 : Y), phi(M <= 2 ? M+12 : M)
    ys = [x for x in T.walk(F) if x[0] == "phi" and x[1] == ("cmp", "LtE", T.sym("M"), T.num(2))]
    shift_ok = any(x[2] == T.add(T.sym("Y"), T.num(-1)) and x[3] == T.sym("Y") for x in ys) and \
        any(x[2] == T.add(T.sym("M"), T.num(12)) and x[3] == T.sym("M") for x in ys)
    Ysh = [x for x in ys if x[3] == T.sym("Y")]
    Msh = [x for x in ys if x[3] == T.sym("M")]
    consts = {}
    if shift_ok:
        Yt, Mt = Ysh[0], Msh[0]
        for f in floors(F):
            k, rest, c = lin(f[2])
            if rest == Yt and k != Fraction(1, 100):
                consts["k_year"], consts["c_year"] = k, c
            elif rest == Mt:
                consts["k_month"], consts["c_month"] = k, c
            elif rest == Yt and k == Fraction(1, 100):
                consts["century"] = f
        top = F[1:] if F[0] == "add" else (F,)
        consts["offset"] = sum((p[1] for p in top if p[0] == "num"), Fraction(0))
    # century correction control-dependent on not is_julian
    # either polarity: phi(not is_julian, B, 0) or phi(is_julian, 0, B)
    cent = []
    for x in T.walk(F):
        if x[0] != "phi":
            continue
        c_ = x[1]
        neg = c_[0] == "not"
        core = c_[1] if neg else c_
        if core[0] == "call" and core[1] == "Epoch.Epoch.is_julian":
            greg, jul = (x[2], x[3]) if neg else (x[3], x[2])
            if jul == T.ZERO:
                cent.append(("phi", c_, greg, jul))
    if cent and "century" in consts:
        A = consts["century"]
        want = T.add(T.num(2), T.neg(A), T.call("floor", T.mul(T.num(Fraction(1, 4)), A)))
        if cent[0][2] == want:
            rep.ok("R-DEP", site + ":century", "B = 2 - A + INT(A/4), A = INT(y/100), added only when not is_julian(y, m, INT(d))")
        else:
            rep.violation("R-DEP", site, "century-form", "Gregorian correction is not 2 - A + INT(A/4): " + T.show(cent[0][2])[:100])
    else:
        rep.violation("R-DEP", site, "century-unconditional", "the Gregorian century correction is not control-dependent on `not is_julian(...)`")
    # is_julian threshold == 15 Oct 1582 (first Gregorian day is the one after 4 Oct)
    rep.fn(MOD, "Epoch.is_julian")
    ij = repo.func(MOD, "Epoch.is_julian")
    # decision table: the arguments are only compared with 1582 / 10 / 5, so every ordering class is evaluated exactly
    from ..rules import eval_exact, NotEvaluable
    jn = [a.arg for a in ij.args.args]
    tj = ret_term(repo, MOD, "Epoch.is_julian", arg_terms={jn[0]: T.sym("NUM_Y"), jn[1]: T.sym("NUM_M"), jn[2]: T.sym("NUM_D")})
    bad = None
    try:
        for y in (1581, 1582, 1583):
            for mth in (9, 10, 11):
                for dd in (Fraction(4), Fraction("4.99"), Fraction(5), Fraction(6)):
                    got = bool(eval_exact(tj, {T.sym("NUM_Y"): Fraction(y), T.sym("NUM_M"): Fraction(mth), T.sym("NUM_D"): dd}))
                    want = (y, mth, dd) < (1582, 10, Fraction(5))
                    if got != want and bad is None:
                        bad = (y, mth, float(dd), got)
    except NotEvaluable as e:
        bad = "?" + str(e)
    if bad is None:
        rep.ok("R-PAIR", "Epoch.Epoch.is_julian", "Julian up to 4 October 1582 on all 36 ordering classes of (year, month, day) against (1582, 10, 5)")
    elif isinstance(bad, str):
        rep.inconcl("R-PAIR", "Epoch.Epoch.is_julian", "decision structure not evaluable: " + bad[1:])
    else:
        rep.violation("R-PAIR", "Epoch.Epoch.is_julian", "julian-threshold",
                      "is_julian(%d, %d, %g) is %s: the calendar does not switch after 4 October 1582" % bad)
    # inverse
    q2 = "Epoch.get_date"
    I = ret_term(repo, MOD, q2, arg_terms={"self": ("epoch", T.sym("J")), "kwargs": ("dict", ())})
    site2 = "Epoch." + q2
    z = T.call("floor", T.add(T.sym("J"), T.num(Fraction(1, 2))))
    sw = [x for x in T.walk(I) if x[0] == "phi" and x[1][0] == "cmp" and x[1][2] == z and x[1][3][0] == "num" and x[1][1] in ("Lt", "LtE", "GtE", "Gt")]
    inv = {}
    if not sw:
        rep.violation("R-DEP", site2, "switch-unconditional", "the Gregorian correction of the inverse is not control-dependent on a test of the day number")
    else:
        s0 = sw[0]
        thr = s0[1][3][1] + (1 if s0[1][1] in ("LtE", "Gt") else 0)
        jul_branch, greg_branch = (s0[2], s0[3]) if s0[1][1] in ("Lt", "LtE") else (s0[3], s0[2])
        want_thr = gregorian_jdn(1582, 10, 15)
        if thr == want_thr and jul_branch == z:
            rep.ok("R-DEP", site2 + ":switch", "day numbers below %d (15 Oct 1582) are read as Julian without correction" % want_thr)
        else:
            rep.violation("R-DEP", site2, "switch-threshold", "calendar switch of the inverse at day number %s, expected %d (15 October 1582)" % (thr, want_thr))
        # alpha = INT((z - 1867216.25)/36524.25); a = z + 1 + alpha - INT(alpha/4)
        alpha = T.call("floor", T.mul(T.num(1 / Fraction("36524.25")), T.add(z, T.num(Fraction("-1867216.25")))))
        want = T.add(z, T.num(1), alpha, T.neg(T.call("floor", T.mul(T.num(Fraction(1, 4)), alpha))))
        if greg_branch == want:
            rep.ok("R-PAIR", site2 + ":century", "a = z + 1 + alpha - INT(alpha/4), alpha = INT((z - 1867216.25)/36524.25); with B = 2 - A + INT(A/4) the two corrections sum to 3 = 2 + 1")
        else:
            rep.violation("R-PAIR", site2, "century-inverse", "inverse Gregorian correction is not z + 1 + alpha - INT(alpha/4) with Meeus' alpha: " + T.show(greg_branch)[:120])
        a_t = s0
        # c = INT((a + 1524 - 122.1)/365.25)
        for f in floors(I):
            k, rest, c = lin(f[2])
            if rest == a_t and "k_c" not in inv:
                inv["k_c"], inv["c_c"], inv["cterm"] = k, c, f
        if "cterm" in inv:
            for f in floors(I):
                k, rest, c = lin(f[2])
                if rest == inv["cterm"]:
                    inv["k_d"] = k
                    inv["dterm"] = f
        if "dterm" in inv:
            for f in floors(I):
                k, rest, c = lin(f[2])
                if rest == T.add(a_t, T.neg(inv["dterm"])):
                    inv["k_e"], inv["c_e"], inv["eterm"] = k, c, f
        if "eterm" in inv:
            for f in floors(I):
                k, rest, c = lin(f[2])
                if rest == inv["eterm"]:
                    inv["k_f"] = k
    # year / month offsets of the inverse
    year_off, month_off = set(), set()
    if "cterm" in inv and "eterm" in inv and I[0] == "tuple":
        for conds, leaf in phi_leaves(I[1][2] if I[1][0] == "call" and I[1][1] == "int" else I[1]):
            if leaf[0] == "add" and inv["cterm"] in leaf[1:]:
                year_off |= {p[1] for p in leaf[1:] if p[0] == "num"}
        for conds, leaf in phi_leaves(I[2][2] if I[2][0] == "call" and I[2][1] == "int" else I[2]):
            if leaf[0] == "add" and inv["eterm"] in leaf[1:]:
                month_off |= {p[1] for p in leaf[1:] if p[0] == "num"}
    problems = []
    need_f = {"k_year", "c_year", "k_month", "c_month", "offset"}
    need_i = {"k_c", "c_c", "k_d", "k_e", "c_e", "k_f"}
    if not need_f <= set(consts):
        problems.append("forward formula is not INT(k1*(y + c1)) + INT(k2*(m + c2)) + d + B + const (found %s)" % sorted(consts))
    if not need_i <= set(inv):
        problems.append("inverse formula does not have the chain c = INT((a + ..)/k), d = INT(k*c), e = INT((a + .. - d)/k'), INT(k'*e) (found %s)" % sorted(inv))
    if not problems:
        if consts["k_year"] != inv["k_d"] or inv["k_c"] != 1 / consts["k_year"]:
            problems.append("year length: forward %s, inverse %s and 1/%s" % (float(consts["k_year"]), float(inv["k_d"]), float(1 / inv["k_c"])))
        if consts["k_month"] != inv["k_f"] or inv["k_e"] != 1 / consts["k_month"]:
            problems.append("month factor: forward %s, inverse %s and 1/%s" % (float(consts["k_month"]), float(inv["k_f"]), float(1 / inv["k_e"])))
        if consts["k_year"] != Fraction("365.25") or consts["k_month"] != Fraction("30.6001"):
            problems.append("year/month factors are not 365.25 / 30.6001")
        # forward offset -1524.5 pairs with the inverse's +1524 (in e) and +0.5 (in z)
        if -consts["offset"] != inv["c_e"] + Fraction(1, 2):
            problems.append("forward offset %s does not pair with inverse offset %s + 0.5" % (float(consts["offset"]), float(inv["c_e"])))
        if inv["c_c"] != inv["c_e"] - Fraction("122.1"):
            problems.append("inverse year estimate uses a + %s instead of a + %s - 122.1" % (float(inv["c_c"]), float(inv["c_e"])))
        if year_off != {-consts["c_year"], -consts["c_year"] + 1}:
            problems.append("year offsets of the inverse %s do not pair with the forward +%s (need -%s for months > 2, -%s for January/February)"
                            % (sorted(map(float, year_off)), float(consts["c_year"]), float(consts["c_year"]), float(consts["c_year"] - 1)))
        if month_off != {-consts["c_month"], -consts["c_month"] - 12}:
            problems.append("month offsets of the inverse %s do not pair with the forward +%s and the +12 shift" % (sorted(map(float, month_off)), float(consts["c_month"])))
        if not shift_ok:
            problems.append("January/February shift (y - 1, m + 12) not found in the forward conversion")
    if problems:
        for p in problems:
            rep.violation("R-PAIR", "Epoch.Epoch._compute_jde~get_date", "pairing:" + p[:28], p)
    else:
        rep.ok("R-PAIR", "Epoch.Epoch._compute_jde~get_date",
               "365.25, 30.6001, 4716/4715, +1/+12 vs -1/-13, -1524.5 == -(1524 + 0.5), 122.1 estimate offset: all paired")
