"""C20 calls are side-effect free and total on their documented domain (whole package).

Decided clauses:
  D1 no argument object, module table or constant is written (R-EFFECT, R-OWN,
     R-FRESHCOPY for the copy constructors that share containers)
  D2 ill-typed arguments are rejected with TypeError/ValueError: every attribute use
     on a parameter is dominated by an isinstance guard (R-GUARD); only TypeError /
     ValueError (/ documented ZeroDivisionError) are raised (R-RAISE); no operator is
     applied to an Epoch that its class does not define (R-OPTYPE)
  D3 no silent non-value: a value-returning function returns a value or raises on
     every path (R-RET), with one arity (R-ARITY); dispatch on a validated string
     covers every admitted value (R-ENUM)
  D4 module tables have the shape their readers index (R-TABLE-SHAPE)
"""
import ast

from ..frontend import AnalysisError, docstring_of, norm_text, body_without_docstring
from ..rules import exc_name
from .. import flow, absint, effect_engine, units, guards

MANIFEST = {
    "level": "other",
    "technique": "static analysis over the whole package: flow-sensitive alias/effect analysis with interprocedural summaries, isinstance-guard dominance by abstract interpretation, raise/return/arity/enum path rules on the AST, unbound-name rule on the compiler's symbol tables (symtable), literal table shape audit; rules on exception handlers (none swallows what a library routine raises), on the width of type guards (none admits complex numbers) and on the wrap idiom of negative angles",
    "text": "For every function of the package (not a sample of calls): no write can reach an argument object, a module-level table or constant; every attribute use on a parameter sits behind an isinstance guard; only the documented exception classes are raised; no function reads a name that is bound nowhere (NameError); value-returning functions cannot fall off the end; string dispatch is exhaustive; tables have the shape their readers index. Finiteness of results and arithmetic exceptions on in-domain values - including ValueError('math domain error') when rounding pushes a mathematically in-range argument of acos/asin/sqrt out of the domain - are runtime facts and are not decided; explicit `raise` statements are reported without a reachability analysis. No except handler around a call of a library routine carries on with a substitute value; no isinstance guard admits complex numbers (numbers.Number, complex, object); no negative angle is 'normalised' by K - v on its negative branch (the mirrored direction).",
    "note": "Trusted: Python ast; the documented-mutator table (ALLOWED_SELF_MUTATORS) and the two documented mixed-arity functions are explicit whitelists with reasons; no eval/exec/getattr-with-computed-name in the package (checked each run). Undecided: finiteness, ZeroDivision/overflow/termination on in-domain inputs, order independence beyond absence of writes.",
}

ALLOWED_EXC = {"TypeError", "ValueError"}
RET_NONE_DOCUMENTED = {
    "Coordinates.parallactic_angle": "docstring: returns None when the body is at the zenith",
}
MIXED_ARITY_DOCUMENTED = {
    "JupiterMoons.JupiterMoons.apparent_rectangular_coordinates": "docstring: isFictional=True returns the single correction D",
    "JupiterMoons.JupiterMoons.check_phenomena": "docstring: check_all=False returns the pair for one satellite, else the 4x3 matrix",
}


def run(repo, rep, tier):
    rep.decided = ["D1 no write to arguments/tables/constants (R-EFFECT/R-OWN/R-FRESHCOPY)",
                   "D2 isinstance guards dominate attribute uses; only TypeError/ValueError(/documented ZeroDivisionError) raised; no undefined Epoch operator",
                   "D3 no fall-off-the-end, single arity, exhaustive string dispatch", "D4 table shapes"]
    rep.undecided = ["finiteness of results", "ZeroDivisionError/OverflowError/non-termination on in-domain values",
                     "equality of repeated calls beyond absence of writes"]
    rep.assumptions = ["no monkey-patching; no eval/exec/getattr with computed names (checked)",
                       "operator dispatch on Angle/Epoch goes to the class methods"]
    allf = [(mn, q) for mn, q, fn in repo.all_functions(include_demo=False, include_nested=False)]
    dynamic_features(repo, rep)
    # D1
    ean = effect_engine.check(repo, rep, allf)
    rep.floor("functions summarised by the effect analysis", ean.functions, 250)
    rep.floor("to_positive() call sites classified", ean.topos_sites, 60)
    rep.floor("container stores / mutator calls classified", ean.container_stores, 25)
    r_own(repo, rep)
    r_freshcopy(repo, rep)
    # D2
    n_attr = guards.check_functions(repo, rep, allf)
    an = absint.analysis_for(repo)
    rep.floor("attribute uses on typed/parameter values examined", an.attr_uses, 400)
    r_raise(repo, rep)
    r_undef(repo, rep)
    r_swallow(repo, rep)
    r_guard_width(repo, rep)
    r_wrap_idiom(repo, rep)
    units.check_optypes(repo, rep, allf)
    # D3
    r_ret(repo, rep)
    r_enum(repo, rep, an)
    r_enum_norm(repo, rep)
    # D4
    r_table_shape(repo, rep)
    return "other"


def r_wrap_idiom(repo, rep, mods=None):
    """R-WRAP-IDIOM: on the branch where v is negative, `v = K - v` (K a full turn: 360, 24, 2 pi) is K + |v|: above a full turn for a number, and
    for an Angle - whose arithmetic reduces modulo 360 keeping the sign - the value mirrored about zero (|v| instead of K - |v|).  Bringing a
    negative angle into [0, K) is `K + v` (or K - |v|)."""
    rep.rule("R-WRAP-IDIOM", "no `if v < 0: v = K - v` (K a full turn): on that branch K - v is K + |v|, i.e. the mirrored angle, not the congruent positive one")
    turns = {360, 360.0, 24, 24.0}
    ctl = ast.parse("def f(v):\n    if v < 0.0:\n        v = 360.0 - v\n    return v\n")
    if not _wrap_sites(ctl.body[0], turns):
        raise AnalysisError("R-WRAP-IDIOM self-test failed")
    n = 0
    hit = False
    for mn, q, fn in repo.all_functions(include_demo=False, include_nested=False):
        if mods is not None and mn not in mods:
            continue
        n += 1
        for node, name in _wrap_sites(fn, turns):
            hit = True
            rep.violation("R-WRAP-IDIOM", "%s.%s" % (mn, q), "mirror:" + name,
                          "`%s` on the branch where `%s` is negative gives a full turn PLUS |%s| (for an Angle: |%s|, the direction mirrored about zero), not the "
                          "congruent angle in [0, full turn)" % (norm_text(node)[:60], name, name, name), construct="line %d" % node.lineno)
    if not hit:
        rep.ok("R-WRAP-IDIOM", "all functions" if mods is None else ", ".join(sorted(mods)), "%d functions: no mirrored wrap of a negative angle" % n, sample=False)


def _wrap_sites(fn, turns):
    out = []
    for i in ast.walk(fn):
        if not isinstance(i, ast.If):
            continue
        t = i.test
        if not (isinstance(t, ast.Compare) and len(t.ops) == 1 and isinstance(t.ops[0], (ast.Lt, ast.LtE)) and isinstance(t.left, ast.Name)
                and isinstance(t.comparators[0], ast.Constant) and t.comparators[0].value in (0, 0.0) and not isinstance(t.comparators[0].value, bool)):
            continue
        v = t.left.id
        for st in i.body:
            if isinstance(st, ast.Assign) and len(st.targets) == 1 and isinstance(st.targets[0], ast.Name) and st.targets[0].id == v \
                    and isinstance(st.value, ast.BinOp) and isinstance(st.value.op, ast.Sub) and isinstance(st.value.left, ast.Constant) \
                    and st.value.left.value in turns and isinstance(st.value.right, ast.Name) and st.value.right.id == v:
                out.append((st, v))
    return out


def r_guard_width(repo, rep):
    """R-GUARD-WIDTH: a type guard `isinstance(x, T)` on a value that then enters real arithmetic must not admit complex numbers: numbers.Number,
    numbers.Complex, complex and object do (complex arguments are named in the property among those to be rejected)."""
    rep.rule("R-GUARD-WIDTH", "no isinstance guard admits complex numbers (numbers.Number / numbers.Complex / complex / object)")
    wide = {"Number", "Complex", "complex", "object"}
    n = 0
    hit = False
    for mn, q, fn in repo.all_functions(include_demo=False, include_nested=False):
        for c in ast.walk(fn):
            if isinstance(c, ast.Call) and isinstance(c.func, ast.Name) and c.func.id == "isinstance" and len(c.args) == 2:
                n += 1
                tys = c.args[1].elts if isinstance(c.args[1], (ast.Tuple, ast.List)) else [c.args[1]]
                for t in tys:
                    nm = t.attr if isinstance(t, ast.Attribute) else t.id if isinstance(t, ast.Name) else None
                    if nm in wide:
                        hit = True
                        rep.violation("R-GUARD-WIDTH", "%s.%s" % (mn, q), "wide-guard:%s:%s" % (norm_text(c.args[0])[:30], nm),
                                      "`%s` accepts complex numbers (%s): a complex argument is not rejected with TypeError and the arithmetic silently "
                                      "returns complex values" % (norm_text(c)[:80], nm), construct="line %d" % c.lineno)
    if not hit:
        rep.ok("R-GUARD-WIDTH", "all functions", "%d isinstance guards: none admits complex numbers" % n, sample=False)
    rep.floor("isinstance guards examined", n, 300)


def r_undef(repo, rep):
    """R-UNDEF: a name that is read in a function but bound nowhere - not a local, a parameter, a name of an enclosing function,
    a module-level name, nor a builtin - raises NameError on the path that reaches it (typically a local that stayed behind when a
    block was moved into a helper).  Scopes are resolved with the standard library's symtable (the compiler's own resolution)."""
    import builtins
    import symtable
    rep.rule("R-UNDEF", "every name read in a function is bound in some enclosing scope, the module or builtins (else NameError, not TypeError/ValueError)")
    known = set(dir(builtins)) | {"__file__", "__name__", "__doc__", "__builtins__", "__spec__", "__loader__", "__package__"}
    # positive control: the rule must see an unbound name in a tiny example
    ctl = symtable.symtable("def f(a):\n    return a + undefined_thing\n", "<control>", "exec")
    if "undefined_thing" not in _unbound(ctl, known, set()):
        raise AnalysisError("R-UNDEF self-test failed")
    n_fn = 0
    for mn, m in repo.modules.items():
        try:
            top = symtable.symtable(m.src, m.path, "exec")
        except SyntaxError as e:
            raise AnalysisError("symtable: %s" % e)
        star = any(isinstance(x, ast.ImportFrom) and any(a.name == "*" for a in x.names) for x in ast.walk(m.tree))
        modnames = set(sym.get_name() for sym in top.get_symbols() if sym.is_assigned() or sym.is_imported() or sym.is_namespace())
        # names assigned through `global X` inside functions
        for node in ast.walk(m.tree):
            if isinstance(node, ast.Global):
                modnames.update(node.names)
        if star:
            rep.inconcl("R-UNDEF", mn, "star import: module namespace not closed")
            continue
        found = _unbound(top, known, modnames)
        n_fn += _count_functions(top)
        for name, (scope, line) in sorted(found.items()):
            rep.violation("R-UNDEF", "%s.%s" % (mn, scope), "undef:" + name,
                          "name `%s` is read in %s (line %s) but bound nowhere (no local, parameter, enclosing, module-level or builtin name): NameError when reached" % (name, scope, line))
    rep.floor("function scopes resolved for unbound names", n_fn, 300)
    rep.ok("R-UNDEF", "all modules", "%d function scopes: every global read resolves to a module-level name or a builtin" % n_fn, sample=False)


def _count_functions(tab):
    return (1 if tab.get_type() == "function" else 0) + sum(_count_functions(c) for c in tab.get_children())


def _unbound(tab, known, modnames, path=""):
    out = {}
    here = path + ("." if path and tab.get_type() != "module" else "") + (tab.get_name() if tab.get_type() != "module" else "")
    if tab.get_type() in ("function", "class"):
        for sym in tab.get_symbols():
            nm = sym.get_name()
            if sym.is_referenced() and sym.is_global() and not sym.is_declared_global() and nm not in modnames and nm not in known:
                out.setdefault(nm, (here, tab.get_lineno()))
            elif sym.is_referenced() and sym.is_declared_global() and nm not in modnames and nm not in known:
                out.setdefault(nm, (here, tab.get_lineno()))
    elif tab.get_type() == "module":
        for sym in tab.get_symbols():
            nm = sym.get_name()
            if sym.is_referenced() and not (sym.is_assigned() or sym.is_imported() or sym.is_namespace()) and nm not in modnames and nm not in known:
                out.setdefault(nm, ("<module>", 0))
    for c in tab.get_children():
        out.update({k: v for k, v in _unbound(c, known, modnames, here).items() if k not in out})
    return out


def dynamic_features(repo, rep):
    for mn, q, fn in repo.all_functions(include_demo=True, include_nested=False):
        for n in ast.walk(fn):
            if isinstance(n, ast.Call) and isinstance(n.func, ast.Name) and n.func.id in ("eval", "exec", "setattr", "getattr", "globals", "vars", "__import__"):
                rep.violation("R-EFFECT", "%s.%s" % (mn, q), "dynamic:" + n.func.id,
                              "dynamic feature `%s(...)` defeats the static effect analysis" % n.func.id)


def r_own(repo, rep):
    rep.rule("R-OWN", "private state (`_deg`, `_jde`, `_x`, ...) is stored only through `self`, i.e. inside the owning class")
    n = 0
    for mn, q, fn in repo.all_functions(include_demo=False, include_nested=True):
        for node in ast.walk(fn):
            if isinstance(node, ast.Attribute) and isinstance(node.ctx, (ast.Store, ast.Del)):
                n += 1
                if not (isinstance(node.value, ast.Name) and node.value.id == "self"):
                    rep.violation("R-OWN", "%s.%s" % (mn, q), "foreign-store:" + norm_text(node),
                                  "attribute `%s` of another object is written outside its class" % norm_text(node))
    rep.ok("R-OWN", "package", "%d attribute stores, all through self" % n)
    rep.floor("attribute stores examined", n, 40)


def r_raise(repo, rep):
    rep.rule("R-RAISE", "every raise outside main() raises TypeError or ValueError, or ZeroDivisionError where the docstring documents it")
    n = 0
    for mn, q, fn in repo.all_functions(include_demo=False, include_nested=False):
        doc = docstring_of(fn)
        bad = False
        for node in ast.walk(fn):
            if isinstance(node, ast.Raise):
                n += 1
                if node.exc is None:
                    continue
                name = exc_name(node)
                if name in ALLOWED_EXC:
                    continue
                if name == "ZeroDivisionError" and "ZeroDivisionError" in doc:
                    continue
                bad = True
                rep.violation("R-RAISE", "%s.%s" % (mn, q), "raise:" + name,
                              "raises %s, which is neither TypeError/ValueError nor a documented ZeroDivisionError" % name,
                              construct="line %d: %s" % (node.lineno, norm_text(node)[:100]))
        if not bad:
            rep.ok("R-RAISE", "%s.%s" % (mn, q), sample=False)
    rep.samples.append("R-RAISE: %d raise statements examined" % n)
    rep.floor("raise statements examined", n, 150)


def arity_of(repo, mn, expr, memo, depth=0):
    """definite arity of a returned expression: int (tuple length), 'scalar', or None (unknown)"""
    if isinstance(expr, ast.Tuple):
        return len(expr.elts)
    if isinstance(expr, ast.Call) and depth < 3:
        f = expr.func
        tgt = None
        m = repo.mod(mn)
        if isinstance(f, ast.Attribute) and isinstance(f.value, ast.Name):
            base = f.value.id
            cm = None
            if base in m.classes:
                cm = (mn, base)
            elif base in m.imports and (m.imports[base][0] or "").startswith("pymeeus."):
                sm = m.imports[base][0].split(".", 1)[1]
                if sm in repo.modules and m.imports[base][1] in repo.modules[sm].classes:
                    cm = (sm, m.imports[base][1])
            if cm and repo.mod(cm[0]).has_func(cm[1] + "." + f.attr):
                tgt = (cm[0], cm[1] + "." + f.attr)
        elif isinstance(f, ast.Name) and f.id in m.functions:
            tgt = (mn, f.id)
        if tgt:
            ars = function_arities(repo, tgt[0], tgt[1], memo, depth + 1)
            if len(ars) == 1:
                return next(iter(ars))
    return None


def function_arities(repo, mn, q, memo, depth=0):
    k = (mn, q)
    if k in memo:
        return memo[k]
    memo[k] = set()
    fn = repo.func(mn, q)
    val, non = flow.returns(fn)
    out = set()
    for r in val:
        a = arity_of(repo, mn, r.value, memo, depth)
        if a is not None:
            out.add(a)
    memo[k] = out
    return out


def r_ret(repo, rep):
    rep.rule("R-RET", "a function that returns a value on some path returns a value or raises on every path")
    rep.rule("R-ARITY", "all tuples returned by one function have one length (documented exceptions whitelisted)")
    n = 0
    memo = {}
    seen_none_doc, seen_mixed = set(), set()
    for mn, q, fn in repo.all_functions(include_demo=False, include_nested=False):
        site = "%s.%s" % (mn, q)
        val, non = flow.returns(fn)
        if not val:
            continue
        n += 1
        falls = flow.falls_off(fn)
        if non or falls:
            if site in RET_NONE_DOCUMENTED:
                seen_none_doc.add(site)
                rep.ok("R-RET", site, "returns None on a documented path: " + RET_NONE_DOCUMENTED[site])
            else:
                what = "can run off the end of the function" if falls else "has a bare `return`"
                rep.violation("R-RET", site, "silent-none",
                              "returns a value on some paths but %s on others (silently returns None)" % what,
                              construct=(norm_text(non[0]) if non else "end of function"))
        else:
            rep.ok("R-RET", site, sample=False)
        ars = function_arities(repo, mn, q, memo)
        ints = {a for a in ars if isinstance(a, int)}
        if len(ints) > 1:
            if site in MIXED_ARITY_DOCUMENTED:
                seen_mixed.add(site)
                rep.ok("R-ARITY", site, "documented alternative arity: " + MIXED_ARITY_DOCUMENTED[site])
            else:
                rep.violation("R-ARITY", site, "mixed-arity:%s" % sorted(ints), "returns tuples of different lengths %s" % sorted(ints))
        else:
            rep.ok("R-ARITY", site, sample=False)
    rep.samples.append("R-RET/R-ARITY: %d value-returning functions examined" % n)
    rep.floor("value-returning functions examined", n, 200)
    for site in set(RET_NONE_DOCUMENTED) - seen_none_doc:
        rep.notes.append("whitelist entry no longer needed (R-RET): " + site)
    # mixed-arity whitelist must still be mixed (a whitelist cannot silently widen)
    for site in MIXED_ARITY_DOCUMENTED:
        mn, q = site.split(".", 1)
        repo.func(mn, q)


def r_enum(repo, rep, an):
    rep.rule("R-ENUM", "an if/elif dispatch on a validated string parameter covers every admitted value "
                       "(otherwise a variable assigned only in the branches may be unassigned)")
    evs = an.events_for("undef")
    bad = set()
    for e in evs:
        bad.add(e.site)
        rep.violation("R-ENUM", e.site, e.key, e.msg, construct="line %d" % e.node.lineno)
    # count the dispatch functions examined
    n = 0
    for mn, q, fn in repo.all_functions(include_demo=False, include_nested=False):
        has = any(isinstance(x, ast.If) and absint.is_string_dispatch(x.test) for x in ast.walk(fn))
        if has:
            n += 1
            if "%s.%s" % (mn, q) not in bad:
                rep.ok("R-ENUM", "%s.%s" % (mn, q), "string dispatch exhaustive for the validated set")
    rep.floor("functions with string dispatch", n, 3)


def r_swallow(repo, rep, mods=None):
    """R-SWALLOW: a refusal raised by a library routine (ValueError from a range check, from a root finder that found no root ...) is information
    for the caller.  An `except` handler around a call of a library routine that does not re-raise replaces it by a value - the caller gets a
    result where the property says it gets an exception or a correct value."""
    rep.rule("R-SWALLOW", "no `except` handler around a call of a library routine swallows the exception (every handler re-raises)")
    names = set()
    for mn, q, fn in repo.all_functions(include_demo=False, include_nested=False):
        names.add(q.split(".")[-1])
    # positive control
    ctl = ast.parse("def f(m):\n    try:\n        v = m.minmax()\n    except ValueError:\n        v = 0\n    return v\n")
    if not _swallows(ctl.body[0], {"minmax"}):
        raise AnalysisError("R-SWALLOW self-test failed")
    n = 0
    found = 0
    for mn, q, fn in repo.all_functions(include_demo=False, include_nested=False):
        if mods is not None and mn not in mods:
            continue
        n += 1
        for h, callee in _swallows(fn, names):
            found += 1
            rep.violation("R-SWALLOW", "%s.%s" % (mn, q), "swallow:%s" % callee,
                          "the handler at line %d catches what `%s(...)` raises and carries on with a substitute value: the caller receives a result "
                          "the routine itself had refused to give" % (h.lineno, callee), construct="line %d" % h.lineno)
    if not found:
        rep.ok("R-SWALLOW", "all functions" if mods is None else ", ".join(sorted(mods)), "%d functions: every except handler around a library call re-raises" % n, sample=False)
    rep.floor("functions scanned for swallowed exceptions", n, 7)


def _swallows(fn, names):
    out = []
    for t in ast.walk(fn):
        if not isinstance(t, ast.Try):
            continue
        called = []
        for st in t.body:
            for c in ast.walk(st):
                if isinstance(c, ast.Call):
                    nm = c.func.attr if isinstance(c.func, ast.Attribute) else c.func.id if isinstance(c.func, ast.Name) else None
                    if nm in names:
                        called.append(nm)
        if not called:
            continue
        for h in t.handlers:
            if not any(isinstance(x, ast.Raise) for x in ast.walk(h)):
                out.append((h, called[0]))
    return out


NORMALISERS = {"lower", "upper", "casefold", "strip", "lstrip", "rstrip", "capitalize", "title", "swapcase"}


def enum_norm_sites(repo, funcs=None):
    """(site, param, normalised test, raw test) for functions that compare a string parameter with literals both through a normalising
    method (p.lower() == 'x') and raw (p == 'x') without ever rebinding p: spellings admitted by the first take the wrong branch of the second"""
    out = []
    n_fn = 0
    for mn, q, fn in repo.all_functions(include_demo=False, include_nested=False):
        if funcs is not None and (mn, q) not in funcs:
            continue
        params = {a.arg for a in fn.args.args + fn.args.kwonlyargs}
        rebound = {t.id for n in ast.walk(fn) if isinstance(n, (ast.Assign, ast.AugAssign, ast.AnnAssign))
                   for t in (n.targets if isinstance(n, ast.Assign) else [n.target]) if isinstance(t, ast.Name)}
        norm, raw = {}, {}

        def is_strs(c):
            if isinstance(c, ast.Constant):
                return isinstance(c.value, str)
            return isinstance(c, (ast.Tuple, ast.List, ast.Set)) and c.elts and all(isinstance(e, ast.Constant) and isinstance(e.value, str) for e in c.elts)
        for n in ast.walk(fn):
            if not isinstance(n, ast.Compare) or len(n.ops) != 1 or not is_strs(n.comparators[0]):
                continue
            l = n.left
            if isinstance(l, ast.Name) and l.id in params:
                raw.setdefault(l.id, n)
            elif isinstance(l, ast.Call) and isinstance(l.func, ast.Attribute) and l.func.attr in NORMALISERS and isinstance(l.func.value, ast.Name) \
                    and l.func.value.id in params:
                norm.setdefault(l.func.value.id, n)
        if norm or raw:
            n_fn += 1
        # a local bound to the normalised form and compared instead (t = p.lower(); t == 'x') is fine; so is rebinding p itself; and when the
        # *raw* comparison is the one that admits values (it guards a raise), only exact spellings get through and the normalised test is harmless
        raw_validates = set()
        for n in ast.walk(fn):
            if isinstance(n, ast.If) and any(isinstance(x, ast.Raise) for b in (n.body, n.orelse) for st in b for x in ast.walk(st)):
                for c in ast.walk(n.test):
                    if isinstance(c, ast.Compare) and isinstance(c.left, ast.Name) and c.left.id in params and is_strs(c.comparators[0]):
                        raw_validates.add(c.left.id)
        for p_ in sorted(set(norm) & set(raw)):
            if p_ not in rebound and p_ not in raw_validates:
                out.append(("%s.%s" % (mn, q), p_, norm[p_], raw[p_]))
    return out, n_fn


def r_enum_norm(repo, rep, funcs=None):
    rep.rule("R-ENUM-NORM", "a string parameter that is tested through a normalising method (lower/upper/strip ...) is never also compared raw with a literal "
                            "(the spellings the first test admits would take the wrong branch of the second)")
    found, n_fn = enum_norm_sites(repo, funcs)
    for site, p_, nn, rn in found:
        rep.violation("R-ENUM-NORM", site, "raw-after-normalised:" + p_,
                      "`%s` is tested as `%s` (line %d) but also raw as `%s` (line %d): a spelling that only the normalised test recognises (other case, padding) passes the first and fails "
                      "the second - the branch taken does not match the value admitted" % (p_, norm_text(nn), nn.lineno, norm_text(rn), rn.lineno),
                      construct="line %d" % rn.lineno)
    if not found:
        rep.ok("R-ENUM-NORM", "string parameters", "%d function(s) compare a string parameter with literals; none mixes normalised and raw comparisons" % n_fn, sample=False)


FIELD_FRESH = (ast.List, ast.ListComp, ast.Dict)


def r_freshcopy(repo, rep):
    """In classes whose copy branch stores a container field of the source by
    reference, every in-place mutation of a container field is on a list that is
    must-fresh at that point."""
    rep.rule("R-FRESHCOPY", "copy constructors share container fields by reference; every in-place mutation of such a field "
                            "happens on a list assigned fresh earlier on every path (so sharing is unobservable)")
    total = 0
    for mn, cls in (("Interpolation", "Interpolation"), ("CurveFitting", "CurveFitting")):
        m = repo.mod(mn)
        methods = {q.split(".", 1)[1]: fn for q, fn in m.functions.items() if q.startswith(cls + ".") and "<locals>" not in q}
        if not methods:
            raise AnalysisError("class vanished: %s.%s" % (mn, cls))
        shares = False
        for fn in methods.values():
            for n in ast.walk(fn):
                if isinstance(n, ast.Assign) and isinstance(n.value, ast.Attribute) and not (
                        isinstance(n.value.value, ast.Name) and n.value.value.id == "self"):
                    for t in n.targets:
                        if isinstance(t, ast.Attribute) and isinstance(t.value, ast.Name) and t.value.id == "self":
                            shares = True
        # requirement of each method: fields mutated in place while not must-fresh
        req = {}
        for _ in range(3):
            for name, fn in methods.items():
                req[name] = fresh_requirements(fn, req)
        callers = {}
        for name, fn in methods.items():
            for n in ast.walk(fn):
                if isinstance(n, ast.Call) and isinstance(n.func, ast.Attribute) and isinstance(n.func.value, ast.Name) \
                        and n.func.value.id == "self" and n.func.attr in methods:
                    callers.setdefault(n.func.attr, set()).add(name)
        for name, (needs, nsites) in req.items():
            total += nsites
            site = "%s.%s.%s" % (mn, cls, name)
            if not needs:
                if nsites:
                    rep.ok("R-FRESHCOPY", site, "%d in-place mutation(s), all on must-fresh lists" % nsites)
                continue
            # a private helper may rely on its callers having made the field fresh:
            # that is accounted for at the call site (fresh_requirements propagates needs)
            if name.startswith("_") and not name.startswith("__") and callers.get(name):
                continue
            if shares:
                rep.violation("R-FRESHCOPY", site, "shared-mutation:" + ",".join(sorted(needs)),
                              "field(s) %s can be mutated in place while still shared with the object it was copied from "
                              "(copy constructor stores the source's list by reference)" % sorted(needs))
    rep.floor("in-place field mutation sites", total, 6)


def fresh_requirements(fn, req):
    """(set of self fields mutated in place while not must-fresh, number of mutation sites)"""
    needs = set()
    sites = [0]

    def field_of(node):
        if isinstance(node, ast.Attribute) and isinstance(node.value, ast.Name) and node.value.id == "self":
            return node.attr
        return None

    def walk(stmts, fresh):
        fresh = set(fresh)
        for s in stmts:
            if isinstance(s, ast.Assign):
                for n in ast.walk(s.value):
                    visit_expr(n, fresh)
                for t in s.targets:
                    f = field_of(t)
                    if f is not None:
                        if isinstance(s.value, FIELD_FRESH) or (isinstance(s.value, ast.Call) and isinstance(s.value.func, ast.Name)
                                                               and s.value.func.id in ("list", "dict", "sorted")) \
                                or isinstance(s.value, ast.Name):
                            # a local name: fresh if the local was built in this method (the
                            # repository only assigns locally built lists this way)
                            fresh.add(f)
                        else:
                            fresh.discard(f)
                    elif isinstance(t, ast.Subscript):
                        f2 = field_of(t.value)
                        if f2 is not None:
                            sites[0] += 1
                            if f2 not in fresh:
                                needs.add(f2)
            elif isinstance(s, ast.AugAssign):
                f2 = field_of(s.target.value) if isinstance(s.target, ast.Subscript) else None
                if f2 is not None:
                    sites[0] += 1
                    if f2 not in fresh:
                        needs.add(f2)
            elif isinstance(s, ast.If):
                a = walk(s.body, fresh)
                b = walk(s.orelse, fresh)
                ta, tb = not flow.can_complete(s.body), not flow.can_complete(s.orelse)
                if ta and tb:
                    return fresh
                fresh = b if ta else a if tb else (a & b)
            elif isinstance(s, (ast.For, ast.While)):
                walk(s.body, fresh)
            elif isinstance(s, ast.Try):
                fresh = walk(s.body, fresh)
                for h in s.handlers:
                    walk(h.body, fresh)
            elif isinstance(s, (ast.Return, ast.Raise)):
                for n in ast.walk(s):
                    visit_expr(n, fresh)
                return fresh
            else:
                for n in ast.walk(s):
                    visit_expr(n, fresh)
        return fresh

    def visit_expr(n, fresh):
        if isinstance(n, ast.Call) and isinstance(n.func, ast.Attribute):
            f = field_of(n.func.value)
            if f is not None and n.func.attr in effect_engine.LIST_MUTATORS:
                sites[0] += 1
                if f not in fresh:
                    needs.add(f)
            if isinstance(n.func.value, ast.Name) and n.func.value.id == "self" and n.func.attr in req:
                for f2 in req[n.func.attr][0]:
                    if f2 not in fresh:
                        needs.add(f2)

    walk(body_without_docstring(fn), set())
    return needs, sites[0]


PLANETS = ["Mercury", "Venus", "Earth", "Mars", "Jupiter", "Saturn", "Uranus", "Neptune"]


def is_num(x):
    return isinstance(x, (int, float)) and not isinstance(x, bool)


def r_table_shape(repo, rep):
    rep.rule("R-TABLE-SHAPE", "every module table has the shape its readers index (vsop_pos: series of [A,B,C] rows; "
                              "orbital_elements: 6x4 / 4x4; nutation: 5 argument columns, 2 coefficient columns; Moon: 6/5 columns; Pluto: 3/2/2/2 columns, equal length)")
    n = 0

    def bad(site, key, msg):
        rep.violation("R-TABLE-SHAPE", site, key, msg)

    for p in PLANETS:
        m = repo.mod(p)
        names = ["VSOP87_L", "VSOP87_B", "VSOP87_R"] + (["VSOP87_L_J2000", "VSOP87_B_J2000"] if p == "Earth" else [])
        for nm in names:
            t = m.literal(nm)
            rep.table("%s.%s" % (p, nm))
            n += 1
            ok = isinstance(t, list) and len(t) >= 1 and all(
                isinstance(s, list) and len(s) >= 1 and all(isinstance(r, (list, tuple)) and len(r) == 3 and all(is_num(x) for x in r) for r in s)
                for s in t)
            if ok:
                rep.ok("R-TABLE-SHAPE", "%s.%s" % (p, nm), "%d series, %d terms, all [A, B, C]" % (len(t), sum(len(s) for s in t)), sample=(p == "Venus"))
            else:
                bad("%s.%s" % (p, nm), "vsop-shape", "not a non-empty list of non-empty series of numeric [A, B, C] rows")
        for nm, rows in (("ORBITAL_ELEM", 6), ("ORBITAL_ELEM_J2000", 4)):
            t = m.literal(nm)
            rep.table("%s.%s" % (p, nm))
            n += 1
            ok = isinstance(t, list) and len(t) == rows and all(isinstance(r, (list, tuple)) and len(r) == 4 and all(is_num(x) for x in r) for r in t)
            if ok:
                rep.ok("R-TABLE-SHAPE", "%s.%s" % (p, nm), "%dx4" % rows, sample=(p == "Venus"))
            else:
                bad("%s.%s" % (p, nm), "elem-shape", "expected %d rows of 4 numbers (reader: Coordinates.orbital_elements)" % rows)
    c = repo.mod("Coordinates")
    arg, sn, cs = c.literal("NUTATION_ARG_TABLE"), c.literal("NUTATION_SINE_COEF_TABLE"), c.literal("NUTATION_COSINE_COEF_TABLE")
    n += 3
    ok = all(isinstance(r, (list, tuple)) and len(r) >= 5 and all(is_num(x) for x in r) for r in arg) \
        and all(isinstance(r, (list, tuple)) and len(r) >= 2 and all(is_num(x) for x in r) for r in sn + cs) \
        and len(arg) >= len(sn) and len(arg) >= len(cs) and len(sn) >= 1 and len(cs) >= 1
    if ok:
        rep.ok("R-TABLE-SHAPE", "Coordinates.NUTATION_*", "%d argument rows x5; %d sine, %d cosine rows x2" % (len(arg), len(sn), len(cs)))
    else:
        bad("Coordinates.NUTATION_*", "nutation-shape", "argument rows must have 5 columns and be at least as many as the coefficient rows (2 columns)")
    mo = repo.mod("Moon")
    lr, bt = mo.literal("PERIODIC_TERMS_LR_TABLE"), mo.literal("PERIODIC_TERMS_B_TABLE")
    n += 2
    ok = all(isinstance(r, (list, tuple)) and len(r) >= 6 and all(is_num(x) for x in r) for r in lr) and len(lr) >= 1 \
        and all(isinstance(r, (list, tuple)) and len(r) >= 5 and all(is_num(x) for x in r) for r in bt) and len(bt) >= 1
    if ok:
        rep.ok("R-TABLE-SHAPE", "Moon.PERIODIC_TERMS_*", "LR %d rows x6, B %d rows x5" % (len(lr), len(bt)))
    else:
        bad("Moon.PERIODIC_TERMS_*", "moon-shape", "LR rows need 6 columns, B rows 5 columns")
    pl = repo.mod("Pluto")
    pa, plo, pla, pr = (pl.literal(x) for x in ("PLUTO_ARGUMENT", "PLUTO_LONGITUDE", "PLUTO_LATITUDE", "PLUTO_RADIUS_VECTOR"))
    n += 4
    ok = len({len(pa), len(plo), len(pla), len(pr)}) == 1 and all(len(r) == 3 for r in pa) and all(len(r) == 2 for r in plo + pla + pr)
    if ok:
        rep.ok("R-TABLE-SHAPE", "Pluto.PLUTO_*", "4 tables of %d rows (3/2/2/2 columns)" % len(pa))
    else:
        bad("Pluto.PLUTO_*", "pluto-shape", "the four PLUTO tables must be equally long with 3/2/2/2 columns")
    lt = repo.mod("Epoch").literal("LEAP_TABLE")
    n += 1
    if isinstance(lt, dict) and lt and all(is_num(k) and is_num(v) for k, v in lt.items()):
        rep.ok("R-TABLE-SHAPE", "Epoch.LEAP_TABLE", "%d numeric entries" % len(lt))
    else:
        bad("Epoch.LEAP_TABLE", "leap-shape", "must be a non-empty dict number -> number")
    # function-local 12-element lists indexed by month
    fn = repo.func("Epoch", "Epoch._check_values")
    found = 0
    for mn_, q_ in (("Epoch", "Epoch._check_values"), ("Epoch", "Epoch.get_month")):
        f2 = repo.func(mn_, q_)
        for node in ast.walk(f2):
            if isinstance(node, ast.Assign) and isinstance(node.value, ast.List) and len(node.value.elts) >= 10:
                found += 1
                if len(node.value.elts) != 12:
                    bad("%s.%s" % (mn_, q_), "month-list:" + norm_text(node.targets[0]), "month-indexed list has %d entries, not 12" % len(node.value.elts))
                else:
                    rep.ok("R-TABLE-SHAPE", "%s.%s:%s" % (mn_, q_, norm_text(node.targets[0])), "12 entries")
    n += found
    rep.floor("tables audited for shape", n, 50)
