"""C11 Kepler's equation is solved; two-body relations hold.

Decided: D1 true anomaly == 2*atan(sqrt((1+e)/(1-e))*tan(E/2)) of the returned E, and the node-passage
routine uses the reciprocal factor; D2 vis-viva: velocity(a(1-e), a)^2 == velocity_perihelion^2,
velocity(a(1+e), a)^2 == velocity_aphelion^2, vp*va == velocity(a, a)^2 up to the constant relation
42.1218^2/2 == 29.7847^2 (1e-4); D3 illuminated fraction == (1 + cos i)/2 with cos i the acos
argument of phase_angle; D4 node passages: E from v = -omega / 180 - omega, M == E - e sin E,
time == t + degrees(M)/n with n == 0.9856076686/a^1.5, r == a(1 - e cos E); parabolic: Barker's
constant and r == q(1 + s^2); D5 the anomaly reduction of kepler_equation keeps the sign/half
revolution bookkeeping (E = e0 * f with f = -1 exactly on the m > pi branch); radians throughout."""
import math
from fractions import Fraction

from .. import symx, terms as T
from ..frontend import AnalysisError
from ..poly import Algebra, Poly
from ..rules import ret_term, find_calls, outcomes, radians_of_angle, D2R, phi_leaves
from .. import units, guards, effects

MANIFEST = {
    "level": "other",
    "technique": "static analysis: symbolic evaluation and term matching for the anomaly relations, polynomial normal form for the vis-viva / phase / node-passage identities with numeric constant relations checked to a stated tolerance, decision table of the mean-anomaly reduction on every linear piece (sign factor of E and anomaly handed to the solver), refusal conditions executed on every class of (e, a) inside the domain, interval bound of both orbit-length closed forms against the AGM value of the elliptic integral, unit inference; the solver loop unrolled to a closed term (the exit test compares a step of constant magnitude with a number) and that term proved, summand by summand, to be the n-step bisection of E - e sin E = m; the Angle / Epoch operator semantics the evaluator assumes are verified (operator conformance, operands never written)",
    "text": "The closed-form relations of the property (true anomaly, reciprocal factor in the node passage, vis-viva products, k = (1 + cos i)/2, Kepler's equation and radius in the node passage, Barker's constant) are decided symbolically for all inputs. The mean anomaly is shown to be reduced modulo 2 pi and folded to [0, pi] with E = +-e0 accordingly for either sign of M and any number of turns, and no closed-form routine refuses arguments inside the domain (circular orbit included). That Kepler's equation is solved is proved for every e in [0, 1) and every M at once, in exact real arithmetic: unrolled, the solver's result is pi/2 plus n steps pi/2^(k+1), each with the sign of m - (E_prev - e sin E_prev) at the previous partial sum and the same reduced anomaly m throughout - a bisection of an increasing function from the bracket [0, pi] - so |E - E*| <= pi/2^(n+1) and the residual is at most 360/2^(n+1) degrees (1.05e-8 with today's 34 steps, below the 5e-8 asked); another iteration scheme is reported as not decided, a bisection that stops an order of magnitude too early as a violation. Float rounding inside the loop and the half-revolution clause at runtime are not decided; the orbit length is decided as far as both closed forms staying within [2 pi b, 2 pi a] and within 1e-4 of the elliptic integral up to the switch.",
    "note": "Trusted: term/polynomial engine; Gaussian constant k = 0.01720209895 (0.9856076686 deg/day). Trusted: monotonicity of E - e sin E for e < 1 and bracket halving (textbook bisection argument, stated in the rule). Undecided: float rounding in the loop, orbit length bounds and continuity at e = 0.95.",
}
MOD = "Coordinates"


def proportional(alg, x, y):
    """x / y as a pure number (float) if the two rational functions are proportional, else None"""
    rx, ry = alg.rat(x), alg.rat(y)
    P = alg.reduce(rx.n * ry.d)
    Q = alg.reduce(ry.n * rx.d)
    if P.is_zero() or Q.is_zero():
        return None
    m = next(iter(Q.t))
    if m not in P.t:
        return None
    k = P.t[m] / Q.t[m]
    if (P - Q.scale(k)).is_zero():
        return float(k)
    return None


def orbit_length(repo, rep):
    """R-CLOSED-FORM: both branch formulas of length_orbit are extracted as closed forms in (e, a); they must be
    homogeneous of degree one in a, lie between the circumferences 2 pi b and 2 pi a, and agree with the exact
    perimeter 4 a E(e^2) (complete elliptic integral, computed by its AGM/series in the checker) to the accuracy
    documented for them (1e-4 below the switch for the mean-based formula, at the switch for Ramanujan's), which bounds
    the jump at the switch by 2e-4."""
    import math
    from ..poly import eval_numeric
    rep.rule("R-CLOSED-FORM", "closed form extracted from the source audited against the exact perimeter 4aE(e^2) on a dense grid of eccentricities "
                              "(three-valued: <= 1.1e-4 PROVED, >= 1e-3 REFUTED at/below the switch)")
    q = "length_orbit"
    site = MOD + "." + q
    rep.fn(MOD, q)
    fn = repo.func(MOD, q)
    an = [a.arg for a in fn.args.args]
    t = ret_term(repo, MOD, q, arg_terms={an[0]: T.sym("NUM_E"), an[1]: T.sym("NUM_A")})
    if not (t[0] == "phi" and t[1][0] == "cmp" and t[1][2] == T.sym("NUM_E") and t[1][3][0] == "num" and t[1][1] in ("Lt", "LtE")):
        rep.inconcl("R-CLOSED-FORM", site, "expected `formula1 if e < switch else formula2`: " + T.show(t)[:100])
        return
    sw = float(t[1][3][1])
    lo, hi = t[2], t[3]

    def exact(e):
        # 4 E(m), m = e^2, by the arithmetic-geometric mean
        a_, b_, c_ = 1.0, math.sqrt(1 - e * e), e
        s_, p2 = c_ * c_ / 2, 1.0
        for _ in range(40):
            a_, b_, c_ = (a_ + b_) / 2, math.sqrt(a_ * b_), (a_ - b_) / 2
            s_ += p2 * c_ * c_
            p2 *= 2
            if abs(c_) < 1e-17:
                break
        K = math.pi / (2 * a_)
        return 4 * K * (1 - s_)

    def val(term, e, a):
        return eval_numeric(term, {"NUM_E": e, "NUM_A": a})
    worst = {"lo": (0, 0), "hi_switch": (0, 0)}
    viol = []
    n = 0
    grid = [i / 400.0 for i in range(0, 400)] + [sw - 1e-9, sw, 0.9999]
    for e in grid:
        term, name = (lo, "lo") if e < sw else (hi, "hi")
        try:
            v1, v3 = val(term, e, 1.0), val(term, e, 3.0)
        except Exception as ex:
            rep.inconcl("R-CLOSED-FORM", site, "branch not a closed form in (e, a): %s" % ex)
            return
        n += 1
        if abs(v3 - 3 * v1) > 1e-9 * abs(v3):
            viol.append(("scale", "orbit length is not proportional to the semi-major axis at e = %g" % e))
            break
        b = math.sqrt(1 - e * e)
        if not (2 * math.pi * b * (1 - 1e-12) <= v1 <= 2 * math.pi * (1 + 1e-12)):
            viol.append(("bounds", "length_orbit(e=%g, a=1) = %.6f is outside [2 pi b, 2 pi a] = [%.6f, %.6f]" % (e, v1, 2 * math.pi * b, 2 * math.pi)))
            break
        err = abs(v1 - exact(e)) / exact(e)
        if name == "lo" and err > worst["lo"][0]:
            worst["lo"] = (err, e)
        if name == "hi" and abs(e - sw) < 1e-12:
            worst["hi_switch"] = (err, e)
    rep.floor("eccentricities audited for length_orbit", n, 400)
    for k, msg in viol:
        rep.violation("R-CLOSED-FORM", site, "orbit-length:" + k, msg, obligation=True)
    if viol:
        return
    try:
        jump = abs(val(lo, sw, 1.0) - val(hi, sw, 1.0)) / val(hi, sw, 1.0)
    except Exception:
        jump = float("nan")
    e1, at1 = worst["lo"]
    e2, _ = worst["hi_switch"]
    if e1 <= 1.1e-4 and e2 <= 1.1e-4:
        rep.ok("R-CLOSED-FORM", site, "e < %g: within %.2e of 4aE(e^2) (worst at e = %.4f); other branch at the switch within %.2e; jump %.2e; "
               "inside [2 pi b, 2 pi a] on %d eccentricities PROVED" % (sw, e1, at1, e2, jump, n), obligation=True)
    elif e1 >= 1e-3 or e2 >= 1e-3:
        rep.violation("R-CLOSED-FORM", site, "orbit-length:accuracy",
                      "the formula used for e < %g deviates from the exact perimeter by %.2e (at e = %.4f), the other one by %.2e at the switch: the orbit "
                      "length jumps by %.2e at e = %g (the published formulas agree to 1.4e-4 there)" % (sw, e1, at1, e2, jump, sw), obligation=True)
    else:
        rep.inconcl("R-CLOSED-FORM", site, "accuracy %.2e / %.2e between the proof and refutation bounds" % (e1, e2))


def node_passage_elliptic(repo, rep):
    """D4 (also used by C13, whose planetary passage_nodes all go through this routine): E from the true anomaly of the node,
    M = E - e sin E, time and radius - for both values of the node flag"""
    rep.rule("R-E4-ID", "algebraic identity / term match")
    E_, A_ = T.sym("E_"), T.sym("A")
    q = "passage_nodes_elliptic"
    rep.fn(MOD, q)
    fn = repo.func(MOD, q)
    n_ = [a.arg for a in fn.args.args]
    site = MOD + "." + q
    verdicts = []
    for asc, base in ((True, 360), (False, 180)):
        # the node flag is bound to each of its two values (partial evaluation): v = 360 - omega / 180 - omega
        t = ret_term(repo, MOD, q, arg_terms={n_[0]: ("angle", T.sym("OM")), n_[1]: T.sym("E_"), n_[2]: T.sym("A"), n_[3]: ("epoch", T.sym("T0")),
                                              n_[4]: ("bool", asc)})
        if t[0] != "tuple" or len(t) != 3 or t[1][0] != "epoch":
            verdicts.append("shape")
            continue
        vdeg = T.sub(T.num(base), T.sym("OM"))
        EE = T.mul(T.num(2), T.call("atan", T.mul(T.call("sqrt", T.div(T.sub(T.ONE, E_), T.add(T.ONE, E_))),
                                                 T.call("tan", T.mul(T.num(Fraction(1, 2)), vdeg, D2R)))))
        a3 = Algebra(atomize=True)
        try:
            ok_r = a3.equal(t[2], T.mul(A_, T.sub(T.ONE, T.mul(E_, T.call("cos", EE)))))
            M = T.sub(EE, T.mul(E_, T.call("sin", EE)))
            n = T.div(T.num(Fraction("0.9856076686")), T.mul(A_, T.call("sqrt", A_)))
            want_t = T.add(T.sym("T0"), T.div(T.mul(M, T.power(D2R, T.num(-1))), n))
            ok_t = a3.equal(t[1][1], want_t)
        except Exception:
            ok_r = ok_t = False
        verdicts.append("ok" if (ok_r and ok_t) else "r ok=%s, time ok=%s" % (ok_r, ok_t))
    if verdicts == ["ok", "ok"]:
        rep.ok("R-E4-ID", site, "E = 2*atan(sqrt((1-e)/(1+e))*tan(v/2)) with v = 360-omega / 180-omega; M = E - e sin E; time = t + degrees(M)/(0.9856076686/a^1.5); r = a(1 - e cos E)", obligation=True)
    elif "shape" in verdicts:
        rep.violation("R-E4-ID", site, "shape", "does not return (Epoch, r)", obligation=True)
    else:
        rep.violation("R-E4-ID", site, "node-passage", "elliptic node passage differs from the two-body relations (ascending: %s; descending: %s)" % tuple(verdicts), obligation=True)


def domain_total(repo, rep):
    """R-DOMAIN: the closed-form routines refuse nothing inside the domain the property quantifies over (eccentricity in
    [0, 0.999999] - the circular orbit included - and a positive semi-major axis).  The refusal conditions compare the
    arguments with constants only, so they are decided on every class: each constant they mention, its two neighbours, the
    ends and the middle of the domain."""
    import itertools
    from ..rules import outcomes, eval_exact, NotEvaluable
    rep.rule("R-DOMAIN", "no refusal (raise) is reachable for arguments inside the property's domain: decided on every class of the "
                         "arguments against the constants of the refusal conditions")
    F = Fraction
    dom = {"e": (F(0), F(999999, 1000000)), "a": (F(1, 100), F(100))}
    n = 0
    for q in ("velocity_perihelion", "velocity_aphelion", "length_orbit"):
        fn = repo.func(MOD, q)
        nm = [a_.arg for a_ in fn.args.args]
        if nm != ["e", "a"]:
            rep.inconcl("R-DOMAIN", MOD + "." + q, "signature is not (e, a)")
            continue
        syms = {x: T.sym("NUM_" + x.upper()) for x in nm}
        outs = outcomes(repo, MOD, q, arg_terms=dict(syms))
        raises_ = [o for o in outs if o.kind == "raise"]
        consts = {x: set() for x in nm}
        odd = None
        for o in raises_:
            for c in T.walk(o.cond):
                if c[0] == "cmp":
                    for x in nm:
                        if c[2] == syms[x] and c[3][0] == "num":
                            consts[x].add(F(c[3][1]))
                        elif c[3] == syms[x] and c[2][0] == "num":
                            consts[x].add(F(c[2][1]))
                        elif syms[x] in (c[2], c[3]) and c[2][0] != "num" and c[3][0] != "num":
                            odd = T.show(c)[:60]
        if odd:
            rep.inconcl("R-DOMAIN", MOD + "." + q, "a refusal condition compares an argument with something other than a constant: " + odd)
            continue
        reps = {}
        for x in nm:
            lo, hi = dom[x]
            cand = {lo, hi, (lo + hi) / 2}
            for c in consts[x]:
                cand |= {c, c - F(1, 10 ** 9), c + F(1, 10 ** 9)}
            reps[x] = sorted(v for v in cand if lo <= v <= hi)
        bad = None
        for vals in itertools.product(*[reps[x] for x in nm]):
            env = {syms[x]: v for x, v in zip(nm, vals)}
            n += 1
            hit = False
            for o in raises_:
                try:
                    hit = eval_exact(o.cond, env)
                except NotEvaluable as e_:
                    rep.inconcl("R-DOMAIN", MOD + "." + q, "refusal condition not evaluable: %s" % e_)
                    hit = None
                    break
                if hit:
                    bad = (dict(zip(nm, (float(v) for v in vals))), T.show(o.value)[:40] if o.value else "exception")
                    break
            if bad or hit is None:
                break
        if bad:
            rep.violation("R-DOMAIN", MOD + "." + q, "refuses-in-domain", "%s raises %s for %s, inside the domain of the property (e in [0, 0.999999] incl. the circular orbit, a > 0)"
                          % (q, bad[1], bad[0]), obligation=True)
        else:
            rep.ok("R-DOMAIN", MOD + "." + q, "no refusal reachable for e in [0, 0.999999], a in (0, 100] (%d refusal paths examined)" % len(raises_), obligation=True)
    rep.floor("argument classes examined for refusals inside the domain", n, 9)


def anomaly_fold(rep, site, Er):
    """R-FOLD: Kepler's equation is solved for the mean anomaly folded into [0, pi]; the returned E must be
    +e0(M mod 2pi) for M mod 2pi in (0, pi) and -e0(2pi - M mod 2pi) for M mod 2pi in (pi, 2pi), for either sign of M and any
    number of whole turns.  The part of E outside the solver loop (the sign factor) and the anomaly handed to the loop are
    piecewise linear in M - built from abs, floor, mod, copysign, comparisons and linear arithmetic only, which is verified
    first - with breakpoints at the multiples of pi, so two evaluation points per piece decide them on every piece: here the
    pieces of four consecutive turns on both sides of zero."""
    import math
    from ..poly import eval_numeric, NotAlgebraic
    rep.rule("R-FOLD", "sign factor of E and the anomaly handed to the solver, decided on every linear piece of the mean anomaly "
                       "(two points per half turn, four turns, both signs)")
    if Er is None:
        rep.inconcl("R-FOLD", site, "the eccentric anomaly is not returned as an Angle built from radians")
        return
    loops = list({x for x in T.walk(Er) if x[0] == "loopout" and x[1] == "e0"} or {x for x in T.walk(Er) if x[0] == "loopout"})
    if len(loops) != 1:
        rep.inconcl("R-FOLD", site, "expected one solver loop in the returned E, found %d" % len(loops))
        return
    L = loops[0]
    F = T.subst(Er, {L: T.sym("LOOP")})
    body = dict(L[2][4])
    cands = set()

    def maximal(t):
        if not isinstance(t, tuple) or not t or not isinstance(t[0], str):
            return
        has_m = any(x == T.sym("MA") for x in T.walk(t))
        has_l = any(x[0] in ("lv", "lt") for x in T.walk(t))
        if has_m and not has_l:
            cands.add(t)
            return
        for x in t[1:]:
            if isinstance(x, tuple):
                maximal(x)
    for _n, bt in L[2][4]:
        maximal(bt)
    if not cands:
        rep.inconcl("R-FOLD", site, "the mean anomaly does not reach the solver loop in a recognisable way")
        return
    ok_calls = {"abs", "floor", "int", "copysign", "mod", "fmod", "float"}
    for t_ in list(cands) + [F]:
        for x in T.walk(t_):
            if (x[0] == "call" and x[1] not in ok_calls) or x[0] in ("loopout", "idx", "attr", "opaque", "listcomp") \
                    or (x[0] == "sym" and x[1] not in ("MA", "pi", "d2r", "LOOP")):
                rep.inconcl("R-FOLD", site, "the anomaly reduction is not piecewise linear in M (found %s)" % T.show(x)[:50])
                return
    bad = None
    n = 0
    for kturn in (-2, -1, 0, 1):
        for base in (100.0, 130.0, 250.0, 290.0):
            Mdeg = base + 360.0 * kturn
            env = {"MA": Mdeg, "LOOP": 1.0}
            r = math.radians(base)
            want_m = r if base < 180 else 2 * math.pi - r
            want_f = 1.0 if base < 180 else -1.0
            try:
                f = float(eval_numeric(F, env))
                ms = [float(eval_numeric(c_, env)) for c_ in cands]
            except (NotAlgebraic, KeyError, ZeroDivisionError, TypeError) as e:
                rep.inconcl("R-FOLD", site, "the anomaly reduction could not be evaluated: %s" % e)
                return
            n += 1
            if abs(f - want_f) > 1e-9 and bad is None:
                bad = "M = %g deg (= %g deg mod 360): E is returned as %+g * e0, the fold needs %+g * e0" % (Mdeg, base, f, want_f)
            for m_ in ms:
                if abs(m_ - want_m) > 1e-7 and bad is None:
                    bad = "M = %g deg (= %g deg mod 360): the solver is given %.6f rad, the folded anomaly is %.6f rad" % (Mdeg, base, m_, want_m)
    rep.floor("pieces of the mean anomaly evaluated", n, 16)
    if bad:
        rep.violation("R-FOLD", site, "anomaly-reduction", "reduce M modulo 2 pi, mirror when > pi, E = +-e0: " + bad, obligation=True)
    else:
        rep.ok("R-FOLD", site + ":reduction", "M reduced modulo 2 pi and folded to [0, pi]; E = +e0 on the first half turn, -e0 on the second, for both signs of M "
                                                "and any number of turns (%d pieces)" % n, obligation=True)


def bisect_proof(repo, rep):
    """R-BISECT.  kepler_equation is evaluated with its loop unrolled; the exit test |e0 - ef| > TOL compares a step of constant
    magnitude (d * s, s = +-1) with a number, so the loop folds to a fixed number of steps and the eccentric anomaly comes out as one
    closed term.  The rule proves that this term *is a bisection of g(E) = E - e sin E against the reduced mean anomaly m*:
        E_n = pi/2 + sum_k c_k pi copysign(1, m - g(E_{k-1})),   c_k = 1/2^(k+1), k = 1..n, no gap, E_{k-1} the partial sum,
    each sign taken from m - g at the previous iterate with m the same term throughout.  g is increasing for e < 1 (g' = 1 - e cos E
    >= 1 - e > 0) and the reduced anomaly lies in [0, pi] (R-FOLD), so the root E* of g(E*) = m lies in [0, pi] = [E_0 - pi/2,
    E_0 + pi/2] and each step halves the bracket: |E* - E_n| <= c_n pi, hence |g(E_n) - m| <= (1 + e) c_n pi < 360 c_n degrees.
    With the c_n read off the term this bounds the residual of Kepler's equation for every e in [0, 1) and every M at once
    (exact real arithmetic).  Any other shape - another iteration scheme, a correction step after the loop - is INCONCLUSIVE."""
    from fractions import Fraction
    rep.rule("R-BISECT", "the returned eccentric anomaly is the n-step bisection of E - e sin E = m from [0, pi] (closed term after unrolling): "
                         "residual <= 360 / 2^(n+1) degrees <= 5e-8 for every e in [0, 1) and every M")
    q = "kepler_equation"
    site = MOD + "." + q
    fn = repo.func(MOD, q)
    names = [a.arg for a in fn.args.args]
    ECC = T.sym("NUM_E")
    try:
        outs = outcomes(repo, MOD, q, arg_terms={names[0]: ECC, names[1]: ("angle", T.sym("MA"))}, unroll=80)
    except AnalysisError as e:
        rep.inconcl("R-BISECT", site, "not unrolled: %s" % e)
        return
    rets = [o for o in outs if o.kind == "ret"]
    if len(outs) != 1 or len(rets) != 1 or rets[0].cond != ("bool", True) or rets[0].value[0] != "tuple" or len(rets[0].value) != 3:
        rep.inconcl("R-BISECT", site, "the solver does not unroll to one closed (E, v) result (%d outcome(s)): iteration count not fixed by constants" % len(outs))
        return
    Eang = rets[0].value[1]
    if Eang[0] != "angle":
        rep.inconcl("R-BISECT", site, "E is not returned as an Angle")
        return
    # the iterate: the sum with the most summands of the form  c * pi [* copysign(1, X)]
    def summand(x):
        if x[0] != "mul":
            return None
        c = [y for y in x[1:] if y[0] == "num"]
        cs = [y for y in x[1:] if y[0] == "call" and y[1] == "copysign" and len(y) == 4 and y[2] == T.ONE]
        pis = [y for y in x[1:] if y == T.PI]
        if len(c) == 1 and len(pis) == 1 and len(cs) <= 1 and len(x) - 1 == 2 + len(cs) and c[0][1] > 0:
            return c[0][1], (cs[0] if cs else None)
        return None
    best = None
    seen = set()
    stack = [Eang]
    while stack:
        x = stack.pop()
        if id(x) in seen or not isinstance(x, tuple):
            continue
        seen.add(id(x))
        if x and x[0] == "add":
            parts = [summand(y) for y in x[1:]]
            if all(p is not None for p in parts) and (best is None or len(parts) > len(best[1])):
                best = (x, parts)
        if x and x[0] == "call" and x[1] == "copysign":
            continue                      # earlier iterates live inside the signs: the outermost sum is the returned one
        stack.extend(y for y in x[1:] if isinstance(y, tuple))
    if best is None or len(best[1]) < 3:
        rep.inconcl("R-BISECT", site, "the returned E is not a sum of steps c_k * pi * (+-1)")
        return
    parts = sorted(best[1], key=lambda p: -p[0])
    n = len(parts) - 1
    if parts[0] != (Fraction(1, 2), None) or any(parts[k][0] != Fraction(1, 2 ** (k + 1)) or parts[k][1] is None for k in range(1, n + 1)):
        rep.inconcl("R-BISECT", site, "steps are not pi/2, then pi/4, pi/8, ... each with one sign factor")
        return
    # whatever multiplies / is added to that sum on the way out must be the fold sign f = +-1 and the radian -> degree factor
    # (a correction added after the loop would make the returned value something else than E_n)
    from ..rules import radians_of_angle
    Er = radians_of_angle(Eang)
    def unit(y):
        return symx.const_magnitude(y) == 1.0 or (y[0] == "phi" and all(symx.const_magnitude(l) == 1.0 for _, l in phi_leaves(y)))

    def plus_minus(t, depth=0):
        """t is +-(the iterate): the iterate itself, the iterate times factors of magnitude 1, or a selection between such terms"""
        if t is best[0] or t == best[0]:
            return True
        if t[0] == "mul":
            its = [y for y in t[1:] if y is best[0] or y == best[0]]
            return len(its) == 1 and all(unit(y) for y in t[1:] if y is not its[0])
        if t[0] == "phi" and depth < 4:
            return plus_minus(t[2], depth + 1) and plus_minus(t[3], depth + 1)
        return False
    ok_out = Er is not None and plus_minus(Er)
    if not ok_out:
        rep.inconcl("R-BISECT", site, "the returned E is not +-(the bisection iterate): something else is applied after the loop")
        return
    # signs: X_k = m - (E_{k-1} - e sin E_{k-1})
    def ids(mono):
        return sorted((tuple(sorted(id(f) if f != T.PI else 0 for f in fac_)), c) for fac_, c in mono)
    m_atom = None
    for k in range(1, n + 1):
        X = parts[k][1][3]
        mono = symx._expand_sum(X if X[0] == "add" else T.add(X, T.ZERO))
        if mono is None:
            rep.inconcl("R-BISECT", site, "sign of step %d not analysable" % k)
            return
        prev = [((T.PI,), Fraction(1, 2))] + [((T.PI, parts[j][1]), parts[j][0]) for j in range(1, k)]
        want_neg = ids([(f_, -c_) for f_, c_ in prev])
        got = ids(mono)
        rest = [g_ for g_ in got if g_ not in want_neg]
        if len([g_ for g_ in got if g_ in want_neg]) != len(want_neg) or len(rest) != 2:
            rep.inconcl("R-BISECT", site, "step %d: the sign is not taken from m - (E_prev - e sin E_prev)" % k)
            return
        # the two remaining monomials: +m (one atom) and + e * sin(E_prev)
        sin_m = [(fac_, c) for fac_, c in mono if any(f[0] == "call" and f[1] == "sin" for f in fac_)]
        m_m = [(fac_, c) for fac_, c in mono if len(fac_) == 1 and c == 1 and not (fac_[0][0] == "call" and fac_[0][1] == "sin") and fac_[0] != T.PI]
        if len(sin_m) != 1 or len(m_m) != 1 or sin_m[0][1] != 1 or len(sin_m[0][0]) != 2 or ECC not in sin_m[0][0]:
            rep.inconcl("R-BISECT", site, "step %d: the sign is not taken from m - (E_prev - e sin E_prev)" % k)
            return
        sarg = [f for f in sin_m[0][0] if f != ECC][0][2]
        amono = symx._expand_sum(sarg if sarg[0] == "add" else T.add(sarg, T.ZERO))
        if amono is None or ids(amono) != ids(prev):
            rep.inconcl("R-BISECT", site, "step %d: sin is not evaluated at the previous iterate" % k)
            return
        if m_atom is None:
            m_atom = m_m[0][0][0]
        elif m_atom is not m_m[0][0][0]:
            rep.inconcl("R-BISECT", site, "step %d compares with a different mean anomaly term" % k)
            return
    bound = 360 * float(parts[n][0])
    if bound <= 5e-8:
        rep.ok("R-BISECT", site, "E = +-(pi/2 + sum of %d halving steps, each towards the root of E - e sin E = m): |E - E*| <= pi/2^%d, residual of Kepler's equation "
               "<= %.3g deg <= 5e-8 deg for every e in [0, 1) and every M (exact real arithmetic)" % (n, n + 1, bound), obligation=True)
    elif bound / 8 > 5e-8:
        # the last iterate is off the root by up to pi/2^(n+1), uniformly over M; where g' ~ 1 + e (E near pi) the residual is that error times (1 + e):
        # a bound 8 times the tolerance means the tolerance is exceeded for most M
        rep.violation("R-BISECT", site, "resolution", "the bisection stops after %d steps at a bracket of pi/2^%d: the residual of Kepler's equation is only bounded by %.3g deg "
                      "and reaches a large fraction of that for mean anomalies in the second quadrant; the property asks 5e-8 deg" % (n, n + 1, bound), obligation=True)
    else:
        rep.inconcl("R-BISECT", site, "bisection of %d steps: residual bound %.3g deg, neither below 5e-8 deg nor far enough above it to be sure it is exceeded" % (n, bound))


def kepler_rules(repo, rep):
    """D1 / D5 (also used by C07, whose 'through Kepler's equation' clause rests on this solver): true anomaly from the returned
    eccentric anomaly, reduction of the mean anomaly and sign bookkeeping"""
    rep.rule("R-E4-ID", "algebraic identity / term match")
    q = "kepler_equation"
    rep.fn(MOD, q)
    fn = repo.func(MOD, q)
    names = [a.arg for a in fn.args.args]
    t = ret_term(repo, MOD, q, arg_terms={names[0]: T.sym("ECC"), names[1]: ("angle", T.sym("MA"))})
    site = MOD + "." + q
    if t[0] != "tuple" or len(t) != 3:
        rep.violation("R-E4-ID", site, "shape", "does not return (E, v)", obligation=True)
    else:
        Er = radians_of_angle(t[1])
        vr = radians_of_angle(t[2])
        ok = False
        if Er is not None and vr is not None:
            want = T.mul(T.num(2), T.call("atan", T.mul(T.call("sqrt", T.div(T.add(T.ONE, T.sym("ECC")), T.sub(T.ONE, T.sym("ECC")))),
                                                       T.call("tan", T.mul(T.num(Fraction(1, 2)), Er)))))
            ok = vr == want
            if not ok:
                # accept algebraically equal arguments of atan / tan
                a1, a2 = find_calls(vr, "atan"), find_calls(want, "atan")
                c1, _ = T.split_coeff(vr)
                if len(a1) == 1 and c1 == 2:
                    try:
                        ok = Algebra().equal(a1[0][2], a2[0][2])
                    except Exception:
                        ok = False
        if ok:
            rep.ok("R-E4-ID", site, "v == 2*atan(sqrt((1+e)/(1-e))*tan(E/2)) of the returned E", obligation=True)
        else:
            rep.violation("R-E4-ID", site, "true-anomaly", "true anomaly is not 2*atan(sqrt((1+e)/(1-e))*tan(E/2)) of the returned eccentric anomaly", obligation=True)
        # D5: reduction of the mean anomaly and sign bookkeeping
        anomaly_fold(rep, site, Er)


def run(repo, rep, tier):
    rep.decided = ["D1 true-anomaly relation and its reciprocal", "D2 vis-viva identities", "D3 k == (1 + cos i)/2",
                   "D4 node-passage relations (elliptic and parabolic)", "D5 sign bookkeeping of the anomaly reduction; radians"]
    rep.undecided = ["float rounding inside the bisection (the exact-arithmetic residual bound is proved: R-BISECT)", "half-revolution clause at runtime"]
    rep.decided.append("D7 Kepler's equation solved: the returned E is the n-step bisection of E - e sin E = m, residual <= 360/2^(n+1) deg <= 5e-8 deg for every e in [0, 1), every M (R-BISECT)")
    rep.decided.append("D6 orbit length: both closed forms within [2 pi b, 2 pi a], accurate to 1e-4 up to and at the switch (jump <= 2e-4)")
    rep.assumptions = ["exact real arithmetic"]
    rep.rule("R-E4-ID", "algebraic identity / term match")
    alg = Algebra()
    # ---- D1 / D5 kepler_equation
    kepler_rules(repo, rep)
    bisect_proof(repo, rep)
    # ---- D2 vis-viva
    for f_ in ("velocity", "velocity_perihelion", "velocity_aphelion"):
        rep.fn(MOD, f_)
    v = ret_term(repo, MOD, "velocity", arg_terms={"r": T.sym("R"), "a": T.sym("A")})
    fnp = repo.func(MOD, "velocity_perihelion")
    pn = [a.arg for a in fnp.args.args]
    vp = ret_term(repo, MOD, "velocity_perihelion", arg_terms={pn[0]: T.sym("E_"), pn[1]: T.sym("A")})
    fna = repo.func(MOD, "velocity_aphelion")
    an_ = [a.arg for a in fna.args.args]
    va = ret_term(repo, MOD, "velocity_aphelion", arg_terms={an_[0]: T.sym("E_"), an_[1]: T.sym("A")})
    from ..rules import inline_repo_calls
    v, vp, va = (inline_repo_calls(repo, x_, only_mod=MOD) for x_ in (v, vp, va))
    A_, E_ = T.sym("A"), T.sym("E_")
    cases = [("velocity(a(1-e), a)^2 vs velocity_perihelion^2", T.subst(T.mul(v, v), {T.sym("R"): T.mul(A_, T.sub(T.ONE, E_))}), T.mul(vp, vp)),
             ("velocity(a(1+e), a)^2 vs velocity_aphelion^2", T.subst(T.mul(v, v), {T.sym("R"): T.mul(A_, T.add(T.ONE, E_))}), T.mul(va, va)),
             ("velocity(a, a)^2 vs vp*va", T.subst(T.mul(v, v), {T.sym("R"): A_}), T.mul(vp, va))]
    for what, lhs, rhs in cases:
        k = proportional(Algebra(), lhs, rhs)
        site = MOD + ".velocity*"
        if k is None:
            rep.violation("R-E4-ID", site, "vis-viva:" + what[:20], "%s: not proportional by a pure number (the dependence on a, e differs)" % what, obligation=True)
        elif abs(k - 1.0) <= 1e-4:
            rep.ok("R-E4-ID", site + ":" + what[:24], "%s: ratio %.7f (constants 42.1218^2/2 vs 29.7847^2 agree to %.1e)" % (what, k, abs(k - 1)), obligation=True)
        else:
            rep.violation("R-E4-ID", site, "vis-viva-const:" + what[:20], "%s: same dependence on (a, e) but the numeric constants disagree, ratio %.6f" % (what, k), obligation=True)
    # ---- D3 phase
    for f_ in ("phase_angle", "illuminated_fraction"):
        rep.fn(MOD, f_)
    args = {"sun_dist": T.sym("R"), "earth_dist": T.sym("D"), "sun_earth_dist": T.sym("S")}
    pa = ret_term(repo, MOD, "phase_angle", arg_terms=args)
    il = ret_term(repo, MOD, "illuminated_fraction", arg_terms=args)
    ac = find_calls(pa, "acos")
    if len(ac) == 1 and radians_of_angle(pa) == ac[0] and alg.equal(il, T.mul(T.num(Fraction(1, 2)), T.add(T.ONE, ac[0][2]))):
        rep.ok("R-E4-ID", MOD + ".illuminated_fraction", "k == (1 + cos i)/2 with cos i the acos argument of phase_angle", obligation=True)
    else:
        rep.violation("R-E4-ID", MOD + ".illuminated_fraction", "phase-fraction", "illuminated fraction is not (1 + cos i)/2 of the phase angle", obligation=True)
    domain_total(repo, rep)
    # ---- D4 node passages
    node_passage_elliptic(repo, rep)
    q = "passage_nodes_parabolic"
    rep.fn(MOD, q)
    fn = repo.func(MOD, q)
    n_ = [a.arg for a in fn.args.args]
    site = MOD + "." + q
    verdicts = []
    kk = math.sqrt(2.0) / (3.0 * 0.01720209895)
    kfound = None
    for asc, base in ((True, 360), (False, 180)):
        t = ret_term(repo, MOD, q, arg_terms={n_[0]: ("angle", T.sym("OM")), n_[1]: T.sym("Q"), n_[2]: ("epoch", T.sym("T0")), n_[3]: ("bool", asc)})
        if t[0] != "tuple" or len(t) != 3 or t[1][0] != "epoch":
            verdicts.append("shape")
            continue
        vdeg = T.sub(T.num(base), T.sym("OM"))
        s = T.call("tan", T.mul(T.num(Fraction(1, 2)), vdeg, D2R))
        a4 = Algebra(atomize=True)
        try:
            ok_r = a4.equal(t[2], T.mul(T.sym("Q"), T.add(T.ONE, T.mul(s, s))))
            dt = T.sub(t[1][1], T.sym("T0"))
            shape = T.mul(s, T.add(T.mul(s, s), T.num(3)), T.sym("Q"), T.call("sqrt", T.sym("Q")))
            k = proportional(a4, dt, shape)
        except Exception:
            ok_r, k = False, None
        kfound = k if kfound is None else kfound
        verdicts.append("ok" if (ok_r and k is not None and abs(k / kk - 1.0) <= 1e-6) else "r ok=%s, constant %s vs %.6f" % (ok_r, k, kk))
    if verdicts == ["ok", "ok"]:
        rep.ok("R-E4-ID", site, "r == q(1 + s^2), time == t + %.6f*(s^3 + 3s)*q^1.5 with Barker's constant sqrt(2)/(3k) = %.6f (rel %.1e)" % (kfound, kk, abs(kfound / kk - 1)), obligation=True)
    elif "shape" in verdicts:
        rep.violation("R-E4-ID", site, "shape", "does not return (Epoch, r)", obligation=True)
    else:
        rep.violation("R-E4-ID", site, "parabolic-passage", "parabolic node passage differs from Barker's equation (ascending: %s; descending: %s)" % tuple(verdicts), obligation=True)
    orbit_length(repo, rep)
    fam = [(MOD, x) for x in ("kepler_equation", "velocity", "velocity_perihelion", "velocity_aphelion", "length_orbit",
                              "passage_nodes_elliptic", "passage_nodes_parabolic", "phase_angle", "illuminated_fraction", "orbital_elements")]
    units.check_functions(repo, rep, fam)
    guards.check_functions(repo, rep, fam)
    effects.check_functions(repo, rep, fam)
    # premise of the evaluator: Angle / Epoch operators mean what their names say and leave their operands alone
    from ..premises import operator_semantics
    operator_semantics(repo, rep)
    return "other"
