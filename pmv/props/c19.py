"""C19 Easter, Pesach and Moslem-calendar conversions follow their calendar rules.

Decided (Moslem <-> civil conversion; necessary conditions of the day bijection):
  D1a R-STALE-PARAM: in every JD -> date block the year is selected by the month that the
      block just recomputed from the day count (never by an input parameter);
  D1b R-CENTURY-CTRL: a century number INT(./100) enters a day count only under a
      Julian/Gregorian test (the Gregorian correction must not be applied to Julian dates);
  D1c R-THRESH-GAP: the calendar split `(x > A) or (x == B and ...)` has A == B, so no civil
      year falls between the two branches; the Julian branch goes through the day-of-year
      routine that handles Julian years (R-DATETIME-JULIAN);
  D1d the JD -> date blocks of the two conversions use the same constants as Epoch.get_date;
  D2  out-of-range arguments of the two conversions are refused with ValueError.
  D3  Easter (Gregorian and Julian branches, switch at 1583) and Pesach are the published integer recipes
      (Meeus ch. 8 and 9; Butcher's algorithm): the symbolically evaluated code equals the reference recipe
      term by term (floor / mod as uninterpreted functions of canonical arguments).
That the recipes equal the tabular Computus / arithmetic Hebrew calendar is the content of the published
algorithms and is trusted, not decided."""
import ast
import calendar
import os
from fractions import Fraction

from .. import symx, terms as T
from ..frontend import AnalysisError, norm_text
from ..rules import ret_term, outcomes, exc_name
from .. import effects, guards
from .c10 import phi_leaves
from .c16 import datetime_julian, doy2date_table

MANIFEST = {
    "level": "other",
    "technique": "static analysis: data-dependence (slicing) of the year selector on the recomputed month, control-dependence of century corrections on a calendar test, threshold-gap rule on the calendar split, sibling-constant comparison of the JD->date blocks, refusal path rule, term equality of the Easter / Pesach / Moslem recipes with the published algorithms (ring algebra with floor and mod uninterpreted), exact decision-table evaluation of the Moslem year-end carry on every ordering class and of the civil -> day-count stage of gregorian2moslem on every class of civil date (month x year mod 400 over two cycles, Julian years mod 4) against the calendar ordinal, exact execution of both Moslem conversion terms on every Moslem year 1..2500 against the arithmetic Islamic calendar and against each other, exact execution of the Easter term on every year -4712..10000 against the tabular epact Computus and of the Pesach term on every year 1..3000 against the arithmetic Hebrew calendar",
    "text": "For the Moslem <-> civil conversions the rules decide, for every date at once, three structural necessary conditions of the day bijection (year chosen from the recomputed month, Gregorian correction only in the Gregorian regime, no civil year skipped by the calendar split) plus agreement of the shared JD->date block with Epoch.get_date and the argument refusals. Easter (Gregorian from 1583, Julian before), Pesach and the Moslem -> civil day count are shown to be term-for-term the published recipes (Meeus ch. 8-9), and the Moslem year-end carry to be that of a Julian-calendar year; that is no longer a matter of trust in the book: the extracted Easter term is executed exactly on every year -4712..10000 and must be the Sunday after the tabular paschal full moon (Gregorian epact with solar and lunar corrections and the 24/25 exceptions from 1583, the 19-year Julian table before), within 22 March..25 April; the extracted Pesach term is executed exactly on every year 1..3000 and must be 15 Nisan of the arithmetic Hebrew calendar (molad plus the four postponements), 163 days before the following 1 Tishri, on a Sunday, Tuesday, Thursday or Saturday - both definitions are written out in the checker independently of the repository and are validated against published dates on every run. A recipe that differs from the published one but passes that execution is not reported. The civil -> Moslem direction is shown to count civil days uniformly (its running day count differs from the calendar ordinal by one constant on every class of date), a necessary condition of consecutive days mapping to consecutive dates. The bijection itself is decided by exact execution of both extracted conversion terms: for every Moslem year 1..2500 the first two days and 29 Dhu al-Hijja (thorough tier: every day, 885922 dates) map to an existing civil date, on the very day the arithmetic Islamic calendar (epoch 16 July 622 Julian, 30-year cycle) gives - hence consecutive dates on consecutive days, months of 29/30 and years of 354/355 days - and convert back to themselves.",
    "note": "Trusted: the reading of INT(x/100) as a century number; thresholds 1582/1583/2299161 as calendar tests. Undecided: Moslem years beyond 2500 AH; float vs exact (rational) evaluation of the floors and of Pesach's decimal constants.",
}
MOD = "Epoch"
JD_BLOCKS = ["Epoch.get_date", "Epoch.moslem2gregorian", "Epoch.gregorian2moslem"]
CENTURY_FUNCS = ["Epoch._compute_jde", "Epoch.get_date", "Epoch.easter", "Epoch.jewish_pesach", "Epoch.moslem2gregorian", "Epoch.gregorian2moslem"]
CAL_LITERALS = {Fraction(1582), Fraction(1583), Fraction(2299161), Fraction(2299160)}


def term_of(repo, q):
    fn = repo.func(MOD, q)
    names = [a.arg for a in fn.args.args]
    at = {}
    for n in names:
        at[n] = ("epoch", T.sym("J")) if n == "self" else T.sym("NUM_" + n.upper())
    if fn.args.kwarg:
        at[fn.args.kwarg.arg] = ("dict", ())
    outs = outcomes(repo, MOD, q, arg_terms=at)
    t = symx.return_term(outs)
    if t is None:
        raise AnalysisError("%s has no return" % q)
    return t


def run(repo, rep, tier):
    rep.decided = ["D1a year selected by the recomputed month", "D1b century correction only under a calendar test", "D1c no year skipped by the calendar split",
                   "D1d JD->date blocks share get_date's constants", "D2 argument refusals"]
    rep.decided.append("D3 Easter equals the tabular epact Computus (Sunday, 22 March..25 April) on every year -4712..10000 and Pesach equals 15 Nisan of the "
                       "arithmetic Hebrew calendar on an allowed weekday on every year 1..3000, by exact execution of the extracted recipes (R-COMPUTUS, R-PESACH); "
                       "both also equal the published recipes term by term (R-RECIPE)")
    rep.undecided = ["Moslem years beyond 2500 AH"]
    rep.decided.append("D4 Moslem <-> civil bijection, month/year lengths and the 16 July 622 epoch by exact execution on every Moslem year 1..2500 (R-CYCLE)")
    feast = feast_cycle(repo, rep, tier)
    recipes(repo, rep, feast)
    cycle_ok = moslem_cycle(repo, rep, tier)
    moslem_carry(repo, rep, cycle_ok)
    daycount(repo, rep)
    # moslem2gregorian names every civil date before 1583 through doy2date: its day-number table (shared with C16)
    rep.fn(MOD, "Epoch.doy2date")
    doy2date_table(repo, rep)
    stale_param(repo, rep)
    century_ctrl(repo, rep)
    thresh_gap(repo, rep)
    refusals(repo, rep)
    fam = [(MOD, "Epoch." + q) for q in ("easter", "jewish_pesach", "moslem2gregorian", "gregorian2moslem", "dow", "doy2date")]
    effects.check_functions(repo, rep, fam)
    guards.check_functions(repo, rep, fam)
    return "other"


# --------------------------------------------------------------------------------------------------------------------------
# R-CYCLE (Moslem calendar): exact execution of both conversion terms
# --------------------------------------------------------------------------------------------------------------------------
def _civil_jdn(y, m, d):
    """Julian Day Number of a civil date in the calendar in force (checker's own integer arithmetic)"""
    a = (14 - m) // 12
    yy = y + 4800 - a
    mm = m + 12 * a - 3
    if (y, m, d) >= (1582, 10, 15):
        return d + (153 * mm + 2) // 5 + 365 * yy + yy // 4 - yy // 100 + yy // 400 - 32045
    return d + (153 * mm + 2) // 5 + 365 * yy + yy // 4 - 32083


def _islamic_jdn(h, m, d):
    """arithmetic (tabular) Islamic calendar, civil epoch 16 July 622 Julian (JDN 1948440), leap years 2, 5, 7, 10, 13, 16, 18, 21,
    24, 26, 29 of the 30-year cycle"""
    return d + (59 * (m - 1) + 1) // 2 + (h - 1) * 354 + (3 + 11 * h) // 30 + 1948440 - 1


_MOSLEM_TERMS = {}


def _moslem_terms(root):
    if root not in _MOSLEM_TERMS:
        from ..frontend import Repo
        from .c16 import stdlib_prims
        from ..rules import eval_exact
        repo = Repo(root) if root else Repo()
        H, M, D = T.sym("NUM_H"), T.sym("NUM_M"), T.sym("NUM_D")
        Y, MO, DD = T.sym("NUM_Y"), T.sym("NUM_MO"), T.sym("NUM_DD")
        f1 = repo.func(MOD, "Epoch.moslem2gregorian")
        f2 = repo.func(MOD, "Epoch.gregorian2moslem")
        f3 = repo.func(MOD, "Epoch.doy2date")
        o1, _ = symx.eval_function(repo, MOD, "Epoch.moslem2gregorian", arg_terms=dict(zip([a.arg for a in f1.args.args], (H, M, D))), unroll=4)
        o2, _ = symx.eval_function(repo, MOD, "Epoch.gregorian2moslem", arg_terms=dict(zip([a.arg for a in f2.args.args], (Y, MO, DD))), unroll=4)
        o3, _ = symx.eval_function(repo, MOD, "Epoch.doy2date", arg_terms=dict(zip([a.arg for a in f3.args.args], (T.sym("NUM_A0"), T.sym("NUM_A1")))), unroll=4)
        tm, tg, td = symx.return_term(o1), symx.return_term(o2), symx.return_term(o3)
        base = stdlib_prims(repo)

        def prims(t, env):
            if t[0] == "call" and t[1] == "Epoch.Epoch.doy2date" and len(t) == 4:
                e2 = {T.sym("NUM_A0"): eval_exact(t[2], env, prims), T.sym("NUM_A1"): eval_exact(t[3], env, prims), "$memo": {}}
                return eval_exact(td, e2, prims)
            return base(t, env)
        _MOSLEM_TERMS[root] = (tm, tg, prims)
    return _MOSLEM_TERMS[root]


def _moslem_chunk(job):
    """worker: Moslem years h0..h1-1; `full` = every day, else the first two days and the last (29th of month 12) day of each year.
    Returns (dates executed, problems[(kind, key, text)])"""
    from ..rules import eval_exact, NotEvaluable
    root, h0, h1, full = job
    tm, tg, prims = _moslem_terms(root)
    H, M, D = T.sym("NUM_H"), T.sym("NUM_M"), T.sym("NUM_D")
    Y, MO, DD = T.sym("NUM_Y"), T.sym("NUM_MO"), T.sym("NUM_DD")
    probs = []
    n = 0

    def m2g(h, m, d):
        v = eval_exact(tm, {H: Fraction(h), M: Fraction(m), D: Fraction(d), "$memo": {}}, prims)
        return tuple(int(x) for x in v) if (isinstance(v, tuple) and len(v) == 3 and all(Fraction(x).denominator == 1 for x in v)) else v

    def g2m(y, m, d):
        v = eval_exact(tg, {Y: Fraction(y), MO: Fraction(m), DD: Fraction(d), "$memo": {}}, prims)
        return tuple(int(x) for x in v) if (isinstance(v, tuple) and len(v) == 3 and all(Fraction(x).denominator == 1 for x in v)) else v
    for h in range(h0, h1):
        # quick tier: the year boundaries of every year, and every day of the Moslem years that overlap the civil change-over (1582-1583)
        dates = [(h, m, d) for m in range(1, 13) for d in range(1, 31)] if (full or h in DENSE_AH) else [(h, 1, 1), (h, 1, 2), (h, 12, 29)]
        for (hh, m, d) in dates:
            if d == 30 and _islamic_jdn(hh, m, 30) == _islamic_jdn(*((hh, m + 1, 1) if m < 12 else (hh + 1, 1, 1))):
                continue                     # the month has 29 days in the arithmetic calendar
            try:
                g = m2g(hh, m, d)
                n += 1
                valid = isinstance(g, tuple) and len(g) == 3 and 1 <= g[1] <= 12 and 1 <= g[2] <= \
                    calendar.mdays[g[1]] + (1 if g[1] == 2 and ((g[0] % 4 == 0) if (g[0], g[1], g[2]) < (1582, 10, 15) else calendar.isleap(g[0])) else 0)
                if not valid:
                    probs.append(("m2g-invalid", "%d" % hh, "moslem2gregorian(%d, %d, %d) = %s is not a civil date" % (hh, m, d, g)))
                    continue
                if _civil_jdn(*g) != _islamic_jdn(hh, m, d):
                    probs.append(("m2g-arithmetic", "%d" % hh, "moslem2gregorian(%d, %d, %d) = %s is %+d day(s) from the arithmetic Islamic calendar (epoch 16 July 622 Julian)"
                                  % (hh, m, d, g, _civil_jdn(*g) - _islamic_jdn(hh, m, d))))
                back = g2m(*g)
                if back != (hh, m, d):
                    probs.append(("g2m-roundtrip", "%d" % hh, "gregorian2moslem%s = %s, but %s is moslem2gregorian(%d, %d, %d)" % (g, back, g, hh, m, d)))
            except NotEvaluable as e:
                return n, [("not-evaluable", "", "%s at %d-%d-%d AH" % (e, hh, m, d))]
            except (TypeError, ValueError, IndexError, KeyError) as e:     # the evaluator's own limits are not evidence against the code
                return n, [("not-evaluable", "", "%s: %s at %d-%d-%d AH" % (type(e).__name__, e, hh, m, d))]
            except ZeroDivisionError as e:
                probs.append(("error", "%d" % hh, "%s: %s at %d-%d-%d AH" % (type(e).__name__, e, hh, m, d)))
    return n, probs


DENSE_AH = (989, 990, 991)          # AH 989-991 = civil 1581-02 .. 1584-01: both sides of 4/15 October 1582
LAST_AH = 2500          # the property's domain: Moslem years 1..2500 (civil 622-07-16 .. 3047)


def moslem_cycle(repo, rep, tier):
    """R-CYCLE (Moslem): both conversions are integer recipes; they are executed exactly on the first two and last two days of every
    Moslem year 1..2500 (where the civil and the Moslem year boundaries interact) and - thorough tier - on every day of those years.
    Each date must map to an existing civil date, on the day the arithmetic Islamic calendar (epoch 16 July 622 Julian, 30-year cycle)
    gives it - which makes consecutive dates consecutive days, months 29/30 and years 354/355 days long - and convert back to itself."""
    rep.rule("R-CYCLE", "Moslem -> civil -> Moslem is the identity, on the day given by the arithmetic Islamic calendar "
                        "(exact execution of the two extracted conversion terms on every Moslem year 1..2500)")
    site = "Epoch.Epoch.moslem2gregorian/gregorian2moslem"
    full = tier == "thorough"
    step = 100
    jobs = [(repo.root, h0, min(h0 + step, LAST_AH + 1), full) for h0 in range(1, LAST_AH + 1, step)]
    from concurrent.futures import ProcessPoolExecutor
    try:
        with ProcessPoolExecutor(max_workers=14 if full else 8) as ex:
            results = list(ex.map(_moslem_chunk, jobs))
    except Exception:
        results = [_moslem_chunk(j_) for j_ in jobs]
    n = sum(r[0] for r in results)
    probs = [p for r in results for p in r[1]]
    ne = [p for p in probs if p[0] == "not-evaluable"]
    if ne:
        rep.inconcl("R-CYCLE", site, "conversion terms not executable: " + ne[0][2])
        return
    by = {}
    for kind, key, text in probs:
        by.setdefault((kind, key), text)
    for (kind, key), text in sorted(by.items())[:40]:
        rep.violation("R-CYCLE", site, "%s:%s" % (kind, key), text + " (%d date(s) of that year affected)" % sum(1 for p in probs if p[0] == kind and p[1] == key),
                      construct="AH %s" % key, obligation=True)
    if not probs:
        rep.ok("R-CYCLE", site, "%d Moslem dates executed exactly: existing civil date, agreement with the arithmetic calendar, round trip%s"
               % (n, " (every day of AH 1..2500)" if full else " (first two days and 29 Dhu al-Hijja of every year AH 1..2500, every day of AH 989-991)"), obligation=True)
        rep.floor("Moslem dates executed through both conversions", n, 7000)
        return True
    return False


# --------------------------------------------------------------------------------------------------------------------------
# R-COMPUTUS / R-PESACH: exact execution of the two feast recipes on every year of the property's domain, against the calendar
# definitions written out independently in the checker (tabular epact Computus; arithmetic Hebrew calendar)
# --------------------------------------------------------------------------------------------------------------------------
def _jdn_to_civil(j, greg):
    """inverse of _civil_jdn in a named calendar (Richards' integer algorithm)"""
    f = j + 1401 + ((((4 * j + 274277) // 146097) * 3) // 4 - 38 if greg else 0)
    e = 4 * f + 3
    g = (e % 1461) // 4
    h = 5 * g + 2
    d = (h % 153) // 5 + 1
    m = (h // 153 + 2) % 12 + 1
    y = e // 1461 - 4716 + (12 + 2 - m) // 12
    return y, m, d


def _named_jdn(y, m, d, greg):
    a = (14 - m) // 12
    yy = y + 4800 - a
    mm = m + 12 * a - 3
    if greg:
        return d + (153 * mm + 2) // 5 + 365 * yy + yy // 4 - yy // 100 + yy // 400 - 32045
    return d + (153 * mm + 2) // 5 + 365 * yy + yy // 4 - 32083


def _easter_tabular(y):
    """Easter by its definition: the Sunday strictly after the paschal full moon, which is the 14th day of the tabular lunation -
    Gregorian (from 1583): epact from the golden number with the solar (3C/4) and lunar ((8C+5)/25) corrections and the two
    epact-24/25 exceptions (Clavius' tables in Knuth's arithmetic form); Julian: the 19-year table, full moon = 21 March + (19 g + 15) mod 30.
    Returns (jdn, (month, day)) in the calendar in force."""
    greg = y >= 1583
    g = y % 19
    if greg:
        G = g + 1
        C = y // 100 + 1
        X = 3 * C // 4 - 12
        Z = (8 * C + 5) // 25 - 5
        E = (11 * G + 20 + Z - X) % 30
        if (E == 25 and G > 11) or E == 24:
            E += 1
        N = 44 - E
        if N < 21:
            N += 30
        pfm = _named_jdn(y, 3, 1, True) + N - 1
    else:
        pfm = _named_jdn(y, 3, 21, False) + (19 * g + 15) % 30
    k = pfm + 1
    while (k + 1) % 7 != 0:
        k += 1
    return k, _jdn_to_civil(k, greg)[1:]


def _heb_elapsed(y):
    months = (235 * y - 234) // 19                  # months before Tishri of Hebrew year y (19-year cycle, 7 leap years)
    parts = 12084 + 13753 * months                  # molad: 29 d 12 h 793 p per month, epoch molad 5 h 204 p
    day = months * 29 + parts // 25920
    if (3 * (day + 1)) % 7 < 3:                     # lo ADU rosh: not on Sunday, Wednesday, Friday
        day += 1
    return day


def _heb_new_year(y):
    """JDN of 1 Tishri of Hebrew year y (molad + the four dehiyyot), arithmetic Hebrew calendar"""
    n0, n1, n2 = _heb_elapsed(y - 1), _heb_elapsed(y), _heb_elapsed(y + 1)
    delay = 2 if n2 - n1 == 356 else (1 if n1 - n0 == 382 else 0)
    return 347998 + n1 + delay


def _oracle_selftest():
    """the checker's own definitions against published dates (independent of the repository)"""
    ok = _jdn_to_civil(_heb_new_year(5785), True) == (2024, 10, 3) and _jdn_to_civil(_heb_new_year(5785) - 163, True) == (2024, 4, 23)
    ok = ok and _jdn_to_civil(_heb_new_year(5784) - 163, True) == (2023, 4, 6) and _jdn_to_civil(_heb_new_year(5761), True) == (2000, 9, 30)
    ok = ok and [_easter_tabular(y)[1] for y in (2024, 2019, 1818, 1943, 2038, 1179, 711, 1961, 2011)] == \
        [(3, 31), (4, 21), (3, 22), (4, 25), (4, 25), (4, 1), (4, 12), (4, 2), (4, 24)]
    return ok


def feast_cycle(repo, rep, tier):
    """R-COMPUTUS, R-PESACH: Epoch.easter and Epoch.jewish_pesach are closed recipes in the year.  Their extracted return terms are
    executed exactly (rational arithmetic) for every year of the property's domain and compared with the definition the property names:
    the tabular epact Computus (plus Sunday and 22 March..25 April) and 15 Nisan of the arithmetic Hebrew calendar, 163 days before
    the following 1 Tishri (plus the weekday rule).  Both tiers: every year -4712..10000 / 1..3000."""
    from ..rules import eval_exact, NotEvaluable
    from .c16 import stdlib_prims
    rep.rule("R-COMPUTUS", "Epoch.easter, executed exactly on every year, is the Sunday after the tabular paschal full moon (22 March..25 April, calendar in force)")
    rep.rule("R-PESACH", "Epoch.jewish_pesach, executed exactly on every year 1..3000, is 15 Nisan of the arithmetic Hebrew calendar (163 days before 1 Tishri), "
                         "on a Sunday, Tuesday, Thursday or Saturday")
    if not _oracle_selftest():
        raise AnalysisError("the checker's own Computus / Hebrew-calendar definitions fail their published anchors")
    from ..rules import repo_prims
    prims = repo_prims(repo, stdlib_prims(repo))
    YR = T.sym("NUM_YEAR")
    status = {}
    for q, rule in (("Epoch.easter", "R-COMPUTUS"), ("Epoch.jewish_pesach", "R-PESACH")):
        site = MOD + "." + q
        fn = repo.func(MOD, q)
        try:
            outs, _ = symx.eval_function(repo, MOD, q, arg_terms={fn.args.args[0].arg: YR}, unroll=4)
            t = symx.return_term(outs)
        except AnalysisError as e:
            rep.inconcl(rule, site, "recipe not extractable: %s" % e)
            status[rule] = "inconclusive"
            continue
        if t is None:
            rep.inconcl(rule, site, "no return term")
            status[rule] = "inconclusive"
            continue
        if rule == "R-COMPUTUS":
            years = list(range(-4712, 10001))
        else:
            years = list(range(1, 3001))
        bad = {}
        n = 0
        broke = None
        for y in years:
            try:
                v = eval_exact(t, {YR: Fraction(y), "$memo": {}}, prims)
            except NotEvaluable as e:
                broke = "%s at year %d" % (e, y)
                break
            except (TypeError, ValueError, IndexError, KeyError) as e:     # the evaluator's own limits are not evidence against the code
                broke = "%s: %s at year %d" % (type(e).__name__, e, y)
                break
            except ZeroDivisionError as e:
                bad.setdefault("error", []).append((y, "%s: %s" % (type(e).__name__, e)))
                continue
            n += 1
            if not (isinstance(v, tuple) and len(v) == 2 and all(isinstance(x, (int, Fraction)) and Fraction(x).denominator == 1 for x in v)):
                bad.setdefault("shape", []).append((y, "returns %r" % (v,)))
                continue
            md = (int(v[0]), int(v[1]))
            greg = y >= 1583
            if rule == "R-COMPUTUS":
                jd, ref = _easter_tabular(y)
                if not ((3, 22) <= md <= (4, 25)) or md[1] > (31 if md[0] == 3 else 30) or md[1] < 1:
                    bad.setdefault("range", []).append((y, "%s is outside 22 March..25 April" % (md,)))
                elif (_named_jdn(y, md[0], md[1], greg) + 1) % 7 != 0:
                    bad.setdefault("sunday", []).append((y, "%s is not a Sunday of the %s calendar" % (md, "Gregorian" if greg else "Julian")))
                elif md != ref:
                    bad.setdefault("computus", []).append((y, "%s, the tabular Computus gives %s" % (md, ref)))
            else:
                jd = _heb_new_year(y + 3761) - 163
                ref = _jdn_to_civil(jd, greg)
                if md[0] not in (3, 4) or not (1 <= md[1] <= (31 if md[0] == 3 else 30)):
                    bad.setdefault("range", []).append((y, "%s is not a date in March/April" % (md,)))
                elif (_named_jdn(y, md[0], md[1], greg) + 1) % 7 not in (0, 2, 4, 6):
                    bad.setdefault("weekday", []).append((y, "%s falls on a Monday, Wednesday or Friday" % (md,)))
                elif (y,) + md != ref:
                    bad.setdefault("nisan15", []).append((y, "%s, 15 Nisan %d (1 Tishri %d - 163 days) is %s" % (md, y + 3760, y + 3761, ref[1:])))
        if broke:
            rep.inconcl(rule, site, "recipe not executable: " + broke)
            status[rule] = "inconclusive"
            continue
        for kind, lst in sorted(bad.items()):
            y0, text = lst[0]
            # key: kind + the residue class of the first failing year in the recipe's own cycle, so that a different slip is a different finding
            rep.violation(rule, site, "%s:%s:%d" % (q.split(".")[-1], kind, y0),
                          "%s(%d) = %s  (%d of %d executed years fail this way; first: %s)" % (q, y0, text, len(lst), n, ", ".join(str(a) for a, _ in lst[:8])),
                          construct="year %d" % y0, obligation=True)
        if not bad:
            rep.ok(rule, site, "%d years executed exactly (every year %d..%d): every result %s" % (
                n, years[0], years[-1],
                "is the Sunday after the tabular paschal full moon, within 22 March..25 April" if rule == "R-COMPUTUS" else "is 15 Nisan of the arithmetic Hebrew calendar on an allowed weekday"), obligation=True)
        status[rule] = "bad" if bad else "ok"
        rep.floor("years executed through %s" % q, n, 3000 if rule == "R-PESACH" else 14713)
    return status


def daycount(repo, rep):
    """R-DAYCOUNT: gregorian2moslem first turns the civil date into a running day count INT(365.25 x) + INT(30.6001 (m+1)) + d
    + century correction + const (x, m shifted for January/February).  That count is an integer recipe in (year, month, day):
    it is executed exactly on every class of civil date - each month, every residue of the year modulo 400 over two cycles
    (Gregorian) and modulo 4 (Julian), two days - and must differ from the calendar's own ordinal by one constant, i.e. grow
    by one per civil day.  A correction taken from the unshifted year, a wrong month shift etc. break that in some class."""
    import datetime as _dt
    from ..rules import eval_exact, NotEvaluable
    from .c16 import stdlib_prims
    rep.rule("R-DAYCOUNT", "the day count built by gregorian2moslem equals the calendar ordinal plus one constant on every class of civil date "
                           "(month x year mod 400 over two cycles, Julian years mod 4)")
    q = "Epoch.gregorian2moslem"
    site = MOD + "." + q
    fn = repo.func(MOD, q)
    nm = [a.arg for a in fn.args.args]
    Y, M, D = T.sym("NUM_Y"), T.sym("NUM_M"), T.sym("NUM_D")
    t = ret_term(repo, MOD, q, arg_terms={nm[0]: Y, nm[1]: M, nm[2]: D})

    def scaled_floor(x, k):
        return x[0] == "call" and x[1] in ("int", "floor") and len(x) == 3 and x[2][0] == "mul" and T.num(Fraction(k)) in x[2][1:]

    def direct(x):
        """only the civil date enters: no floor of a floor-sum (which would be a later stage of the algorithm)"""
        for s_ in x[1:]:
            if scaled_floor(s_, "365.25") and any(scaled_floor(z, "30.6001") for z in T.walk(s_)):
                return False
        return sum(1 for s_ in x[1:] if scaled_floor(s_, "365.25")) == 1 and sum(1 for s_ in x[1:] if scaled_floor(s_, "30.6001")) == 1
    cands = [x for x in T.walk(t) if x[0] == "add" and direct(x)]
    if not cands:
        rep.inconcl("R-DAYCOUNT", site, "no running day count INT(365.25 x) + INT(30.6001 (m + 1)) + d + ... found")
        return
    B = min(cands, key=lambda x: len(T.show(x)))
    prims = stdlib_prims(repo)

    def jul_ordinal(y, m, d):
        cum = [0, 31, 59, 90, 120, 151, 181, 212, 243, 273, 304, 334]
        leap = y % 4 == 0
        return 365 * (y - 1) + (y - 1) // 4 + cum[m - 1] + (1 if leap and m > 2 else 0) + d + 1721423      # Julian Day Number of the Julian-calendar date

    dates = [(y, m, d, False) for y in range(1583, 1583 + 800) for m in range(1, 13) for d in ((1, 28) if y < 1587 else (1,))]
    dates += [(y, m, d, True) for y in list(range(1000, 1004)) + [1580, 1581] for m in range(1, 13) for d in (1, 28)]
    # the change-over year day by day (Julian to 4 October, Gregorian from 15 October)
    dates += [(1582, m, d, (m, d) < (10, 5)) for m in range(1, 13) for d in range(1, calendar.mdays[m] + 1) if not (m == 10 and 5 <= d <= 14)]
    offs = {}
    n = 0
    for y, m, d, jul in dates:
        env = {Y: Fraction(y), M: Fraction(m), D: Fraction(d)}
        try:
            b = eval_exact(B, env, prims)
        except NotEvaluable as e:
            rep.inconcl("R-DAYCOUNT", site, "day count not executable: %s" % e)
            return
        n += 1
        ref = jul_ordinal(y, m, d) if jul else _dt.date(y, m, d).toordinal() + 1721425
        offs.setdefault(b - ref, (y, m, d))
    rep.floor("civil-date classes executed for the Moslem day count", n, 9000)
    if len(offs) == 1:
        rep.ok("R-DAYCOUNT", site, "day count == calendar ordinal + const on all %d date classes (Gregorian: month x year mod 400 x 2 cycles; Julian: mod 4)" % n, obligation=True)
    else:
        items = sorted(offs.items(), key=lambda kv: kv[1])
        base = items[0]
        other = items[1]
        rep.violation("R-DAYCOUNT", site, "daycount-jump",
                      "the running day count is not a uniform count of civil days: its offset from the calendar ordinal is %s at %04d-%02d-%02d but %s at %04d-%02d-%02d "
                      "(%d distinct offsets): two civil days map to one Moslem date / a date is skipped" %
                      (float(base[0]), base[1][0], base[1][1], base[1][2], float(other[0]), other[1][0], other[1][1], other[1][2], len(offs)),
                      construct="%04d-%02d-%02d" % other[1], obligation=True)


def year_selectors(t):
    """phi nodes of the form  phi(cmp(MONTH, 2) ? C - 4716 : C - 4715) (any nesting of the else side)"""
    out = []
    for x in T.walk(t):
        if x[0] != "phi" or x[1][0] != "cmp":
            continue
        a = x[2]
        if a[0] == "add" and T.num(-4716) in a[1:] and any(p[0] == "call" and p[1] == "floor" for p in a[1:]):
            cterm = [p for p in a[1:] if p[0] == "call" and p[1] == "floor"][0]
            has15 = any(y[0] == "add" and T.num(-4715) in y[1:] and cterm in y[1:] for y in T.walk(x[3]))
            if has15:
                out.append((x, cterm))
    return out


def stale_param(repo, rep):
    rep.rule("R-STALE-PARAM", "the year selector of a JD -> date block depends on the month recomputed from the day count, not on an input parameter")
    n = 0
    ref_consts = None
    for q in JD_BLOCKS:
        rep.fn(MOD, q)
        t = term_of(repo, q)
        sels = year_selectors(t)
        site = "Epoch." + q
        if not sels:
            rep.violation("R-STALE-PARAM", site, "no-selector", "JD -> date block (year = c - 4716 if month > 2 else c - 4715) not found")
            continue
        for sel, cterm in sels:
            n += 1
            cmpv = sel[1][2]
            floors_in = [y for y in T.walk(cmpv) if y[0] == "call" and y[1] == "floor"]
            syms = {y[1] for y in T.walk(cmpv) if y[0] == "sym"}
            if not floors_in:
                rep.violation("R-STALE-PARAM", site, "stale-month:" + T.show(cmpv)[:30],
                              "the year of the converted date is selected by `%s`, an input value, instead of the month just recomputed from the day count "
                              "(wrong year whenever the two months fall on different sides of February)" % T.show(cmpv)[:60])
            elif sel[1][1] not in ("Gt", "GtE") or sel[1][3] not in (T.num(2), T.num(3)):
                rep.violation("R-STALE-PARAM", site, "selector-test", "year selector is not `month > 2`: " + T.show(sel[1])[:80])
            else:
                rep.ok("R-STALE-PARAM", site, "year = c - 4716 if <recomputed month> > 2 else c - 4715")
        # sibling constants of the block (D1d): the floor chain of the whole routine
        nums = {y[1] for x in T.walk(t) if x[0] == "mul" for y in x[1:2] if y[0] == "num"}
        need = {Fraction("365.25"), 1 / Fraction("365.25"), Fraction("30.6001"), 1 / Fraction("30.6001")}
        if need <= nums:
            rep.ok("R-SIB", site, "JD -> date block uses 365.25, 30.6001 (and their reciprocals), 4716, 4715 like get_date")
        else:
            rep.violation("R-SIB", site, "jd-block-constants", "JD -> date block lacks constant(s) %s used by get_date" % sorted(float(v) for v in need - nums))
    rep.floor("JD -> date year selectors", n, 2)


def century_ctrl(repo, rep):
    rep.rule("R-CENTURY-CTRL", "a century number INT(x/100) reaches the result only through a branch guarded by a Julian/Gregorian test")
    n = 0
    for q in CENTURY_FUNCS:
        rep.fn(MOD, q)
        t = term_of(repo, q)
        site = "Epoch." + q
        cents = [x for x in T.walk(t) if x[0] == "call" and x[1] == "floor" and x[2][0] == "mul" and x[2][1] in (("num", Fraction(1, 100)), ("num", 1 / Fraction("36524.25")))]
        if not cents:
            continue
        cset = set(cents)
        unguarded = []
        memo = {}

        def is_cal_test(c):
            for y in T.walk(c):
                if y[0] == "num" and y[1] in CAL_LITERALS:
                    return True
                if y[0] == "call" and y[1] == "Epoch.Epoch.is_julian":
                    return True
            return False

        def rec(x, guarded):
            if not isinstance(x, tuple) or not x:
                return
            k = (id(x), guarded)
            if k in memo:
                return
            memo[k] = True
            if x in cset and not guarded:
                unguarded.append(x)
            if x[0] == "phi":
                g = guarded or is_cal_test(x[1])
                rec(x[1], guarded)
                rec(x[2], g)
                rec(x[3], g)
                return
            for y in (x[1:] if isinstance(x[0], str) else x):
                if isinstance(y, tuple):
                    rec(y, guarded)
        rec(t, False)
        n += 1
        if unguarded:
            rep.violation("R-CENTURY-CTRL", site, "century-unconditional",
                          "the century number %s enters the day count on a path with no Julian/Gregorian test: the Gregorian correction is applied to Julian-calendar dates too"
                          % T.show(unguarded[0])[:60])
        else:
            rep.ok("R-CENTURY-CTRL", site, "%d century term(s), each only under a calendar test" % len(cents))
    rep.floor("functions with a century term examined", n, 2)


def thresh_gap(repo, rep):
    rep.rule("R-THRESH-GAP", "a split `(x > A) or (x == B and ...)` on one integer has A == B")
    n = 0
    for q in ("Epoch.moslem2gregorian", "Epoch.gregorian2moslem", "Epoch.get_date", "Epoch._compute_jde", "Epoch.is_julian"):
        fn = repo.func(MOD, q)
        for node in ast.walk(fn):
            if isinstance(node, ast.BoolOp) and isinstance(node.op, ast.Or) and len(node.values) >= 2:
                gts = {}
                eqs = {}
                for v in node.values:
                    if isinstance(v, ast.Compare) and len(v.ops) == 1 and isinstance(v.left, ast.Name) and isinstance(v.comparators[0], ast.Constant):
                        if isinstance(v.ops[0], (ast.Gt, ast.Lt)):
                            gts[v.left.id] = (type(v.ops[0]), v.comparators[0].value)
                    if isinstance(v, ast.BoolOp) and isinstance(v.op, ast.And):
                        for w in v.values:
                            if isinstance(w, ast.Compare) and len(w.ops) == 1 and isinstance(w.ops[0], ast.Eq) and isinstance(w.left, ast.Name) \
                                    and isinstance(w.comparators[0], ast.Constant):
                                eqs.setdefault(w.left.id, set()).add(w.comparators[0].value)
                for name, (op, a) in gts.items():
                    if name in eqs:
                        n += 1
                        site = "Epoch." + q
                        if eqs[name] != {a}:
                            rep.violation("R-THRESH-GAP", site, "gap:%s:%s" % (a, sorted(eqs[name])),
                                          "calendar split `%s`: the strict test uses %s but the equality branch %s - the value(s) in between take the wrong branch"
                                          % (norm_text(node)[:70], a, sorted(eqs[name])))
                        else:
                            rep.ok("R-THRESH-GAP", site, norm_text(node)[:70])
    rep.floor("calendar splits examined", n, 1)
    # the Julian branch of moslem2gregorian delegates to doy2date, which must handle Julian years
    datetime_julian(repo, rep, ["Epoch.doy2date"])


def refusals(repo, rep):
    rep.rule("R-RANGE-REFUSE", "out-of-range arguments are refused with ValueError")
    want = {"Epoch.moslem2gregorian": ["day<1", "day>30", "month<1", "month>12", "year<1"],
            "Epoch.gregorian2moslem": ["day<1", "day>31", "month<1", "month>12", "year<-4712"]}
    for q, frags in want.items():
        fn = repo.func(MOD, q)
        tests = [norm_text(n.test).replace(" ", "") for n in ast.walk(fn)
                 if isinstance(n, ast.If) and any(isinstance(s, ast.Raise) and exc_name(s) == "ValueError" for s in n.body)]
        missing = [f for f in frags if not any(f in t for t in tests)]
        if missing:
            rep.violation("R-RANGE-REFUSE", "Epoch." + q, "refusal:" + missing[0], "arguments with %s are not refused with ValueError" % ", ".join(missing))
        else:
            rep.ok("R-RANGE-REFUSE", "Epoch." + q, " or ".join(frags) + " -> ValueError")


def fl(x):
    return T.call("floor", x)


def md(x, n):
    return T.call("mod", x, T.num(n))


def fr(a, b):
    from fractions import Fraction as F_
    return T.num(F_(a, b))


def moslem_carry(repo, rep, cycle_ok=None):
    """moslem2gregorian: the day count J and the year X before the year-end carry equal Meeus' recipe, and the
    carry is the one of a Julian-calendar year (366 days iff X % 4 == 0): decided by substituting symbols
    for J and X and evaluating the remaining decision table exactly on every residue of X mod 4 and the
    orderings of J against 365 / 366."""
    from ..rules import eval_exact, NotEvaluable, find_calls, lift_phi
    from ..poly import Algebra
    from fractions import Fraction as F_
    N = T.num
    q = "Epoch.moslem2gregorian"
    site = "Epoch." + q
    fn = repo.func(MOD, q)
    an = [a.arg for a in fn.args.args]
    t = ret_term(repo, MOD, q, arg_terms={an[0]: T.sym("NUM_Y"), an[1]: T.sym("NUM_M"), an[2]: T.sym("NUM_D")})
    H, M, D = fl(T.sym("NUM_Y")), fl(T.sym("NUM_M")), fl(T.sym("NUM_D"))
    Nn = T.add(D, fl(T.add(T.mul(N(F_("29.5001")), T.add(M, N(-1))), N(F_("0.99")))))
    Q = fl(T.mul(fr(1, 30), H)); R = md(H, 30); A = fl(T.mul(fr(1, 30), T.add(T.mul(N(11), R), N(3))))
    W = T.add(T.mul(N(404), Q), T.mul(N(354), R), N(208), A)
    Q1 = fl(T.mul(fr(1, 1461), W)); Q2 = md(W, 1461)
    G = T.add(N(621), T.mul(N(4), fl(T.add(T.mul(N(7), Q), Q1))))
    K = fl(T.mul(T.num(1 / F_("365.2422")), Q2)); E = fl(T.mul(N(F_("365.2422")), K))
    J0 = T.add(Q2, T.neg(E), Nn, N(-1)); X0 = T.add(G, K)
    calls = find_calls(t, "Epoch.Epoch.doy2date")
    if len(calls) != 1 or len(calls[0]) < 4:
        rep.inconcl("R-RECIPE", site, "expected one doy2date(x, j) call on the pre-Gregorian path")
        return
    xs, js = calls[0][2], calls[0][3]
    sub = {J0: T.sym("J"), X0: T.sym("X")}
    pres = set(T.walk(("bag", xs, js)))
    if (J0 not in pres or X0 not in pres) and cycle_ok:
        rep.ok("R-RECIPE", site, "day of year and year before the carry are not written as Meeus' (ch. 9) expressions; the conversion agrees with the arithmetic Islamic "
                                 "calendar on every executed date all the same (R-CYCLE)", obligation=True)
        return
    if J0 not in pres or X0 not in pres:
        rep.violation("R-RECIPE", site, "moslem-precarry", "Moslem -> civil: the day-of-year J = Q2 - E + N - 1 and year X = G + K before the year-end carry "
                      "are not Meeus' (ch. 9) expressions", obligation=True)
        return

    def rel(t_, base, sym_):
        """phi leaves of the form base + const are rewritten to sym + const"""
        if t_[0] == "phi":
            return T.phi(T.subst(t_[1], sub), rel(t_[2], base, sym_), rel(t_[3], base, sym_))
        try:
            r_ = Algebra().rat(T.sub(t_, base))
            if r_.n.is_const() and r_.d.is_const():
                return T.add(sym_, T.num(r_.n.const_value() / r_.d.const_value()))
        except Exception:
            pass
        return T.subst(t_, sub)
    xs, js = rel(lift_phi(xs), X0, T.sym("X")), rel(lift_phi(js), J0, T.sym("J"))
    bad = None
    n = 0
    for r in range(4):
        for j in (1, 200, 365, 366, 367, 400, 731):
            xv = 1000 + r if j != 731 else 1700 + r     # centuries too: a Julian year is leap whenever X % 4 == 0
            for xv_ in (xv, 1700 + r if r == 0 else xv):
                env = {T.sym("J"): F_(j), T.sym("X"): F_(xv_)}
                ylen = 366 if xv_ % 4 == 0 else 365
                want = (xv_ + 1, j - ylen) if j > ylen else (xv_, j)
                try:
                    got = (eval_exact(xs, env), eval_exact(js, env))
                except NotEvaluable as e:
                    bad = ("the year-end carry involves %s, which is not a function of (J, X mod 4): the intermediate year X is a Julian-calendar "
                           "year (366 days iff X %% 4 == 0); a Gregorian leap rule gives a wrong day for X = 1700, 1800, 1900, 2100, ..." % e)
                    break
                n += 1
                if got != want:
                    bad = "the year-end carry maps (X=%d, J=%d) to (%s, %s); a Julian year of %d days requires (%d, %d)" % (xv_, j, got[0], got[1], ylen, want[0], want[1])
                    break
            if bad:
                break
        if bad:
            break
    if bad and cycle_ok:
        rep.ok("R-RECIPE", site, "year-end carry not in the published form (%s); the conversion agrees with the arithmetic Islamic calendar on every executed date all the "
                                 "same (R-CYCLE)" % bad[:120], obligation=True)
    elif bad:
        rep.violation("R-RECIPE", site, "moslem-carry", "Moslem -> civil: " + bad, obligation=True)
    else:
        rep.ok("R-RECIPE", site, "J, X equal Meeus ch. 9; year-end carry is that of a Julian year on all %d cases of (J vs 365/366, X mod 4)" % n, obligation=True)


def recipes(repo, rep, feast=None):
    feast = feast or {}
    from ..poly import Algebra
    rep.rule("R-RECIPE", "integer recipe equals the published reference algorithm (term equality modulo ring algebra; floor and mod uninterpreted)")
    alg = Algebra()
    N = T.num
    # ---- Easter
    q = "Epoch.easter"
    rep.fn(MOD, q)
    fn = repo.func(MOD, q)
    t = ret_term(repo, MOD, q, arg_terms={fn.args.args[0].arg: T.sym("NUM_YEAR")})
    site = "Epoch." + q
    X = T.call("int", T.sym("NUM_YEAR"))
    a = md(X, 19); b = fl(T.mul(fr(1, 100), X)); c = md(X, 100); d = fl(T.mul(fr(1, 4), b)); e = md(b, 4)
    f = fl(T.mul(fr(1, 25), T.add(b, N(8)))); g = fl(T.mul(fr(1, 3), T.add(b, T.neg(f), N(1))))
    h = md(T.add(T.mul(N(19), a), b, T.neg(d), T.neg(g), N(15)), 30)
    i = fl(T.mul(fr(1, 4), c)); k = md(c, 4)
    l = md(T.add(N(32), T.mul(N(2), e), T.mul(N(2), i), T.neg(h), T.neg(k)), 7)
    m = fl(T.mul(fr(1, 451), T.add(a, T.mul(N(11), h), T.mul(N(22), l))))
    base = T.add(h, l, T.mul(N(-7), m), N(114))
    greg = (fl(T.mul(fr(1, 31), base)), T.add(md(base, 31), N(1)))
    a2 = md(X, 4); b2 = md(X, 7); c2 = md(X, 19)
    d2 = md(T.add(T.mul(N(19), c2), N(15)), 30)
    e2 = md(T.add(T.mul(N(2), a2), T.mul(N(4), b2), T.neg(d2), N(34)), 7)
    base2 = T.add(d2, e2, N(114))
    jul = (fl(T.mul(fr(1, 31), base2)), T.add(md(base2, 31), N(1)))
    ok = False
    detail = "result is not `Gregorian recipe if year >= 1583 else Julian recipe`"
    if t[0] == "phi" and t[1][0] == "cmp" and t[1][2] == X and t[1][3][0] == "num":
        thr = t[1][3][1] + (1 if t[1][1] == "Gt" else 0)
        gb, jb = (t[2], t[3]) if t[1][1] in ("GtE", "Gt") else (t[3], t[2])
        if thr != 1583 or t[1][1] not in ("GtE", "Gt", "Lt", "LtE"):
            detail = "calendar switch at %s instead of 1583" % thr
        else:
            def branch_ok(code, ref, lead, others):
                """term equality with the reference (month, day); failing that, both are shown to depend on the recipe's
                intermediate terms only through the day offset from 22 March (lead + others, range 0..35) and are compared
                on every value of that offset (the final offset -> date step may be written as a table, a branch, divmod ...)"""
                from ..rules import eval_exact, NotEvaluable
                if code[0] == "tuple" and len(code) == 3:
                    try:
                        if alg.equal(code[1], ref[0]) and alg.equal(code[2], ref[1]):
                            return True
                    except Exception:
                        pass
                OS = T.sym("NUM_OFF")
                # every sum in the code's result that equals (reference offset + a constant) as a polynomial in the recipe's
                # floor/mod atoms is replaced by NUM_OFF + constant; whatever still mentions the year afterwards shows a
                # dependence on the intermediate terms beyond the offset
                ref_off = T.add(lead, *others)
                mp_ = {}
                for x in T.walk(code):
                    if x[0] == "add" and any(y[0] == "call" and y[1] in ("floor", "mod") for y in x[1:]) or \
                            (x[0] == "add" and any(y[0] == "mul" and any(z[0] == "call" and z[1] in ("floor", "mod") for z in y[1:]) for y in x[1:])):
                        try:
                            r_ = alg.rat(T.sub(x, ref_off))
                        except Exception:
                            continue
                        if r_.n.is_const() and r_.d.is_const():
                            mp_[x] = T.add(OS, T.num(r_.n.const_value() / r_.d.const_value()))
                g1 = T.subst(code, mp_) if mp_ else code
                left = [x for x in T.walk(g1) if x == X or x == T.sym("NUM_YEAR")]
                if os.environ.get("PMV_DEBUG"):
                    print("DEBUG branch_ok left:", [T.show(x)[:60] for x in left[:4]], "g1:", T.show(g1)[:300])
                if left or not mp_:
                    return False
                try:
                    for off in range(0, 36):
                        v = eval_exact(g1, {OS: Fraction(off)})
                        want_ = ((off + 114) // 31, (off + 114) % 31 + 1)
                        if not (isinstance(v, tuple) and len(v) == 2 and v[0] == want_[0] and v[1] == want_[1]):
                            return False
                except NotEvaluable:
                    return None
                return True
            okg = branch_ok(gb, greg, h, [l, T.mul(N(-7), m)])
            okj = branch_ok(jb, jul, d2, [e2])
            if okg is None or okj is None:
                detail = None
            ok = okg is True and okj is True
            if detail is not None:
                detail = "Gregorian branch %s, Julian branch %s the published recipe" % ("equals" if okg else "DIFFERS from", "equals" if okj else "DIFFERS from")
    if ok:
        rep.ok("R-RECIPE", site, "Butcher's Gregorian algorithm from 1583, Meeus' Julian algorithm before: (month, day) terms equal the reference", obligation=True)
    elif detail is None:
        rep.inconcl("R-RECIPE", site, "Easter: the step from the day offset to (month, day) could not be executed on its 36 values")
    elif feast.get("R-COMPUTUS") == "ok":
        # not the published recipe, but the exhaustive execution shows it computes the same feast: no evidence of misbehaviour
        rep.ok("R-RECIPE", site, "not Butcher's / Meeus' published recipe (%s), but it reproduces the tabular Computus on every year -4712..10000 (R-COMPUTUS)" % detail, obligation=True)
    else:
        rep.violation("R-RECIPE", site, "easter-recipe", "Easter: " + detail, obligation=True)
    # ---- Pesach
    q = "Epoch.jewish_pesach"
    rep.fn(MOD, q)
    fn = repo.func(MOD, q)
    t = ret_term(repo, MOD, q, arg_terms={fn.args.args[0].arg: T.sym("NUM_YEAR")})
    site = "Epoch." + q
    X = fl(T.sym("NUM_YEAR"))
    C = fl(T.mul(fr(1, 100), X))
    S_g = fl(T.mul(fr(1, 4), T.add(T.mul(N(3), C), N(-5))))
    # collect the structural pieces from the code's term: s, a, b, q, j
    from fractions import Fraction as F_
    a = md(T.mul(N(12), T.add(X, N(1))), 19)
    b = md(X, 4)
    problems = []
    sphis = [x for x in T.walk(t) if x[0] == "phi" and x[1][0] == "cmp" and x[1][2] == X and x[1][3][0] == "num"
             and (x[2] == T.ZERO or x[3] == T.ZERO)]
    if not sphis:
        problems.append("no century term S selected by a calendar test on the year")
    else:
        sp = sphis[0]
        thr = sp[1][3][1] + (1 if sp[1][1] in ("Gt", "LtE") else 0)
        gterm = sp[3] if sp[2] == T.ZERO else sp[2]
        if thr != 1583:
            problems.append("S switches at %s instead of 1583" % thr)
        if not alg.equal(gterm, S_g):
            problems.append("Gregorian S is not INT((3C - 5)/4)")
        S = sp
        Q = T.add(N(F_("-1.904412361576")), T.mul(N(F_("1.554241796621")), a), T.mul(fr(1, 4), b), T.mul(N(F_("-0.003177794022")), X), S)
        J = md(T.add(fl(Q), T.mul(N(3), X), T.mul(N(5), b), N(2), T.neg(S)), 7)
        js = [x for x in T.walk(t) if x[0] == "call" and x[1] == "mod" and x[3] == N(7)]
        if len(set(js)) != 1:
            problems.append("expected one weekday term j = (...) mod 7, found %d" % len(set(js)))
        elif not alg.equal(js[0], J):
            # which way does S enter?
            J_plus = md(T.add(fl(Q), T.mul(N(3), X), T.mul(N(5), b), N(2), S), 7)
            if alg.equal(js[0], J_plus):
                problems.append("the weekday term is j = (INT(Q) + 3X + 5b + 2 + S) mod 7; Meeus' recipe has - S (the century term must cancel the one inside Q): "
                                "for Gregorian years the postponement rules are applied to the wrong weekday")
            else:
                problems.append("the weekday term j differs from (INT(Q) + 3X + 5b + 2 - S) mod 7")
        qs = [x for x in T.walk(t) if x[0] == "call" and x[1] == "floor" and alg.equal(x[2], Q)]
        if not qs:
            problems.append("Q differs from -1.904412361576 + 1.554241796621 a + 0.25 b - 0.003177794022 X + S")
        # day offsets 22 / 23 / 24 and the month split at 31
        # day offsets: every leaf of the returned day is INT(Q) + 22 / 23 / 24 (or that minus 31 in April), however the
        # postponement is written (three constants, or 22 plus a delay of 0 / 1 / 2)
        from ..rules import lift_phi
        from .c10 import phi_leaves
        offs = set()
        if qs:
            def day_leaves(x):
                if x[0] == "phi":
                    yield from day_leaves(x[2])
                    yield from day_leaves(x[3])
                elif x[0] == "tuple" and len(x) == 3:
                    for _, leaf in phi_leaves(lift_phi(x[2])):
                        yield leaf
            for leaf in day_leaves(t):
                try:
                    r_ = Algebra().rat(T.sub(leaf, qs[0]))
                    if r_.n.is_const() and r_.d.is_const():
                        v_ = r_.n.const_value() / r_.d.const_value()
                        offs.add(v_ + 31 if v_ < 0 else v_)
                except Exception:
                    offs.add(None)
        if offs != {F_(22), F_(23), F_(24)}:
            problems.append("day offsets are %s, expected 22, 23 and 24" % sorted(str(o) for o in offs))
        thr_r = {x[3][1] for x in T.walk(t) if x[0] == "cmp" and x[3][0] == "num" and F_("0.6") < x[3][1] < F_("0.9")}
        if thr_r != {F_("0.632870370"), F_("0.897723765")}:
            problems.append("postponement thresholds are %s" % sorted(map(float, thr_r)))
    if problems and feast.get("R-PESACH") == "ok":
        rep.ok("R-RECIPE", site, "not the published recipe (%s), but it reproduces 15 Nisan of the arithmetic Hebrew calendar on every year 1..3000 (R-PESACH)" % "; ".join(problems)[:200], obligation=True)
    elif problems:
        for p_ in problems:
            rep.violation("R-RECIPE", site, "pesach:" + p_[:30], "Pesach: " + p_, obligation=True)
    else:
        rep.ok("R-RECIPE", site, "Meeus ch. 9: C, S (Gregorian only), a, b, Q, j = (INT Q + 3X + 5b + 2 - S) mod 7, offsets 22/23/24, thresholds", obligation=True)
