"""C05 coordinate conversions are inverse rotations; separation metric.

Decided (source-level, exact real arithmetic):
  D1 each of the six conversions maps unit vectors to unit vectors (R-E4-ID unit norm)
  D2 the three pairs are mutually inverse as 3x3 matrices: M_g * M_f == I
     (matrices extracted from the atan2/asin arguments; galactic constants related
     exactly: 303-123 == 180, 192.25-12.25 == 180, 27.4 == 27.4)
  D3 longitude-like outputs of the ecliptical/galactic conversions are normalised
     with to_positive() on every returning path (R-POS); latitudes come from asin
  D4 angular_separation == 2*asin(sqrt((1 - v1.v2)/2)); relative_position_angle ==
     atan2(v1.east2, v1.north2)
"""
from fractions import Fraction

from .. import symx, terms as T
from ..frontend import AnalysisError
from ..poly import Algebra, Poly, Rat
from ..rules import ret_term, find_calls, radians_of_angle, is_pos_angle, D2R, outcomes
from .. import units, guards

MANIFEST = {
    "level": "other",
    "technique": "static analysis: symbolic evaluation of the conversion functions to terms, polynomial normal form modulo sin^2+cos^2=1 (unit-norm and matrix-inverse identities), typestate for to_positive(), unit (deg/rad) inference, effect analysis of the family (no write to arguments or module-level state); the Angle / Epoch operator semantics the evaluator assumes are verified (operator conformance, operands never written)",
    "text": "Decides, from the source alone and for all real inputs at once, that each conversion is norm preserving, that each pair of conversions are inverse 3x3 matrices, that longitudes are normalised on every path, and that the separation / position-angle formulas equal the dot/cross product forms. Floating-point accuracy (1e-9) is not decided. The latitude-like result is read as asin(Z), atan2(Z, R) or atan(Z / R) of the same unit vector; the quotient form divides by the horizontal radius, which vanishes at the pole of the target system (zenith, ecliptic or galactic pole) - inside the property's domain - and is reported. A quotient whose divisor is the cosine of a latitude-like argument, of the observer's latitude or of the computed latitude is accepted only inside an atan2 argument (where tan = sin/cos is removable by scaling both arguments); elsewhere it is 0/0 at a pole the property includes and is reported.",
    "note": "Trusted: Python ast, the term/polynomial engine (ring axioms over Q, sin^2+cos^2=1, addition theorems, tan=sin/cos), semantics of Angle read from Angle.py (checked by C03's R-OPCONF). Undecided: rounding near poles and the seam, circle_diameter bounds, antisymmetry beyond the formula identity.",
}

MOD = "Coordinates"
PAIRS = [("equatorial2ecliptical", "ecliptical2equatorial"),
         ("equatorial2horizontal", "horizontal2equatorial"),
         ("equatorial2galactic", "galactic2equatorial")]


def eval_conv(repo, qual, _depth=0):
    fn = repo.func(MOD, qual)
    names = [a.arg for a in fn.args.args]
    canon = ["A", "D", "E"]
    arg_terms = {n: ("angle", T.sym(c)) for n, c in zip(names, canon)}
    t = ret_term(repo, MOD, qual, arg_terms=arg_terms)
    if t[0] == "call" and isinstance(t[1], str) and t[1].startswith(MOD + ".") and t[1].split(".", 1)[1] in repo.mod(MOD).functions and _depth < 2:
        # delegation to a sibling conversion (ecliptical2equatorial(l, b, e) = equatorial2ecliptical(l, b, -e)): that function's own term
        # with the actual arguments substituted
        callee = t[1].split(".", 1)[1]
        sub, _ = eval_conv(repo, callee, _depth + 1)
        acts = [a for a in t[2:] if a[0] != "kw"]
        if len(acts) == 3 and all(a[0] == "angle" for a in acts):
            sub = T.subst(sub, {T.sym(c): T.sym("TMP_" + c) for c in canon})
            t = T.subst(sub, {T.sym("TMP_" + c): a[1] for c, a in zip(canon, acts)})
    if t[0] != "tuple" or len(t) != 3:
        raise AnalysisError("%s: return value is not a pair" % qual)
    return t, len(names)


def split_lon(lon):
    """lon angle -> (sigma, offset_deg_term, atan2 call) with deg(lon) = offset + sigma*atan2/d2r."""
    if lon[0] != "angle":
        return None
    v = lon[1]
    if v[0] == "call" and v[1] == "pos":
        v = v[2]
    if v[0] == "mul":
        sums = [f for f in v[1:] if f[0] == "add"]
        if len(sums) == 1:
            others = [f for f in v[1:] if f is not sums[0]]
            v = T.add(*[T.mul(x, *others) for x in sums[0][1:]])
    parts = v[1:] if v[0] == "add" else (v,)
    off = []
    hit = None
    inv = T.power(D2R, T.num(-1))
    for p in parts:
        c, rest = T.split_coeff(p)
        fac = rest[1:] if rest[0] == "mul" else (rest,)
        a2 = [f for f in fac if f[0] == "call" and f[1] == "atan2"]
        if len(a2) == 1 and inv in fac and len(fac) == 2 and c in (1, -1):
            if hit is not None:
                return None
            hit = (int(c), a2[0])
        else:
            off.append(p)
    if hit is None:
        return None
    return hit[0], T.add(*off) if off else T.ZERO, hit[1]


POLE_DIVISION = {}
SATURATION = {}


def singular_divisors(ret, horizontal):
    """[(kind, text)] for divisors containing cos(D) (latitude-like second argument) or - for the horizontal pair - cos(E) (observer latitude) that
    occur outside the arguments of atan2"""
    out = []
    cosD = T.call("cos", T.mul(T.sym("D"), D2R))
    cosE = T.call("cos", T.mul(T.sym("E"), D2R))
    seen = set()

    def walk(t, in_atan2):
        if not isinstance(t, tuple) or not t or (id(t), in_atan2) in seen:
            return
        seen.add((id(t), in_atan2))
        if t[0] == "call" and t[1] == "atan2":
            for x in t[2:]:
                walk(x, True)
            return
        if t[0] == "pow" and t[2][0] == "num" and t[2][1] < 0 and not in_atan2:
            for f in (t[1][1:] if t[1][0] == "mul" else (t[1],)):
                if f == cosD:
                    out.append(("latitude", "cos(latitude-like argument)"))
                elif horizontal and f == cosE:
                    out.append(("observer", "cos(observer latitude)"))
                elif f[0] == "call" and f[1] == "cos" and len(f) == 3 and f[2][0] == "call" and f[2][1] == "asin":
                    out.append(("result", "cos(asin(...)) = cosine of the computed latitude-like result"))
        for x in t[1:]:
            walk(x, in_atan2)
    walk(ret, False)
    return out


def poly_eval(t, zv):
    from ..poly import eval_numeric
    return eval_numeric(t, {"NUM_ZSAT": float(zv)})


def lat_asin(lat, qual=None):
    """third component Z of the output direction from the latitude-like result: asin(Z); or atan2(Z, R) / atan(Z / R) with R = sqrt(1 - Z^2)
    the horizontal radius of the same unit vector.  The quotient form divides by R, which vanishes at the pole of the target system:
    recorded in POLE_DIVISION (the property's domain includes the poles)."""
    r = radians_of_angle(lat)
    if r is not None and r[0] == "phi":
        # a clamped arc sine:  asin(Z) while |Z| < 1 (or <= 1), a saturated value otherwise.  Outside the open interval Z is +-1 up to rounding,
        # so the saturated value must be +pi/2 for Z >= 1 and -pi/2 for Z <= -1: it is evaluated for both signs of Z
        from ..rules import eval_exact, NotEvaluable, phi_leaves
        leaves = list(phi_leaves(r))
        inner = [l for _, l in leaves if l[0] == "call" and l[1] == "asin" and len(l) == 3]
        if len(inner) >= 1 and all(l == inner[0] for l in inner):
            Z = inner[0][2]
            ZS = T.sym("NUM_ZSAT")
            rz = T.subst(r, {Z: ZS, inner[0]: T.sym("NUM_ASIN")})
            if not any(x == Z for x in T.walk(rz)):
                import math
                try:
                    vals = {}
                    for zv in (Fraction(-3, 2), Fraction(-1), Fraction(1), Fraction(3, 2)):
                        leaf = None
                        for conds, l in phi_leaves(rz):
                            if all(eval_exact(c, {ZS: zv}) is True for c in conds):
                                leaf = l
                                break
                        if leaf is None:
                            raise NotEvaluable("no branch")
                        vals[zv] = None if leaf == T.sym("NUM_ASIN") else poly_eval(leaf, zv)
                    bad = [zv for zv, v in vals.items() if v is not None and abs(v - math.copysign(math.pi / 2, zv)) > 1e-12]
                    dom = [zv for zv, v in vals.items() if v is None and abs(zv) > 1]
                    if bad and qual is not None:
                        SATURATION[qual] = "for Z = %s the saturated branch of the clamped arc sine gives %.6f rad instead of %.6f" % (
                            float(bad[0]), vals[bad[0]], math.copysign(math.pi / 2, bad[0]))
                    if not dom:
                        return Z
                except (NotEvaluable, TypeError, ValueError, KeyError):
                    pass
        return None
    if r is None or r[0] != "call":
        return None
    if r[1] == "asin" and len(r) == 3:
        return r[2]
    z = rad = None
    if r[1] == "atan2" and len(r) == 4:
        z, rad = r[2], r[3]
    elif r[1] == "atan" and len(r) == 3 and r[2][0] == "mul":
        inv = [f for f in r[2][1:] if f[0] == "pow" and f[2] == T.num(-1)]
        if len(inv) == 1:
            rad = inv[0][1]
            z = T.mul(*[f for f in r[2][1:] if f is not inv[0]])
    if z is None or not (rad[0] == "call" and rad[1] == "sqrt" and len(rad) == 3) and not (rad[0] == "pow" and rad[2] == T.num(Fraction(1, 2))):
        return None
    rad2 = rad[2] if rad[0] == "call" else rad[1]
    try:
        unit = Algebra().equal(T.add(rad2, T.mul(z, z)), T.ONE)
    except Exception:
        unit = False
    if not unit:
        return None
    if r[1] == "atan" and qual is not None:
        POLE_DIVISION[qual] = T.show(rad)[:80]
    return z


def symbolize_constants(t, table):
    """replace literal degree constants q*d2r by K<q>*d2r (exactness is restored by
    the numeric relations checked separately)."""
    mp = {}
    for x in T.walk(t):
        if x[0] == "mul" and len(x) == 3 and x[1][0] == "num" and x[2] == D2R:
            q = x[1][1]
            if q.denominator == 1 and q % 90 == 0:
                continue
            sgn = -1 if q < 0 else 1
            q = abs(q)
            name = "K_%s_%s" % (q.numerator, q.denominator)
            table[name] = q
            mp[x] = T.mul(T.num(sgn), T.sym(name), D2R)
    return T.subst(t, mp) if mp else t


def matrix_of(alg, qual, ret, consts):
    """3x3 matrix (list of lists of Poly) of the map u(A,D) -> w(out) and the
    unit-norm obligation.  Returns (M, norm_ok, info)."""
    sl = split_lon(ret[1])
    z = lat_asin(ret[2], qual)
    if sl is None or z is None:
        raise AnalysisError("%s: result is not of the form (atan2(Y, X) [+ const], asin(Z))" % qual)
    sigma, off, a2 = sl
    y, x = a2[2], a2[3]
    x, y, z = (symbolize_constants(e, consts) for e in (x, y, z))
    cd = T.call("cos", T.mul(T.sym("D"), D2R))
    cdp = alg.rat(cd)

    def times_cd(e):
        r = alg.rat(e)
        if r.d.is_const():
            return Rat(alg.reduce(r.n * cdp.n), r.d)
        if r.d == cdp.n:           # tan(D) = sin/cos: the cosine cancels exactly
            return Rat(r.n)
        raise AnalysisError("%s: cannot clear the denominator %r with cos(latitude)" % (qual, r.d))
    R = alg.rat(z)
    unit_form = False
    try:
        xr, yr = alg.rat(x), alg.rat(y)
        if xr.d.is_const() and yr.d.is_const() and R.d.is_const():
            unit_form = alg.reduce((xr * xr + yr * yr + R * R - Rat(Poly.const(1))).n).is_zero()
    except Exception:
        unit_form = False
    if unit_form:
        P, Q = xr, yr                  # atan2 is fed the components of the unit vector themselves (no common factor cos(latitude) divided out)
    else:
        P, Q = times_cd(x), times_cd(y)
    norm_ok = alg.reduce((P * P + Q * Q + R * R - Rat(Poly.const(1))).n).is_zero()
    bA = ("B", (((("V", "A"), 1), (("V", "d2r"), 1)), Fraction(1)),)
    # find actual base atoms for A and D
    rows = []
    for comp in (P, Q, R):
        if not comp.d.is_const():
            raise AnalysisError("%s: component not polynomial" % qual)
        n = comp.n.scale(1 / comp.d.const_value())
        rows.append(n)
    sA, cA, sD, cD = trig_atoms("A"), None, None, None
    M = []
    for n in rows:
        row = [Poly(), Poly(), Poly()]
        for m, c in n.t.items():
            inv = [(a, e) for a, e in m if involves(a, ("A", "D"))]
            rest = tuple((a, e) for a, e in m if not involves(a, ("A", "D")))
            kind = classify(inv)
            if kind is None:
                raise AnalysisError("%s: output vector is not linear in the input direction (monomial %r)" % (qual, inv))
            row[kind] = row[kind] + Poly({rest: c})
        M.append(row)
    # out-longitude = off + sigma * atan2(Q, P): w = Rz(off) * diag(1, sigma, 1) * (P,Q,R)
    off = off
    if off != T.ZERO:
        if off[0] != "num":
            raise AnalysisError("%s: longitude offset is not a literal" % qual)
        q = off[1]
        name = "K_%s_%s" % (q.numerator, q.denominator)
        consts[name] = q
        ang = T.mul(T.sym(name), D2R)
        co, so = alg.rat(T.call("cos", ang)).n, alg.rat(T.call("sin", ang)).n
    else:
        co, so = Poly.const(1), Poly()
    sg = Poly.const(sigma)
    Rz = [[co, -so * sg, Poly()], [so, co * sg, Poly()], [Poly(), Poly(), Poly.const(1)]]
    W = matmul(alg, Rz, M)
    return W, norm_ok, {"sigma": sigma, "offset": T.show(off)}


def trig_atoms(name):
    return None


def involves(atom, names):
    if atom[0] in ("S", "C"):
        return any(("V", n) in flatten_base(atom[1]) for n in names)
    return False


def flatten_base(b):
    out = set()
    def rec(x):
        if isinstance(x, tuple):
            if len(x) == 2 and x[0] == "V":
                out.add(x)
            for y in x:
                rec(y)
    rec(b)
    return out


def classify(inv):
    """monomial part in the input-direction atoms -> index of u component:
    0: cos D cos A, 1: cos D sin A, 2: sin D."""
    d = {}
    for a, e in inv:
        which = "A" if ("V", "A") in flatten_base(a[1]) else "D"
        d[(a[0], which)] = e
    if d == {("C", "D"): 1, ("C", "A"): 1}:
        return 0
    if d == {("C", "D"): 1, ("S", "A"): 1}:
        return 1
    if d == {("S", "D"): 1}:
        return 2
    return None


def matmul(alg, X, Y):
    return [[alg.reduce(sum((X[i][k] * Y[k][j] for k in range(3)), Poly())) for j in range(3)] for i in range(3)]


def is_identity(M):
    for i in range(3):
        for j in range(3):
            want = Poly.const(1) if i == j else Poly()
            if M[i][j] != want:
                return False
    return True


def subst_consts(alg, M, mapping):
    """Substitute constant symbols K_x := K_y + delta (delta multiple of 90) in a
    matrix of Poly by re-deriving sin/cos of the shifted base."""
    out = []
    for row in M:
        r2 = []
        for p in row:
            q = Poly()
            for m, c in p.t.items():
                term = Poly.const(c)
                for a, e in m:
                    rep = None
                    if a[0] in ("S", "C"):
                        for name, (other, delta) in mapping.items():
                            if ("V", name) in flatten_base(a[1]):
                                ang = T.mul(T.add(T.sym(other), T.num(delta)), D2R)
                                rr = alg.rat(T.call("sin" if a[0] == "S" else "cos", ang))
                                rep = rr.n.scale(1 / rr.d.const_value())
                    term = term * ((rep if rep is not None else Poly.atom(a)) ** e)
                q = q + term
            r2.append(alg.reduce(q))
        out.append(r2)
    return out


def run(repo, rep, tier):
    rep.decided = ["D1 each conversion is norm preserving", "D2 conversion pairs are inverse matrices",
                   "D3 longitudes normalised on every path; latitudes from asin",
                   "D4 separation/position angle equal dot/cross product forms",
                   "units: every trig argument in the family is in radians (R-UNITS)", "type guards (R-GUARD)", "no write to arguments or module-level state in the family (R-EFFECT)"]
    rep.undecided = ["1e-9 accuracy near poles/seam (rounding)", "circle_diameter bounds", "numerical symmetry"]
    rep.assumptions = ["exact real arithmetic", "Angle semantics as read from Angle.py",
                       "atan2/asin recover a direction from its unit vector (cos(lat) >= 0)"]
    rep.rule("R-E4-ID", "algebraic identity discharged by polynomial normal form modulo sin^2+cos^2=1")
    rep.rule("R-POS", "longitude normalised by to_positive() on every returning path")
    alg = Algebra()
    mats = {}
    consts = {}
    n_unread = 0
    POLE_DIVISION.clear()
    SATURATION.clear()
    for f, g in PAIRS:
        for q in (f, g):
            rep.fn(MOD, q)
            try:
                ret, npar = eval_conv(repo, q)
                W, norm_ok, info = matrix_of(alg, q, ret, consts)
            except AnalysisError as e:
                # a result in a form this rule does not read is no evidence against the conversion
                rep.inconcl("R-E4-ID", MOD + "." + q, "rotation not extracted: %s" % e)
                n_unread += 1
                W = None
            if q in POLE_DIVISION:
                rep.violation("R-E4-ID", MOD + "." + q, "pole-division",
                              "the latitude-like result is atan(Z / R) with R = %s = sqrt(1 - Z^2): R is 0 for the direction that maps onto the pole of the target system "
                              "(zenith / ecliptic or galactic pole), which the property includes - ZeroDivisionError there (atan2(Z, R) or asin(Z) have no such point)"
                              % POLE_DIVISION[q], obligation=True)
            # a quotient whose divisor vanishes at a pole the property includes (latitude-like argument +-90, observer at a geographic
            # pole), anywhere but inside an atan2 argument - where tan(x) = sin/cos is removable by scaling both arguments
            try:
                ret_ = eval_conv(repo, q)[0]
                sd = singular_divisors(ret_, horizontal="horizontal" in q)
            except AnalysisError:
                sd = []
            for what_, shown_ in sorted(set(sd))[:2]:
                rep.violation("R-E4-ID", MOD + "." + q, "pole-division:" + what_,
                              "the result divides by %s, which is zero for %s - inside the property's domain (every direction including the poles, observer latitude "
                              "-90..90) - and the quotient does not sit in an atan2 argument: 0/0 or ZeroDivisionError there, loss of accuracy around it" %
                              (shown_, "a direction at the pole of the input system (latitude-like argument +-90 deg)" if what_ == "latitude" else
                               "an observer at a geographic pole (latitude +-90 deg)" if what_ == "observer" else
                               "a direction that maps onto the pole of the target system"), obligation=True)
            if q in SATURATION:
                rep.violation("R-E4-ID", MOD + "." + q, "saturation", "latitude-like result: %s - the pole of the target system in the opposite hemisphere is returned "
                              "(the property covers every direction including the poles)" % SATURATION[q], obligation=True)
            if W is None:
                continue
            mats[q] = W
            if norm_ok:
                rep.ok("R-E4-ID", MOD + "." + q, "unit norm: cos^2(D)*(X^2+Y^2)+Z^2 == 1 discharged", obligation=True)
            else:
                rep.violation("R-E4-ID", MOD + "." + q, "unit-norm",
                              "cos^2(lat)*(X^2+Y^2)+Z^2 != 1: the conversion is not a rotation of the sphere", obligation=True)
    # inverse pairs
    for f, g in PAIRS:
        if f not in mats or g not in mats:
            continue
        Mf, Mg = mats[f], mats[g]
        site = "%s.%s*%s" % (MOD, g, f)
        if f == "equatorial2galactic":
            # relate g's constants to f's: in_g = out_f - 180, out_g = in_f - 180, pole equal
            kf = consts_in(Mf)
            kg = consts_in(Mg)
            mapping, problems = relate_constants(kf, kg, consts)
            for pr in problems:
                rep.violation("R-TABLE-REL", site, "galactic-constants", pr, obligation=True)
            if problems:
                continue
            rep.ok("R-TABLE-REL", site, "galactic constants pair up exactly: " + ", ".join(
                "%s = %s%+d" % (k, v[0], v[1]) for k, v in sorted(mapping.items())), obligation=True)
            Mg = subst_consts(alg, Mg, mapping)
        prod = matmul(alg, Mg, Mf)
        if is_identity(prod):
            rep.ok("R-E4-ID", site, "matrix product M_g*M_f == I (inverse pair) discharged", obligation=True)
        else:
            rep.violation("R-E4-ID", site, "inverse-pair",
                          "the two conversions are not inverse rotations: M_g*M_f != I; product = %r" % (prod,), obligation=True)
        prod2 = matmul(alg, Mf, subst_back(alg, Mg))
    # R-POS
    for q in ("equatorial2ecliptical", "ecliptical2equatorial", "equatorial2galactic", "galactic2equatorial"):
        def returns_of(qq, depth=0):
            """value-returning outcomes, a plain delegation `return sibling(...)` replaced by the sibling's own returns"""
            out = []
            for o in outcomes(repo, MOD, qq):
                if o.kind != "ret":
                    continue
                v = o.value
                if v[0] == "call" and isinstance(v[1], str) and v[1].startswith(MOD + ".") and v[1].split(".", 1)[1] in repo.mod(MOD).functions and depth < 2:
                    out.extend(returns_of(v[1].split(".", 1)[1], depth + 1))
                else:
                    out.append(o)
            return out
        rets = returns_of(q)
        bad = [o for o in rets if not (o.value[0] == "tuple" and is_pos_angle(o.value[1]))]
        if not rets or bad:
            rep.violation("R-POS", MOD + "." + q, "lon-not-normalised",
                          "longitude/right ascension is returned without to_positive() on some path (documented range [0,360))")
        else:
            rep.ok("R-POS", MOD + "." + q, "first component is to_positive()-normalised on %d returning path(s)" % len(rets))
    sep_checks(repo, rep, alg)
    circle_selection(repo, rep)
    units.check_functions(repo, rep, [(MOD, q) for pair in PAIRS for q in pair] +
                          [(MOD, "angular_separation"), (MOD, "relative_position_angle"), (MOD, "circle_diameter"),
                           (MOD, "straight_line"), (MOD, "parallactic_angle"), (MOD, "ecliptic_horizon"),
                           (MOD, "ecliptic_equator"), (MOD, "diurnal_path_horizon")])
    guards.check_functions(repo, rep, [(MOD, q) for pair in PAIRS for q in pair] +
                           [(MOD, "angular_separation"), (MOD, "relative_position_angle"), (MOD, "circle_diameter"),
                            (MOD, "straight_line")])
    # the conversions must be functions of their arguments alone: no write to an argument or to module-level state (a memo of the last
    # obliquity, say) in the family and in helpers split off from it
    from .. import effects
    effects.check_functions(repo, rep, [(MOD, q) for pair in PAIRS for q in pair] +
                            [(MOD, "angular_separation"), (MOD, "relative_position_angle"), (MOD, "circle_diameter"), (MOD, "straight_line")])
    rep.floor("conversion functions examined", len(mats) + n_unread, 6)
    # premise of the evaluator: Angle / Epoch operators mean what their names say and leave their operands alone
    from ..premises import operator_semantics
    operator_semantics(repo, rep)
    return "other"


def subst_back(alg, M):
    return M


def consts_in(M):
    s = set()
    for row in M:
        for p in row:
            for a in p.atoms():
                for v in flatten_base(a[1]) if a[0] in ("S", "C") else ():
                    if v[1].startswith("K_"):
                        s.add(v[1])
    return s


def relate_constants(kf, kg, consts):
    """g's constants must be f's constants or f's constants -+ 180."""
    mapping, problems = {}, []
    used = set()
    for k in sorted(kg):
        v = consts[k]
        found = None
        for o in sorted(kf):
            for delta in (0, -180, 180):
                if consts[o] + delta == v and o not in used:
                    found = (o, delta)
                    break
            if found:
                break
        if not found:
            problems.append("constant %s of galactic2equatorial does not pair with any constant of equatorial2galactic %s (needs equal or differing by exactly 180 degrees)"
                            % (float(v), sorted(float(consts[o]) for o in kf)))
        else:
            used.add(found[0])
            mapping[k] = found
    return mapping, problems


def sep_checks(repo, rep, alg):
    # angular_separation
    q = "angular_separation"
    rep.fn(MOD, q)
    fn = repo.func(MOD, q)
    names = [a.arg for a in fn.args.args]
    arg_terms = {n: ("angle", T.sym(c)) for n, c in zip(names, ["A1", "D1", "A2", "D2"])}
    t = ret_term(repo, MOD, q, arg_terms=arg_terms)
    r = radians_of_angle(t)
    ok = False
    if r is not None:
        c, rest = T.split_coeff(r)
        if c == 2 and rest[0] == "call" and rest[1] == "asin" and rest[2][0] == "call" and rest[2][1] == "sqrt":
            e = rest[2][2]
            def rd(n):
                return T.mul(T.sym(n), D2R)
            dot = T.add(T.mul(T.call("cos", rd("D1")), T.call("cos", rd("D2")), T.call("cos", T.sub(rd("A1"), rd("A2")))),
                        T.mul(T.call("sin", rd("D1")), T.call("sin", rd("D2"))))
            want = T.mul(T.num(Fraction(1, 2)), T.sub(T.ONE, dot))
            if alg.equal(e, want):
                ok = True
                rep.ok("R-E4-ID", MOD + "." + q, "haversine form == (1 - v1.v2)/2 and result == 2*asin(sqrt(.)) (in [0,180], symmetric)", obligation=True)
            else:
                rep.violation("R-E4-ID", MOD + "." + q, "haversine", "radicand differs from (1 - v1.v2)/2: " + T.show(e)[:200], obligation=True)
                return
    if not ok:
        rep.violation("R-E4-ID", MOD + "." + q, "shape", "result is not 2*asin(sqrt(E)) converted from radians: " + T.show(t)[:200], obligation=True)
    # relative_position_angle
    q = "relative_position_angle"
    rep.fn(MOD, q)
    fn = repo.func(MOD, q)
    names = [a.arg for a in fn.args.args]
    arg_terms = {n: ("angle", T.sym(c)) for n, c in zip(names, ["A1", "D1", "A2", "D2"])}
    t = ret_term(repo, MOD, q, arg_terms=arg_terms)
    r = radians_of_angle(t)
    if r is None or r[0] != "call" or r[1] != "atan2":
        rep.violation("R-E4-ID", MOD + "." + q, "shape", "result is not atan2(Y, X) converted from radians", obligation=True)
        return
    y, x = r[2], r[3]
    def rd(n):
        return T.mul(T.sym(n), D2R)
    s, c = (lambda n: T.call("sin", rd(n))), (lambda n: T.call("cos", rd(n)))
    v1 = [T.mul(c("D1"), c("A1")), T.mul(c("D1"), s("A1")), s("D1")]
    north = [T.neg(T.mul(s("D2"), c("A2"))), T.neg(T.mul(s("D2"), s("A2"))), c("D2")]
    east = [T.neg(s("A2")), c("A2"), T.ZERO]
    vdot = lambda a, b: T.add(*[T.mul(p, q2) for p, q2 in zip(a, b)])
    okx = alg.equal(T.mul(c("D1"), x), vdot(v1, north))
    oky = alg.equal(T.mul(c("D1"), y), vdot(v1, east))
    if okx and oky:
        rep.ok("R-E4-ID", MOD + "." + q, "atan2 arguments == (v1.east2, v1.north2)/cos(D1)  (cross/dot product form)", obligation=True)
    else:
        rep.violation("R-E4-ID", MOD + "." + q, "cross-dot", "position-angle numerator/denominator differ from the cross/dot product form (x ok=%s, y ok=%s)" % (okx, oky), obligation=True)


def eval_order(t, values):
    """evaluate a term built from phi / comparisons / and / or / not over the given leaf values"""
    if t in values:
        return values[t]
    h = t[0]
    if h == "phi":
        return eval_order(t[2], values) if eval_order(t[1], values) else eval_order(t[3], values)
    if h == "cmp":
        a, b = eval_order(t[2], values), eval_order(t[3], values)
        return {"GtE": a >= b, "Gt": a > b, "LtE": a <= b, "Lt": a < b, "Eq": a == b, "NotEq": a != b}[t[1]]
    if h == "and":
        return all(eval_order(x, values) for x in t[1:])
    if h == "or":
        return any(eval_order(x, values) for x in t[1:])
    if h == "not":
        return not eval_order(t[1], values)
    if h == "bool":
        return t[1]
    raise AnalysisError("selection logic uses something other than comparisons of the three separations: %s" % (t[0],))


def circle_selection(repo, rep):
    """circle_diameter: the three mutual separations are touched only through comparisons, so the selection of
    the longest side is decided exhaustively over the 13 weak orderings of three values"""
    rep.rule("R-ORDERINGS", "selection logic that only compares values is evaluated over every weak ordering of those values (finite, exhaustive)")
    q = "circle_diameter"
    rep.fn(MOD, q)
    fn = repo.func(MOD, q)
    nm = [a.arg for a in fn.args.args]
    t = ret_term(repo, MOD, q, arg_terms={n: ("angle", T.sym(n.upper())) for n in nm})
    site = MOD + "." + q
    seps = sorted({x for x in T.walk(t) if x[0] == "call" and x[1] == "red" and x[2][0] == "call" and x[2][1] == "degof"
                   and x[2][2][0] == "call" and x[2][2][1] == "Coordinates.angular_separation"}, key=T.key)
    top = t[1] if t[0] == "angle" else t
    if len(seps) != 3 or top[0] != "phi" or top[1][0] != "cmp" or top[1][1] not in ("GtE", "Gt"):
        rep.inconcl("R-ORDERINGS", site, "result is not recognised as `a if a >= sqrt(b^2 + c^2) else circumscribed diameter` over the three mutual separations")
        return
    A = top[1][2]
    rhs = top[1][3]
    sq = [x for x in (rhs[2][1:] if rhs[0] == "call" and rhs[1] == "sqrt" and rhs[2][0] == "add" else ())]
    BC = []
    for x in sq:
        if x[0] == "pow" and x[2] == T.num(2):
            BC.append(x[1])
    if len(BC) != 2 or top[2] != A:
        rep.inconcl("R-ORDERINGS", site, "obtuse-triangle test is not recognised as a >= sqrt(b*b + c*c) returning a")
        return
    import itertools
    bad = []
    n = 0
    for ranks in itertools.product((1, 2, 3), repeat=3):
        if sorted(set(ranks)) != list(range(1, len(set(ranks)) + 1)):
            continue          # canonical weak orderings only (13 of them)
        n += 1
        vals = dict(zip(seps, ranks))
        try:
            a, b, c = eval_order(A, vals), eval_order(BC[0], vals), eval_order(BC[1], vals)
        except AnalysisError as e:
            rep.violation("R-ORDERINGS", site, "not-comparisons", str(e))
            return
        if a != max(ranks) or sorted((a, b, c)) != sorted(ranks):
            bad.append((ranks, (a, b, c)))
    rep.floor("weak orderings of three separations", n, 13)
    if bad:
        rep.violation("R-ORDERINGS", site, "longest-side",
                      "for separations ordered like (d12, d13, d23) = %s the code takes %s as (longest, other, other): the longest mutual separation is not selected, "
                      "so the enclosing-circle diameter is computed from the wrong side (%d of 13 orderings affected)" % (bad[0][0], bad[0][1], len(bad)))
    else:
        rep.ok("R-ORDERINGS", site, "a is the largest of the three separations and (a, b, c) a permutation of them in all 13 weak orderings")
