"""C14 seasons, equation of time and sunrise/sunset agree with the solar position.

Decided: D1 get_equinox_solstice refuses years outside -1000..3000 with ValueError, its
season dispatch is exhaustive, and the target longitude is k*90 deg with k the position of
the target in (spring, summer, autumn, winter); D2 the +-180 degree reduction of the
equation of time acts on a plain number (R-ANGLE-WRAP), radians throughout (R-UNITS);
D3 rise_set refuses latitudes beyond +-66 deg 33', its leap-second term uses the civil
year/month; D4 times_rise_transit_set reports (None, None, None) exactly when |cos H0| > 1
with cos H0 == (sin h0 - sin(lat) sin(dec))/(cos(lat) cos(dec)), one arity."""
import ast
from fractions import Fraction

from .. import symx, terms as T, absint
from ..frontend import AnalysisError, norm_text, body_without_docstring
from ..poly import Algebra
from ..rules import ret_term, outcomes, conjuncts, disjuncts, find_calls, D2R, timearg_scan, int_set, iset_union, iset_compl, stateless_scan, with_new_helpers
from .. import units, guards, effects

MANIFEST = {
    "level": "other",
    "technique": "static analysis: interval-set reasoning on the path conditions of the symbolically evaluated season finder (refusal and exhaustive dispatch), type-state rule on the +-180 reduction (abstract interpretation of Angle vs number), refusal path rules, exit-criterion bound of the season refinement loop (threshold and gain extracted from the loop), algebraic match of the hour-angle cosine and control dependence of the no-times result, clamp detection on the argument of acos in rise_set (no-event days must surface), wrap-after-refinement rule for the rise/transit/set times, alias-retention rule for persistent stores in the solar-position routines, unit inference; the Angle / Epoch operator semantics the evaluator assumes are verified (operator conformance, operands never written); exact execution of the season iteration's starting estimate (statements before the loop evaluated symbolically) on every year -1000..3000",
    "text": "Refusals (years, latitudes), exhaustive season dispatch with the right target longitudes, the reduction of the equation of time to (-180, 180] degrees being applied to a number rather than to a self-wrapping Angle, and the exact condition under which rise/transit/set reports no times are decided for all inputs; rise_set is shown to hand the raw hour-angle cosine to acos, so days on which the Sun never reaches the standard altitude raise instead of yielding fabricated instants. The 1e-5 deg season accuracy is decided as far as the loop's exit guarantee goes (|dlon| <= asin(THR/G)); convergence itself, spacing, the 25-minute bound and altitude agreement depend on runtime positions and are not decided. The starting estimate of the season iteration - which decides to which season instant the loop converges - is executed exactly for every year -1000..3000 and each season: it lies inside the requested year, the four estimates of a year are in order 86-96 days apart and the same season of consecutive years 365.0-365.5 days apart.",
    "note": "Trusted: bounds quoted in the property (-1000..3000, 66 deg 33'); Angle semantics (arithmetic wraps modulo 360). Undecided: accuracy and spacing of the seasons, equation-of-time magnitude and rate, rise/set altitude agreement.",
}
SEASONS = ["spring", "summer", "autumn", "winter"]


def year_interval(cond):
    lo, hi = -10**9, 10**9
    for cj in conjuncts(cond):
        neg = False
        if cj[0] == "not":
            neg, cj = True, cj[1]
            if cj[0] == "and":
                continue
        if cj[0] != "cmp" or cj[2] != T.sym("NUM_YEAR") or cj[3][0] != "num":
            continue
        op, v = cj[1], cj[3][1]
        if neg:
            op = {"Lt": "GtE", "GtE": "Lt", "Gt": "LtE", "LtE": "Gt"}.get(op, op)
        if op == "Lt":
            hi = min(hi, v - 1)
        elif op == "LtE":
            hi = min(hi, v)
        elif op == "GtE":
            lo = max(lo, v)
        elif op == "Gt":
            lo = max(lo, v + 1)
    return lo, hi


def dnf(c):
    """list of conjunctions (each a term) equivalent to c, expanding or-nodes at conjunct level"""
    alts = [()]
    for cj in conjuncts(c):
        if cj[0] == "or":
            subs = []
            for d in cj[1:]:
                subs.extend(dnf(d))
            alts = [a + (s_,) for a in alts for s_ in subs]
        else:
            alts = [a + (cj,) for a in alts]
    return [T.land(*a) for a in alts]


def run(repo, rep, tier):
    rep.decided = ["D1 year refusal, exhaustive seasons, target longitude k*90", "D2 +-180 reduction acts on a number; radians",
                   "D3 latitude refusal; civil year/month in the leap-second term", "D4 no-times result iff |cos H0| > 1"]
    rep.undecided = ["spacing of the seasons; the 1e-5 deg accuracy is decided as far as the loop's exit guarantee goes (given convergence)", "equation-of-time magnitude / rate", "rise/set altitude agreement"]
    seasons(repo, rep)
    season_start(repo, rep)
    season_exit(repo, rep)
    eot(repo, rep)
    rise_set(repo, rep)
    trts(repo, rep)
    fam = [("Sun", "Sun.get_equinox_solstice"), ("Sun", "Sun.equation_of_time"), ("Epoch", "Epoch.rise_set"), ("Coordinates", "times_rise_transit_set")]
    timearg_scan(repo, rep, fam)
    units.check_functions(repo, rep, fam)
    guards.check_functions(repo, rep, fam)
    effects.check_functions(repo, rep, fam)
    # the solar position every clause of this property is measured against must depend on its epoch argument only
    stateless_scan(repo, rep, fam + [("Sun", "Sun.apparent_geocentric_position"), ("Sun", "Sun.geometric_geocentric_position"),
                                     ("Epoch", "Epoch.apparent_sidereal_time"), ("Coordinates", "equatorial2horizontal")])
    # premise of the evaluator: Angle / Epoch operators mean what their names say and leave their operands alone
    from ..premises import operator_semantics
    operator_semantics(repo, rep)
    return "other"


def seasons(repo, rep):
    rep.rule("R-RANGE-REFUSE", "values are returned exactly on the documented year range; everything else raises ValueError")
    q = "Sun.get_equinox_solstice"
    rep.fn("Sun", q)
    fn = repo.func("Sun", q)
    nm = [a.arg for a in fn.args.args]
    site = "Sun." + q
    for k, tg in enumerate(SEASONS):
        outs = outcomes(repo, "Sun", q, arg_terms={nm[0]: T.sym("NUM_YEAR"), nm[1]: ("str", tg)})
        rets = [o for o in outs if o.kind == "ret"]
        ivs, exact = [], True
        for o in rets:
            s_, ex = int_set(o.cond, T.sym("NUM_YEAR"))
            ivs = iset_union(ivs, s_)
            exact = exact and ex
        ok = ivs == [(-1000, 3000)]
        raises_ = [o for o in outs if o.kind == "raise" and o.value == ("str", "ValueError")]
        rset = []
        for o in raises_:
            rset = iset_union(rset, int_set(o.cond, T.sym("NUM_YEAR"))[0])
        ok = ok and rset == iset_compl([(-1000, 3000)])
        if not exact:
            rep.inconcl("R-RANGE-REFUSE", site + "[%s]" % tg, "the path conditions of the value-returning paths involve more than comparisons of the year with constants")
        elif ok and raises_:
            rep.ok("R-RANGE-REFUSE", site + "[%s]" % tg, "returns for years %s, ValueError otherwise" % ivs, sample=(k == 0))
        else:
            rep.violation("R-RANGE-REFUSE", site, "year-range:" + tg, "value-returning years are %s, the property says exactly -1000..3000 (others ValueError)" % (ivs,))
        # target longitude k*90: the correction is G*sin(target - longitude); target - longitude + longitude must be the constant 90*k
        consts = set()
        for o in rets:
            for x in T.walk(o.value):
                if x[0] == "call" and x[1] == "sin" and len(x) == 3:
                    c_, rest = T.split_coeff(x[2])
                    fac = rest[1:] if rest[0] == "mul" else (rest,)
                    if D2R not in fac:
                        continue
                    inner = T.mul(T.num(c_), *[f for f in fac if f != D2R])
                    lons = [y for y in T.walk(inner) if y[0] == "call" and y[1] in (".to_positive", "pos", "red", "degof")
                            and any(z[0] == "call" and "apparent_geocentric_position" in z[1] for z in T.walk(y))]
                    for L in lons:
                        cst = T.add(inner, L)
                        if cst[0] == "call" and cst[1] == ".index" and cst[2][0] in ("list", "tuple") and cst[3] in cst[2][1:]:
                            cst = T.num(cst[2][1:].index(cst[3]))
                        if cst[0] == "mul" and len(cst) == 3 and cst[1][0] == "num" and cst[2][0] == "call" and cst[2][1] == ".index" \
                                and cst[2][2][0] in ("list", "tuple") and cst[2][3] in cst[2][2][1:]:
                            cst = T.num(cst[1][1] * cst[2][2][1:].index(cst[2][3]))
                        if cst[0] == "num":
                            consts.add(cst[1])
        if consts == {90 * k}:
            rep.ok("R-ENUM", site + "[%s]:target" % tg, "target apparent longitude %d deg" % (90 * k), sample=(k == 0))
        elif not consts:
            rep.inconcl("R-ENUM", site + "[%s]:target" % tg, "no correction of the form G*sin(target - apparent longitude) found")
        else:
            rep.violation("R-ENUM", site, "target-longitude:" + tg, "season %r is iterated towards apparent longitude %s deg, not %d deg"
                          % (tg, sorted(float(c) for c in consts), 90 * k))
    an = absint.analysis_for(repo)
    evs = [e for e in an.events_for("undef") if e.site == "Sun." + q]
    for e in evs:
        rep.violation("R-ENUM", e.site, e.key, e.msg)
    if not evs:
        rep.ok("R-ENUM", site, "if/elif dispatch covers the four validated season names")


def season_start(repo, rep):
    """R-START.  The refinement loop moves the epoch by at most 58 days per step towards the requested longitude, so it ends at the
    season nearest to where it starts: the starting estimate decides *which* season instant is returned.  The estimate is a
    polynomial in the year (Tables 27.A / 27.B, each in its own time argument).  The statements before the loop are evaluated
    symbolically per season and the starting JDE is executed exactly for every year -1000..3000: it must fall inside the requested
    civil year, the four estimates of a year must be in order and 86-96 days apart, and the same season of consecutive years 365.0-365.5
    days apart (the property's spacing of the final instants, widened by the difference between estimate and final instant)."""
    from ..rules import eval_exact, NotEvaluable
    from .c19 import _civil_jdn
    rep.rule("R-START", "the starting estimate of the season iteration lies in the requested year, in season order, with regular spacing: executed exactly for every year "
                        "-1000..3000 x 4 seasons (it decides which season instant the iteration converges to)")
    q = "Sun.get_equinox_solstice"
    site = "Sun." + q
    fn = repo.func("Sun", q)
    nm = [a.arg for a in fn.args.args]
    body = body_without_docstring(fn)
    idx = [i for i, st in enumerate(body) if isinstance(st, ast.While)]
    if len(idx) != 1:
        rep.inconcl("R-START", site, "expected one top-level refinement loop, found %d" % len(idx))
        return
    YR = T.sym("NUM_YEAR")
    est = {}
    for tg in SEASONS:
        ctx = symx.Ctx(repo, "Sun", "Sun", 3)
        ctx.refine_guards = True
        ctx.root_tgt, ctx.rec_depth = "Sun." + q, 0
        env = symx.bind_params(fn, {nm[0]: YR, nm[1]: ("str", tg)})
        try:
            outs = symx.exec_block(ctx, body[:idx[0]], env, T.land())
        except AnalysisError as e:
            rep.inconcl("R-START", site, "statements before the loop not evaluable: %s" % e)
            return
        falls = [o for o in outs if o.kind == "fall"]
        # the loop variable: the name the loop body advances with `+=`
        adv = [n.target.id for n in ast.walk(body[idx[0]]) if isinstance(n, ast.AugAssign) and isinstance(n.target, ast.Name) and isinstance(n.op, ast.Add)]
        if len(falls) != 1 or len(set(adv)) != 1 or adv[0] not in falls[0].env:
            rep.inconcl("R-START", site, "starting epoch of the loop not identified")
            return
        v = falls[0].env[adv[0]]
        est[tg] = (v[1] if v[0] == "epoch" else v, falls[0].cond)
    bad = {}
    n = 0
    prev_year = None
    for y in range(-1000, 3001):
        vals = []
        for tg in SEASONS:
            t, cond = est[tg]
            try:
                if eval_exact(cond, {YR: Fraction(y), "$memo": {}}) is not True:
                    raise NotEvaluable("year %d does not reach the loop" % y)
                j = eval_exact(t, {YR: Fraction(y), "$memo": {}})
            except NotEvaluable as e:
                rep.inconcl("R-START", site, "starting estimate not executable: %s" % e)
                return
            except (TypeError, ValueError, IndexError, KeyError) as e:
                rep.inconcl("R-START", site, "starting estimate not executable: %s: %s" % (type(e).__name__, e))
                return
            n += 1
            vals.append(j)
            lo, hi = _civil_jdn(y, 1, 1) - Fraction(1, 2), _civil_jdn(y + 1, 1, 1) - Fraction(1, 2)
            if not lo <= j < hi:
                bad.setdefault("year", []).append("%s %d: the iteration starts at JDE %.3f, which is %s the year %d (JDE %.1f .. %.1f)"
                                                  % (tg, y, float(j), "before" if j < lo else "after", y, float(lo), float(hi)))
        for k in range(3):
            gap = vals[k + 1] - vals[k]
            if not 86 <= gap <= 96:
                bad.setdefault("order", []).append("%d: %s and %s estimates are %.2f days apart" % (y, SEASONS[k], SEASONS[k + 1], float(gap)))
        if prev_year is not None:
            for k in range(4):
                gap = vals[k] - prev_year[k]
                if not Fraction(365) <= gap <= Fraction(731, 2):
                    bad.setdefault("yearly", []).append("%s estimates of %d and %d are %.3f days apart" % (SEASONS[k], y - 1, y, float(gap)))
        prev_year = vals
    for kind, lst in sorted(bad.items()):
        rep.violation("R-START", site, "start:" + kind, lst[0] + "  (%d of %d executed estimates fail this way): the loop converges to the season nearest to its start, "
                      "so the returned instant belongs to another year / breaks the order and spacing of the seasons" % (len(lst), n), obligation=True)
    if not bad:
        rep.ok("R-START", site, "%d starting estimates executed exactly (every year -1000..3000 x 4 seasons): inside the requested year, in order 86-96 days apart, "
                                "same season of consecutive years 365.0-365.5 days apart" % n, obligation=True)
    rep.floor("season starting estimates executed", n, 16000)


def season_exit(repo, rep):
    """R-EXIT-BOUND: the refinement loop `while abs(corr) > THR: ...; corr = G*sin(target - lon); epoch += corr`
    followed by `epoch -= corr` returns the epoch at which the last longitude was evaluated; there
    sin(target - lon) = corr/G with |corr| <= THR, so |target - lon| <= asin(THR/G).  The property asks 1e-5 deg."""
    import math
    from ..rules import const_value
    rep.rule("R-EXIT-BOUND", "exit criterion of the season refinement loop guarantees |longitude - k*90| <= 1e-5 deg: asin(THR/G) in degrees "
                             "(three-valued: PROVED / REFUTED / INCONCLUSIVE when the loop shape is not recognised)")
    q = "Sun.get_equinox_solstice"
    site = "Sun." + q
    fn = repo.func("Sun", q)
    loops = [n for f_ in with_new_helpers(repo, "Sun", fn) for n in ast.walk(f_) if isinstance(n, ast.While)]
    if len(loops) != 1:
        rep.inconcl("R-EXIT-BOUND", site, "expected one refinement loop, found %d" % len(loops))
        return
    lp = symx._normalise_do_while(loops[0])
    t = lp.test
    neg = False
    while isinstance(t, ast.UnaryOp) and isinstance(t.op, ast.Not):
        neg, t = not neg, t.operand
    thr = var = None
    stay = (ast.LtE, ast.Lt) if neg else (ast.Gt, ast.GtE)       # `not abs(c) <= THR` continues like `abs(c) > THR`
    if isinstance(t, ast.Compare) and len(t.ops) == 1 and isinstance(t.ops[0], stay) and isinstance(t.left, ast.Call) \
            and norm_text(t.left.func) == "abs" and isinstance(t.left.args[0], ast.Name):
        var = t.left.args[0].id
        thr = const_value(repo, "Sun", t.comparators[0])
    gain = None
    sin_arg = None
    for st in lp.body:
        if isinstance(st, ast.Assign) and len(st.targets) == 1 and isinstance(st.targets[0], ast.Name) and st.targets[0].id == var \
                and isinstance(st.value, ast.BinOp) and isinstance(st.value.op, ast.Mult):
            for a, b in ((st.value.left, st.value.right), (st.value.right, st.value.left)):
                g = const_value(repo, "Sun", a)
                if g is not None and isinstance(b, ast.Call) and norm_text(b.func) == "sin":
                    gain, sin_arg = g, b.args[0]
    # the correction is applied to the epoch inside the loop
    applied = any(isinstance(st, ast.AugAssign) and isinstance(st.op, ast.Add) and isinstance(st.value, ast.Name) and st.value.id == var
                  for st in lp.body)
    if thr is None or gain is None or not applied or thr <= 0 or gain <= 0:
        rep.inconcl("R-EXIT-BOUND", site, "refinement loop is not of the form `while abs(c) > THR: c = G*sin(..); epoch += c`")
        return
    # the sine argument is the (wrapped) difference target - longitude in radians: decided by R-ENUM/R-UNITS above
    if thr / gain >= 1:
        rep.violation("R-EXIT-BOUND", site, "exit-threshold", "loop threshold %g >= gain %g: the exit test is always true" % (thr, gain))
        return
    bound = math.degrees(math.asin(thr / gain))
    if bound <= 1e-5:
        rep.ok("R-EXIT-BOUND", site, "exit when |corr| <= %g d with corr = %g*sin(dlon): |dlon| <= asin(%g/%g) = %.3g deg <= 1e-5 PROVED"
               % (thr, gain, thr, gain, bound), obligation=True)
    else:
        rep.violation("R-EXIT-BOUND", site, "exit-threshold",
                      "the refinement loop stops as soon as |corr| <= %g d (corr = %g*sin(dlon)), which only guarantees |longitude - target| <= %.3g deg; "
                      "the property asks 1e-5 deg, and the iteration contracts by a modest factor per step, so residuals near the bound do occur"
                      % (thr, gain, bound), obligation=True)


def eot(repo, rep):
    rep.rule("R-ANGLE-WRAP", "the reduction E - 360*round(E/360) is applied to a number, never to an Angle (whose arithmetic already wraps)")
    q = "Sun.equation_of_time"
    rep.fn("Sun", q)
    an = absint.analysis_for(repo)
    fn = repo.func("Sun", q)
    m = repo.mod("Sun")
    fns = with_new_helpers(repo, "Sun", fn)
    sites = {"%s.%s" % (mn_, k) for mn_, m_ in repo.modules.items() for k, g in m_.functions.items() if any(g is f for f in fns)}
    evs = [e for e in an.events_for("anglewrap") if e.site.split(".<locals>")[0] in sites]
    for e in evs:
        rep.violation("R-ANGLE-WRAP", e.site, e.key, e.msg, construct="line %d" % e.node.lineno)
    has = any(isinstance(n, ast.Call) and isinstance(n.func, ast.Name) and n.func.id == "round" for f in fns for n in ast.walk(f))
    if not has:
        rep.violation("R-ANGLE-WRAP", "Sun." + q, "no-reduction", "the equation of time is not reduced to (-180, 180] degrees before conversion to minutes")
    elif not evs:
        rep.ok("R-ANGLE-WRAP", "Sun." + q, "+-180 reduction applied to a plain number")
    # R-WRAP-SELF (package-wide): E - 360*round(E'/360) must use E' == E
    rep.rule("R-WRAP-SELF", "in the reduction idiom E - 360*round(E'/360) the rounded quotient is taken from E itself")
    ws = an.events_for("wrapself")
    for e in ws:
        rep.violation("R-WRAP-SELF", e.site.split(".<locals>")[0], e.key, e.msg, construct="line %d" % e.node.lineno)
    if not ws:
        rep.ok("R-WRAP-SELF", "package", "%d reduction idioms, each reducing its own operand" % getattr(an, "wrap_sites", 0))
    rep.floor("reduction idioms E - 360*round(E/360)", getattr(an, "wrap_sites", 0), 1)
    # package-wide: no other site
    for e in an.events_for("anglewrap"):
        if e.site.split(".<locals>")[0] not in sites:
            rep.violation("R-ANGLE-WRAP", e.site, e.key, e.msg)


def rise_set(repo, rep):
    q = "Epoch.rise_set"
    rep.fn("Epoch", q)
    fn = repo.func("Epoch", q)
    nm = [a.arg for a in fn.args.args]
    outs = outcomes(repo, "Epoch", q, arg_terms={nm[0]: ("epoch", T.sym("J")), nm[1]: ("angle", T.sym("LAT")), nm[2]: ("angle", T.sym("LON")), nm[3]: T.sym("NUM_ALT")})
    lim = Fraction(66) + Fraction(33, 60)
    lat = T.call("red", T.sym("LAT"))
    ok = False
    for o in outs:
        if o.kind == "raise" and o.value == ("str", "ValueError"):
            ds = disjuncts(conjuncts(o.cond)[-1])
            up = any(d == ("cmp", "Gt", lat, T.call("red", T.num(lim))) or d == ("cmp", "Gt", lat, T.num(lim)) for d in ds)
            dn = any(d in (("cmp", "Lt", lat, T.call("red", T.num(-lim))), ("cmp", "Lt", lat, T.num(-lim))) for d in ds)
            ok = ok or (up and dn)
    site = "Epoch." + q
    if ok:
        rep.ok("R-RANGE-REFUSE", site, "latitude > 66d33' or < -66d33' -> ValueError")
    else:
        # written another way (abs(latitude) > limit, a helper ...): the refusal is a decision over comparisons of the latitude with constants -
        # executed on every class of latitude against the limit
        from ..rules import eval_exact, NotEvaluable

        def prims(t_, env_):
            if t_[0] == "call" and t_[1] == "red" and len(t_) == 3:
                v_ = eval_exact(t_[2], env_, prims)
                return v_ if abs(v_) < 360 else (abs(v_) % 360) * (1 if v_ >= 0 else -1)
            if t_[0] == "call" and t_[1] == "isinstance":
                return True                      # well-typed arguments
            return None
        verdict = {}
        try:
            for lv in (Fraction(-90), -lim - Fraction(1, 100), -lim, -lim + Fraction(1, 100), Fraction(0), lim - Fraction(1, 100), lim, lim + Fraction(1, 100), Fraction(90)):
                env_ = {T.sym("LAT"): lv, "$memo": {}}
                refused = False
                for o in outs:
                    if o.kind == "raise" and o.value == ("str", "ValueError") and eval_exact(o.cond, dict(env_), prims) is True:
                        refused = True
                verdict[lv] = refused
        except (NotEvaluable, TypeError, ValueError, KeyError) as e:
            verdict = None
            rep.inconcl("R-RANGE-REFUSE", site, "latitude refusal neither in the known form nor executable: %s" % e)
        if verdict is not None:
            wrong = [lv for lv, r_ in verdict.items() if r_ != (abs(lv) > lim)]
            if wrong:
                rep.violation("R-RANGE-REFUSE", site, "latitude-range", "latitude %s deg is %s; the routine is valid for |latitude| <= 66 deg 33' and must refuse the rest with ValueError"
                              % (float(wrong[0]), "refused" if verdict[wrong[0]] else "accepted"))
            else:
                rep.ok("R-RANGE-REFUSE", site, "ValueError exactly for |latitude| > 66d33' (decision executed on every class of latitude)")
    t = symx.return_term(outs)
    ls = find_calls(t, "Epoch.Epoch.leap_seconds") if t is not None else []
    gd = [x for x in T.walk(t) if x[0] == "call" and x[1] == "Epoch.Epoch.get_date"] if t is not None else []
    if ls and gd and all(c[2] == ("idx", gd[0], T.num(0)) and c[3] == ("idx", gd[0], T.num(1)) for c in ls):
        rep.ok("R-TAINT-SHIFT", site, "leap seconds looked up with the civil (year, month) returned by get_date()")
    else:
        rep.violation("R-TAINT-SHIFT", site, "leap-args", "the leap-second term is not looked up with the civil year/month of the date")
    # R-NOEVENT: near the polar circles (and with dip) the Sun may not reach the standard altitude: |cos(hour angle)| > 1.
    # That case must surface - acos() of the raw cosine raises ValueError, or an explicit test refuses / reports it - and must
    # not be masked by clamping the cosine into [-1, 1], which fabricates instants at transit -/+ 12 h.
    rep.rule("R-NOEVENT", "the hour-angle cosine reaches acos() unclamped (or |cos| > 1 is tested explicitly): days without sunrise/sunset are not turned into fabricated instants")
    acs = find_calls(t, "acos") if t is not None else []
    if not acs:
        rep.inconcl("R-NOEVENT", site, "no acos() of an hour-angle cosine found in the returned instants")
    else:
        clamped = []
        for c in acs:
            a_ = c[2]
            inner = [x for x in T.walk(a_) if (x[0] == "call" and x[1] in ("min", "max", "fmin", "fmax", "clip"))
                     or (x[0] == "phi" and any(l in (T.ONE, T.num(-1)) for l in (x[2], x[3])))]
            if inner:
                clamped.append(inner[0])
        tested = any(o.kind in ("raise", "ret") and any(cj[0] == "cmp" and cj[1] in ("Gt", "GtE") and cj[3] == T.ONE and cj[2][0] == "call" and cj[2][1] == "abs"
                                                         for cj in conjuncts(o.cond)) and (o.kind == "raise" or o.value == T.NONE or (o.value is not None and T.NONE in o.value))
                     for o in outs)
        if clamped and not tested:
            rep.violation("R-NOEVENT", site, "clamped-cosine", "the hour-angle cosine is forced into [-1, 1] (%s) before acos(): when the Sun never reaches the standard altitude "
                          "(|cos| > 1) the method returns instants at transit -/+ 12 h instead of refusing" % T.show(clamped[0])[:80], obligation=True)
        else:
            rep.ok("R-NOEVENT", site, "acos() receives the raw hour-angle cosine: |cos| > 1 raises ValueError (math domain)" if not clamped else
                   "|cos| > 1 is tested explicitly before the clamp", obligation=True)


def trts(repo, rep):
    q = "times_rise_transit_set"
    rep.fn("Coordinates", q)
    fn = repo.func("Coordinates", q)
    nm = [a.arg for a in fn.args.args]
    at = {n: ("angle", T.sym(n.upper())) for n in nm}
    at["delta_t"] = T.sym("NUM_DT")
    outs = outcomes(repo, "Coordinates", q, arg_terms=at)
    site = "Coordinates." + q
    none3 = ("tuple", T.NONE, T.NONE, T.NONE)
    nones = [o for o in outs if o.kind == "ret" and o.value == none3]
    others = [o for o in outs if o.kind == "ret" and o.value != none3]
    alg = Algebra()
    rad = lambda n: T.mul(T.sym(n), D2R)
    want = T.div(T.sub(T.call("sin", rad("H0")), T.mul(T.call("sin", rad("LATITUDE")), T.call("sin", rad("DELTA2")))),
                 T.mul(T.call("cos", rad("LATITUDE")), T.call("cos", rad("DELTA2"))))
    ok = False
    detail = "no (None, None, None) return"
    if len(nones) == 1 and others:
        c = conjuncts(nones[0].cond)[-1]
        if c[0] == "cmp" and c[1] == "Gt" and c[3] == T.ONE and c[2][0] == "call" and c[2][1] == "abs":
            try:
                ok = alg.equal(c[2][2], want)
            except Exception:
                ok = False
            detail = "test is on " + T.show(c[2][2])[:100]
            # the value-returning paths carry the negation
            ok = ok and all(T.lnot(c) in conjuncts(o.cond) for o in others)
        else:
            detail = "guard is " + T.show(c)[:100]
    if ok:
        rep.ok("R-DEP", site, "(None, None, None) exactly when |cos H0| > 1, cos H0 == (sin h0 - sin lat sin dec2)/(cos lat cos dec2)")
    else:
        rep.violation("R-DEP", site, "no-times-condition", "the no-times result is not returned exactly when |(sin h0 - sin lat sin dec)/(cos lat cos dec)| > 1: " + detail)
    # R-REFINE: the body's coordinates are interpolated at the day fraction m itself; a returned time must therefore be the last
    # iterate plus its correction.  Folding it back by a whole day *after* a correction (a 0..1 wrap on the refined value)
    # returns an instant 24 h away from the one the refinement converged to, where a moving body is elsewhere.
    rep.rule("R-REFINE", "no whole-day adjustment is applied to a time after it was corrected from the interpolated position")
    wrapped = None
    n_comp = 0

    def spine(t, depth=0):
        """phi nodes reachable from the top of a value through + and * and phi branches only (not through call arguments)"""
        if depth > 40:
            return
        if t[0] == "phi":
            yield t
            yield from spine(t[2], depth + 1)
            yield from spine(t[3], depth + 1)
        elif t[0] in ("add", "mul"):
            for x in t[1:]:
                yield from spine(x, depth + 1)
        elif t[0] == "loopout" and len(t) == 3 and t[2][0] == "loop":
            # `while m < 0 or m > 1: m += / -= 1`: a wrap written as a loop - reported as a pseudo-phi (test on the entry value)
            inits, body = dict(t[2][3]), dict(t[2][4])
            init, step = inits.get(t[1]), body.get(t[1])
            if init is not None and step is not None:
                lv = ("lv", t[2][1], t[1])
                leaves = [lf for _c, lf in phi_leaves_(step)]
                if leaves and all(lf == lv or (lf[0] == "add" and lv in lf[1:] and all(y == lv or y[0] == "num" for y in lf[1:])) for lf in leaves) \
                        and any(lf != lv for lf in leaves):
                    yield ("phi", ("wrap-loop", init), T.add(init, T.ONE), init)
                yield from spine(init, depth + 1)

    def phi_leaves_(t, conds=()):
        if t[0] == "phi":
            yield from phi_leaves_(t[2], conds + (t[1],))
            yield from phi_leaves_(t[3], conds + (T.lnot(t[1]),))
        else:
            yield conds, t
    for o in others:
        if o.value[0] != "tuple":
            continue
        for comp in o.value[1:]:
            n_comp += 1
            for ph in spine(comp):
                dependent = any(x[0] == "call" and x[1] == "Coordinates.equatorial2horizontal" for x in T.walk(ph[1])) or \
                    any(x[0] == "call" and x[1] == "round" for x in T.walk(ph[1]))
                if not dependent:
                    continue
                try:
                    diff = Algebra(atomize=True).rat(T.sub(ph[2], ph[3]))
                    const = diff.n.is_const() and diff.d.is_const() and diff.n.const_value() != 0
                except Exception:
                    const = False
                if const and wrapped is None:
                    wrapped = T.show(ph[1])[:90]
    if wrapped:
        rep.violation("R-REFINE", site, "wrap-after-refinement", "a returned time is shifted by a constant (whole day) depending on a test of the already corrected value "
                      "(%s ...): the interpolated position belongs to the unshifted instant, so the body is not at the stated altitude / on the meridian at the "
                      "returned time" % wrapped, obligation=True)
    elif n_comp:
        rep.ok("R-REFINE", site, "returned times are the last iterates plus their corrections; day wrapping happens only before the refinement", obligation=True)
    ar = {len(o.value) - 1 for o in outs if o.kind == "ret" and o.value[0] == "tuple"}
    if ar == {3}:
        rep.ok("R-ARITY", site, "every return is a 3-tuple")
    else:
        rep.violation("R-ARITY", site, "arity", "returns tuples of lengths %s" % sorted(ar))
