"""C12 interpolation: roots and extrema lie where asked; refusals; ordering.

Decided: D1 root(): the limits handed to the interpolant are clamped to the table on the
correct side (lower >= table minimum, upper <= table maximum) (R-CLAMP); D2 the iterate
accepted from the Newton step is tested against the *current bracket*, so the returned
abscissa stays inside [xl, xh] (bracket invariant; the other two candidates - midpoint
and regula-falsi point of a sign-changing bracket - are inside by construction);
minmax() delegates to root() of the derivative table with the caller's limits;
D3 abscissae outside the table and duplicated abscissae are refused with ValueError
(R-RANGE-REFUSE), the duplicate check and the ordering precede the table computation on
every path (R-ORDER), only TypeError/ValueError are raised; D4 copies do not observe
each other's mutations (R-FRESHCOPY); D5 clients call root()/minmax() with the default
limits on tables they built themselves."""
import ast

from .. import symx, terms as T
from ..frontend import AnalysisError, norm_text, body_without_docstring
from ..rules import ret_term, find_calls, outcomes, conjuncts, disjuncts, exc_name
from .. import guards, effects
from .c20 import fresh_requirements, r_freshcopy

MANIFEST = {
    "level": "other",
    "technique": "static analysis: symbolic bound facts from clamp idioms (if v < E: v = E) on the symbolically evaluated root(), typestate of the Newton iterate against the loop-carried bracket, must-pass-through ordering in set(), range-refusal path rule, fresh-container analysis for the copy constructor, exhaustive evaluation of the ordering routine on every weak ordering of the abscissae and of the duplicate test, symbolic execution of the Newton coefficient table for 2..6 points (one divided difference per abscissa on every path), partial evaluation of the conjunction helpers for every table size 3..9 (time axis and ordinates handed to the interpolant), symbolic execution of _newton_diff / __call__ / derivative on tables of 2..9 symbolic points with the interpolation identities (degree below n, value Y_k at X_k, derivative() == formal derivative) discharged as rational-function identities by polynomial normal form",
    "text": "Decides for every call (not sampled limits) that root() evaluates the interpolant only inside the table, that any accepted Newton iterate is checked against the current bracket (so the answer stays in [xl, xh]), that out-of-range and duplicated abscissae are refused before any table is computed, and that the shared lists of a copy are never mutated in place. The ordering step is shown to sort every ordering of the input points, and the conjunction helpers to tabulate the coordinate differences against n = -k..k with the middle used entry at n = 0 for every table size (even sizes lose their last entry). That the interpolant is the interpolating polynomial is proved, in exact arithmetic, for every table at once: with the points symbolic and in no particular order, __call__'s value is a polynomial of degree below n whose value at every tabulated abscissa X_k is Y_k once the coefficients are the divided differences _newton_diff computes (all points symbolic for n = 2..4, 5 in the thorough tier; symbolic ordinates over sampled distinct rational abscissae for n up to 9) - so it reproduces every polynomial of degree below n - each `x is tabulated` short cut returns the ordinate of the same index, and derivative(x) is identically the formal derivative of that polynomial (n = 2..9). The 1e-9 floating-point tolerance and the convergence of the root iteration are numerical and not decided. For every table size 2..9 the value-returning paths of __call__ and derivative() are shown not to be taken for an abscissa just outside the table (their path conditions are executed on the table 0..n-1 at x = -1 and x = n).",
    "note": "Trusted: the clamp idioms enumerated in the checker (if v < m: v = m / if v > M: v = M and their <=, >= and min/max forms). Undecided: floating-point error of the polynomial reproduction (1e-9), convergence, sign-change existence.",
}
MOD = "Interpolation"
CLS = "Interpolation"

XMIN = ("idx", ("attr", T.sym("self"), "_x"), T.num(0))
XMAX = ("idx", ("attr", T.sym("self"), "_x"), T.num(-1))


def at_least(t, m):
    """term t is provably >= m by a clamp idiom"""
    if t == m:
        return True
    if t[0] == "call" and t[1] == "max" and m in t[2:]:
        return True
    if t[0] == "phi" and t[1][0] == "cmp":
        op, a, b = t[1][1], t[1][2], t[1][3]
        if op in ("Lt", "LtE") and b == m and at_least(t[2], m) and (t[3] == a or at_least(t[3], m)):
            return True
        if op in ("Gt", "GtE") and a == m and at_least(t[2], m) and (t[3] == b or at_least(t[3], m)):
            return True
        if op in ("GtE", "Gt") and b == m and (t[2] == a or at_least(t[2], m)) and at_least(t[3], m):
            return True
    return False


def at_most(t, M):
    if t == M:
        return True
    if t[0] == "call" and t[1] == "min" and M in t[2:]:
        return True
    if t[0] == "phi" and t[1][0] == "cmp":
        op, a, b = t[1][1], t[1][2], t[1][3]
        if op in ("Gt", "GtE") and b == M and at_most(t[2], M) and (t[3] == a or at_most(t[3], M)):
            return True
        if op in ("Lt", "LtE") and a == M and at_most(t[2], M) and (t[3] == b or at_most(t[3], M)):
            return True
        if op in ("LtE", "Lt") and b == M and (t[2] == a or at_most(t[2], M)) and at_most(t[3], M):
            return True
    return False


def run(repo, rep, tier):
    rep.decided = ["D1 limits clamped to the table on the correct side", "D2 accepted Newton iterate checked against the current bracket; minmax delegates",
                   "D3 refusals (range, duplicates), order-then-tabulate, exception classes", "D4 copies share lists but never observe in-place mutation",
                   "D5 clients use default limits on their own tables"]
    rep.undecided = ["floating-point error of the polynomial reproduction (1e-9)", "convergence of the iteration"]
    rep.decided.append("D6 __call__ is the unique interpolating polynomial (degree < n, passes through every point) and derivative() its formal derivative: rational-function identities on symbolic tables of 2..9 points (R-INTERPOLANT)")
    rep.rule("R-CLAMP", "symbolic bound facts from clamp idioms establish the precondition of the interpolant call / the bracket invariant")
    clamp(repo, rep)
    refusals(repo, rep)
    order(repo, rep)
    sorts_every_ordering(repo, rep)
    r_freshcopy_local(repo, rep)
    clients(repo, rep)
    table_complete(repo, rep)
    interpolant(repo, rep, tier)
    time_axis(repo, rep)
    fam = [(MOD, "%s.%s" % (CLS, q)) for q in ("set", "_order_points", "_compute_table", "_newton_diff", "__call__", "derivative", "root", "minmax")]
    effects.check_functions(repo, rep, fam)
    guards.check_functions(repo, rep, fam)
    raises(repo, rep, fam)
    return "other"


# --------------------------------------------------------------------------------------------------------------------------
# R-INTERPOLANT: the value returned by __call__ is THE interpolating polynomial; derivative() is its derivative
# --------------------------------------------------------------------------------------------------------------------------
def _poly_diff(p, atom):
    """formal derivative of a poly.Poly with respect to one atom"""
    from ..poly import Poly
    out = {}
    for mono, c in p.t.items():
        d = dict(mono)
        e = d.get(atom, 0)
        if not e:
            continue
        if e == 1:
            del d[atom]
        else:
            d[atom] = e - 1
        k = tuple(sorted(d.items()))
        v = out.get(k, 0) + c * e
        if v == 0:
            out.pop(k, None)
        else:
            out[k] = v
    return Poly(out)


def interpolant(repo, rep, tier):
    """R-INTERPOLANT.  For a table of n symbolic points (X_i, Y_i) - in no particular order - the Newton coefficients are derived by
    executing _newton_diff symbolically (recursion unfolded), the value of __call__(x) by executing it with symbolic coefficients.
    Proved as identities of rational functions: (a) each short cut `x is a tabulated abscissa` returns the ordinate of that same
    abscissa; (b) the general value H(x) is a polynomial in x of degree below n; (c) H(X_k) == Y_k for every k once the coefficients
    are the divided differences.  (b) and (c) make H the unique interpolating polynomial, hence it reproduces every polynomial of
    degree below n - for every table, order and abscissa at once (exact arithmetic).  n = 2..4 (5 in the thorough tier) are proved
    with all X_i, Y_i symbolic; for n up to 9 the Y_i stay symbolic (H is linear in them) and the X_i are given several sets of
    distinct rationals, sorted and unsorted.  (d) derivative(x) == dH/dx as polynomials in x, X_i and the coefficients, n = 2..9."""
    import random
    from fractions import Fraction
    from ..poly import Algebra
    from ..rules import eval_exact, NotEvaluable
    rep.rule("R-INTERPOLANT", "Interpolation.__call__ returns a polynomial of degree below n that takes the value Y_k at every X_k (divided differences symbolic), "
                              "and derivative() is its formal derivative: identities of rational functions, tables of 2..9 points")
    site = "%s.%s.__call__" % (MOD, CLS)
    for q in ("__call__", "derivative", "_newton_diff"):
        rep.fn(MOD, CLS + "." + q)
    tol = T.num(Fraction("1e-10"))
    X = T.sym("NUM_x")
    XA = ("V", "NUM_x")
    proved, sampled, dproved = [], [], []
    nmax_sym = 5 if tier == "thorough" else 4
    rnd = random.Random(20240917)
    for n in range(2, 10):
        xs = ("list",) + tuple(T.sym("NUM_X%d" % i) for i in range(n))
        ys = ("list",) + tuple(T.sym("NUM_Y%d" % i) for i in range(n))
        cs = ("list",) + tuple(T.sym("NUM_C%d" % i) for i in range(n))
        memo = {}

        def nd(a, b):
            if (a, b) not in memo:
                outs, _ = symx.eval_function(repo, MOD, CLS + "._newton_diff", arg_terms=dict(extra_args, **{"self": T.sym("self"), an_[1]: T.num(a), an_[2]: T.num(b)}),
                                             extra_env={"self._x": xs, "self._y": ys, "self._tol": tol}, unroll=12)
                t = symx.return_term(outs)
                if t is None:
                    raise AnalysisError("_newton_diff(%d, %d) has no value" % (a, b))
                mp = {}
                for c in set(x for x in T.walk(t) if x[0] == "call" and x[1].endswith("._newton_diff")):
                    if len(c) < 5 or c[3][0] != "num" or c[4][0] != "num":
                        raise AnalysisError("recursive call with non-literal indices: " + T.show(c)[:80])
                    if (int(c[3][1]), int(c[4][1])) == (a, b) or not (0 <= c[3][1] <= c[4][1] < n) or (c[4][1] - c[3][1]) >= (b - a):
                        raise AnalysisError("recursion does not descend: " + T.show(c)[:80])
                    mp[c] = nd(int(c[3][1]), int(c[4][1]))
                memo[(a, b)] = T.subst(t, mp) if mp else t
            return memo[(a, b)]
        try:
            fn_ = repo.func(MOD, CLS + "._newton_diff")
            an_ = [a.arg for a in fn_.args.args]
            n_req = len(an_) - len(fn_.args.defaults)
            if len(an_) < 3 or an_[0] != "self" or n_req > 3:
                raise AnalysisError("_newton_diff signature changed: %s" % an_)
            # further parameters with defaults (a memo table, say) take their defaults: they must not change the value
            extra_args = {}
            for nm_, d_ in zip(an_[n_req:], fn_.args.defaults):
                if nm_ in an_[:3]:
                    continue
                if isinstance(d_, ast.Constant) and d_.value is None:
                    extra_args[nm_] = T.NONE
                elif isinstance(d_, ast.Constant) and isinstance(d_.value, (int, float)) and not isinstance(d_.value, bool):
                    extra_args[nm_] = T.num(Fraction(str(d_.value)))
                else:
                    raise AnalysisError("_newton_diff: default of `%s` not a literal" % nm_)
            table = [nd(0, i) for i in range(n)]
            env = {"self._x": xs, "self._y": ys, "self._table": cs, "self._tol": tol}
            fc = repo.func(MOD, CLS + ".__call__")
            outs, _ = symx.eval_function(repo, MOD, CLS + ".__call__", arg_terms={"self": T.sym("self"), fc.args.args[1].arg: X}, extra_env=dict(env), unroll=12)
            fd = repo.func(MOD, CLS + ".derivative")
            douts, _ = symx.eval_function(repo, MOD, CLS + ".derivative", arg_terms={"self": T.sym("self"), fd.args.args[1].arg: X}, extra_env=dict(env), unroll=12)
        except (AnalysisError, RecursionError) as e:
            rep.inconcl("R-INTERPOLANT", site, "n=%d: not executable symbolically: %s" % (n, str(e)[:160]))
            return
        rets = [o for o in outs if o.kind == "ret"]
        if not rets:
            rep.inconcl("R-INTERPOLANT", site, "n=%d: __call__ has no value-returning path" % n)
            return
        # (e) abscissae outside the table are refused: on the table X_i = i no value-returning path of __call__ / derivative is taken for
        #     x = -1 or x = n (their path conditions are executed; the ordinates play no part in them)
        for what_, oo_ in (("__call__", outs), ("derivative", douts)):
            try:
                for xv in (Fraction(-1), Fraction(n)):
                    env_ = {X: xv, "$memo": {}}
                    env_.update({xs[1 + i]: Fraction(i) for i in range(n)})
                    taken = [o for o in oo_ if o.kind == "ret" and eval_exact(o.cond, dict(env_)) is True]
                    if taken:
                        rep.violation("R-INTERPOLANT", "%s.%s.%s" % (MOD, CLS, what_), "outside-accepted:%s:n=%d" % (what_, n),
                                      "table of %d points with abscissae 0..%d: %s(%s) returns a value although the abscissa lies outside the table "
                                      "(abscissae outside the table must be refused with ValueError)" % (n, n - 1, what_, xv), obligation=True)
                        return
            except (NotEvaluable, TypeError, ValueError, KeyError) as e:
                rep.inconcl("R-INTERPOLANT", "%s.%s.%s" % (MOD, CLS, what_), "n=%d: refusal of outside abscissae not executable: %s" % (n, e))
                break
        alg = Algebra()
        general = []
        for o in rets:
            v = o.value
            if v[0] == "phi":
                general.append(o)
                continue
            if v in ys[1:]:
                # short cut: must be guarded by `x is (within the tolerance of) the abscissa with the same index`
                k = ys.index(v) - 1
                near = [c for c in conjuncts(o.cond) if c[0] == "cmp" and c[1] in ("Lt", "LtE") and any(y_ == xs[1 + j] for j in range(n) for y_ in T.walk(c[2]))
                        and not (c[0] == "not")]
                idx = set(j for c in near for j in range(n) if any(y_ == xs[1 + j] for y_ in T.walk(c[2])))
                if idx and idx != {k}:
                    rep.violation("R-INTERPOLANT", site, "shortcut:n=%d" % n, "table of %d points: when x is the tabulated abscissa X_%d the ordinate Y_%d is returned"
                                  % (n, sorted(idx)[0], k), obligation=True)
                    return
                continue
            general.append(o)
        if len(general) != 1:
            rep.inconcl("R-INTERPOLANT", site, "n=%d: %d general value paths (expected the one Horner evaluation)" % (n, len(general)))
            return
        H = general[0].value
        try:
            rH = alg.rat(H)
        except Exception as e:
            rep.inconcl("R-INTERPOLANT", site, "n=%d: value not algebraic: %s" % (n, str(e)[:100]))
            return
        if not rH.d.is_const():
            rep.inconcl("R-INTERPOLANT", site, "n=%d: the value is not a polynomial in its coefficients" % n)
            return
        deg = max((dict(m).get(XA, 0) for m in rH.n.t), default=0)
        if deg > n - 1:
            rep.violation("R-INTERPOLANT", site, "degree:n=%d" % n, "table of %d points: the value is a polynomial of degree %d in x; the interpolating polynomial has degree below %d"
                          % (n, deg, n), obligation=True)
            return
        sub_c = {cs[1 + i]: table[i] for i in range(n)}
        impure = [x for tt in table for x in T.walk(tt) if x[0] not in ("add", "mul", "pow", "num", "sym")]
        if impure:
            # the coefficients did not come out as rational functions of the table (containers, calls, conditions left over): no identity to test
            rep.inconcl("R-INTERPOLANT", site, "n=%d: Newton coefficients not reduced to rational functions of the table (%s)" % (n, T.show(impure[0])[:80]))
            return
        # (c) symbolic in everything
        if n <= nmax_sym:
            for k in range(n):
                hk = T.subst(T.subst(H, {X: xs[1 + k]}), sub_c)
                try:
                    eq = alg.equal(hk, ys[1 + k])
                except (OverflowError, ZeroDivisionError, Exception) as e:
                    rep.inconcl("R-INTERPOLANT", site, "n=%d: identity H(X_%d) == Y_%d not decided: %s" % (n, k, k, str(e)[:80]))
                    return
                if not eq:
                    rep.violation("R-INTERPOLANT", site, "through-points:n=%d" % n,
                                  "table of %d points: with the Newton coefficients the returned value at x = X_%d is not Y_%d (as a rational function of the table): the "
                                  "interpolant does not pass through the tabulated point, so polynomials of degree below %d are not reproduced" % (n, k, k, n), obligation=True)
                    return
            proved.append(n)
        # (c) Y symbolic, X sampled
        for trial in range(3 if tier != "thorough" else 8):
            vals = rnd.sample(range(-40, 41), n)
            if trial == 0:
                vals = sorted(vals)
            elif trial == 1:
                vals = [Fraction(v, 7) for v in sorted(vals, reverse=True)]
            mpx = {xs[1 + i]: T.num(Fraction(vals[i])) for i in range(n)}
            alg2 = Algebra()
            for k in range(n):
                hk = T.subst(T.subst(T.subst(H, {X: xs[1 + k]}), sub_c), mpx)
                try:
                    eq = alg2.equal(hk, ys[1 + k])
                except ZeroDivisionError:
                    eq = None
                if eq is None:
                    rep.inconcl("R-INTERPOLANT", site, "n=%d: division by zero on distinct abscissae %s" % (n, vals))
                    return
                if not eq:
                    rep.violation("R-INTERPOLANT", site, "through-points:n=%d" % n,
                                  "table of %d points with abscissae %s (ordinates symbolic): the returned value at the abscissa %s is not its ordinate Y_%d: the interpolant "
                                  "does not pass through the tabulated point, so polynomials of degree below %d are not reproduced"
                                  % (n, [str(v) for v in vals], vals[k], k, n), obligation=True)
                    return
        sampled.append(n)
        # (d) derivative
        drets = [o for o in douts if o.kind == "ret"]
        if not drets:
            rep.inconcl("R-INTERPOLANT", "%s.%s.derivative" % (MOD, CLS), "n=%d: no value-returning path" % n)
            return
        dH = _poly_diff(rH.n, XA)
        for o in drets:
            try:
                rD = Algebra().rat(T.subst(o.value, sub_c) if n == 2 else o.value)
                if n == 2:
                    lhs = rD
                    rr = Algebra().rat(T.subst(_poly_term(dH), sub_c))
                    same = (lhs.n * rr.d - rr.n * lhs.d).is_zero()
                else:
                    same = (rD.n * rH.d - dH * rD.d).is_zero()
            except Exception as e:
                rep.inconcl("R-INTERPOLANT", "%s.%s.derivative" % (MOD, CLS), "n=%d: derivative not algebraic: %s" % (n, str(e)[:100]))
                return
            if not same:
                rep.violation("R-INTERPOLANT", "%s.%s.derivative" % (MOD, CLS), "derivative:n=%d" % n,
                              "table of %d points: derivative(x) is not the formal derivative of the polynomial __call__(x) evaluates (as polynomials in x, the abscissae and "
                              "the Newton coefficients)" % n, obligation=True)
                return
        dproved.append(n)
    rep.ok("R-INTERPOLANT", site, "value is the unique interpolating polynomial: degree < n and H(X_k) == Y_k proved with all points symbolic for n = %s; with symbolic ordinates "
           "and sampled distinct rational abscissae (sorted, reversed, shuffled) for n = %s" % (proved, sampled), obligation=True)
    rep.ok("R-INTERPOLANT", "%s.%s.derivative" % (MOD, CLS), "derivative(x) == d/dx of the interpolating polynomial, identically in x, X_i and the coefficients, for n = %s" % dproved, obligation=True)
    rep.floor("table sizes with the interpolation identities proved", len(sampled), 8)


def _poly_term(p):
    """poly.Poly -> term (atoms ('V', name) only)"""
    parts = []
    for mono, c in p.t.items():
        fac = [T.num(c)]
        for (a, e) in mono:
            if a[0] != "V":
                raise AnalysisError("non-variable atom")
            fac += [T.sym(a[1])] * e
        parts.append(T.mul(*fac))
    return T.add(*parts) if parts else T.ZERO


def table_complete(repo, rep):
    """R-TABLE-LEN: the interpolating polynomial through n points needs n Newton coefficients, one divided difference f[x0..xi]
    per abscissa, in order.  _compute_table is executed symbolically on tables of 2..6 symbolic points (loop unrolled, early
    exits turned into path conditions): on every path the coefficient table must be exactly [f[x0], f[x0,x1], ..., f[x0..x_{n-1}]]
    - a path that stops early (e.g. at a vanishing leading difference) drops the higher-order terms although they need not vanish."""
    rep.rule("R-TABLE-LEN", "the Newton coefficient table holds one divided difference per abscissa on every path (tables of 2..6 points)")
    q = CLS + "._compute_table"
    site = "%s.%s" % (MOD, q)
    rep.fn(MOD, q)
    bad = None
    unknown = None
    n_ok = 0
    for n in range(2, 7):
        xs = ("list",) + tuple(T.sym("X%d" % i) for i in range(n))
        ys = ("list",) + tuple(T.sym("Y%d" % i) for i in range(n))
        try:
            outs, _ = symx.eval_function(repo, MOD, q, arg_terms={"self": T.sym("self")},
                                         extra_env={"self._x": xs, "self._y": ys, "self._table": ("list",)}, unroll=12)
        except AnalysisError as e:
            unknown = str(e)
            break
        want = ("list",) + tuple(T.call("%s.%s._newton_diff" % (MOD, CLS), T.sym("self"), T.num(0), T.num(i)) for i in range(n))
        for o in outs:
            if o.kind == "raise":
                continue
            tab = o.env.get("self._table")
            if tab is None:
                unknown = "no coefficient table left in self._table"
                break
            from ..rules import phi_leaves
            for conds, leaf in phi_leaves(tab):
                if leaf[0] != "list":
                    unknown = "coefficient table is not built as a list: " + T.show(leaf)[:60]
                    break
                # extra arguments (a memo table, flags) do not change which difference is computed: compare (receiver, start, end)
                lf = ("list",) + tuple(x[:5] if (x[0] == "call" and x[1].endswith("_newton_diff") and len(x) > 5) else x for x in leaf[1:])
                if lf != want and bad is None:
                    if len(leaf) != len(want):
                        bad = (n, "holds %d coefficient(s) for %d points when %s" % (len(leaf) - 1, n, T.show(T.land(*conds))[:120] if conds else "always"))
                    elif all(x[0] == "call" and x[1].endswith("_newton_diff") for x in leaf[1:]):
                        bad = (n, "is %s, not the leading divided differences f[x0..xi], i = 0..%d" % (T.show(leaf)[:100], n - 1))
                    else:
                        unknown = "coefficients are not plain _newton_diff(0, i) calls: " + T.show(leaf)[:80]
            if unknown:
                break
        if unknown or bad:
            break
        n_ok += 1
    if bad:
        rep.violation("R-TABLE-LEN", site, "table-length:n=%d" % bad[0], "for a table of %d points the Newton coefficient table %s: the interpolant no longer passes through "
                      "every point / reproduces polynomials of degree below n" % (bad[0], bad[1]), obligation=True)
    elif unknown:
        rep.inconcl("R-TABLE-LEN", site, unknown)
    else:
        rep.ok("R-TABLE-LEN", site, "one leading divided difference per abscissa, in order, on every path (tables of 2..6 points)", obligation=True)
        rep.floor("table sizes executed for the Newton coefficient table", n_ok, 5)


def time_axis(repo, rep):
    """R-TIMEAXIS: the conjunction helpers tabulate the coordinate differences against n = -k..k with the middle entry of
    the table actually used at n = 0 (an even-sized table loses its last entry).  The functions look at the table only
    through its length, so they are evaluated - comprehensions unrolled, slices and parities folded - for every table size
    the property names (3..9 entries) and the abscissae / ordinates handed to Interpolation are read off the result."""
    from fractions import Fraction
    rep.rule("R-TIMEAXIS", "for every table size 3..9 the conjunction helpers hand Interpolation the abscissae -k..k (middle entry of the "
                           "used table at n = 0) and, at abscissa j-k, the difference of the j-th entries")
    n_inst = 0
    for q in ("planetary_conjunction", "planet_star_conjunction"):
        rep.fn("Coordinates", q)
        site = "Coordinates." + q
        fn = repo.func("Coordinates", q)
        nm = [a.arg for a in fn.args.args]
        lists = [n for n in nm if n.endswith("_list")]
        if not lists:
            rep.inconcl("R-TIMEAXIS", site, "no *_list parameter found")
            continue
        bad = None
        unknown = None
        for N in range(3, 10):
            at = {n: (("list",) + tuple(("angle", T.sym("%s#%d" % (n.upper(), j))) for j in range(N))) if n in lists else ("angle", T.sym(n.upper())) for n in nm}
            try:
                outs = [o for o in outcomes(repo, "Coordinates", q, arg_terms=at) if o.kind == "ret"]
            except AnalysisError as e:
                unknown = "N=%d: %s" % (N, e)
                break
            if len(outs) != 1 or outs[0].cond != ("bool", True):
                unknown = "N=%d: the result still depends on a condition (%d returning paths)" % (N, len(outs))
                break
            o = outs[0]
            ctors = []
            for x in T.walk(("bag", o.value) + tuple(v for v in o.env.values() if isinstance(v, tuple))):
                if x[0] == "call" and x[1] == "Interpolation.Interpolation" and x not in ctors:
                    ctors.append(x)
            v = o.value
            if not ctors and v[0] == "call" and v[1] == "Coordinates.planetary_conjunction" and q != "planetary_conjunction":
                # delegation: the table goes unchanged to planetary_conjunction (decided above), the other body is constant
                args = v[2:]
                same = len(args) == 4 and all(a_[0] in ("list", "tuple") and len(a_) - 1 == N for a_ in args)
                if same:
                    planet = [a_ for a_ in args if ("list",) + tuple(a_[1:]) in [at[n] for n in lists]]
                    star = [a_ for a_ in args if a_ not in planet]
                    same = len(planet) == len(lists) and all(len(set(a_[1:])) == 1 for a_ in star) \
                        and [("list",) + tuple(a_[1:]) for a_ in args[:2]] == [at[n] for n in lists][:2]
                if not same:
                    bad = (N, "delegates to planetary_conjunction with %s" % T.show(v)[:80], "the planet's tables unchanged and one constant table per star coordinate, all of %d entries" % N)
                    break
                n_inst += 1
                continue
            if len(ctors) < 2:
                unknown = "N=%d: fewer than two Interpolation tables are built" % N
                break
            M = N if N % 2 == 1 else N - 1
            k = (M - 1) // 2
            want = ("list",) + tuple(T.num(j - k) for j in range(M))
            for c in ctors:
                if len(c) != 4 or c[2][0] not in ("list", "tuple") or c[3][0] not in ("list", "tuple"):
                    unknown = "N=%d: Interpolation is not built from two literal tables: %s" % (N, T.show(c)[:80])
                    break
                xs, ys = c[2], c[3]
                if ("list",) + tuple(xs[1:]) != want:
                    bad = (N, "abscissae %s" % T.show(xs)[:60], "expected %s (the middle entry of the %d entries used must be n = 0)" % (T.show(want)[:60], M))
                    break
                if len(ys) != len(xs):
                    bad = (N, "%d ordinates for %d abscissae" % (len(ys) - 1, len(xs) - 1), "one difference per abscissa")
                    break
                for j, y in enumerate(ys[1:]):
                    idxs = {s_[1].split("#")[1] for s_ in T.walk(y) if s_[0] == "sym" and "#" in s_[1]}
                    if idxs != {str(j)}:
                        bad = (N, "ordinate %d is built from entries %s" % (j, sorted(idxs)), "the difference of the entries number %d" % j)
                        break
                if bad:
                    break
            if bad or unknown:
                break
            n_inst += 1
        if unknown:
            rep.inconcl("R-TIMEAXIS", site, unknown)
        elif bad:
            rep.violation("R-TIMEAXIS", site, "time-axis:N=%d" % bad[0], "with %d entries: %s; %s - the returned time is shifted against the documented middle epoch"
                          % bad, construct="N=%d" % bad[0], obligation=True)
        else:
            rep.ok("R-TIMEAXIS", site, "tables of 3..9 entries: abscissae -k..k centred on the middle used entry, ordinate j from the j-th entries", obligation=True)
    rep.floor("table sizes evaluated for the conjunction helpers", n_inst, 7)


def clamp(repo, rep):
    q = CLS + ".root"
    rep.fn(MOD, q)
    fn = repo.func(MOD, q)
    names = [a.arg for a in fn.args.args]       # self, xl, xh, max_iter
    outs = outcomes(repo, MOD, q, arg_terms={names[1]: T.sym("XL"), names[2]: T.sym("XH")})
    site = "%s.%s" % (MOD, q)
    calls = set()
    for o in outs:
        for x in T.walk(("bag", o.cond, o.value) if o.value is not None else o.cond):
            if x[0] == "call" and x[1] == "%s.%s.__call__" % (MOD, CLS):
                calls.add(x)
    pre_loop = [c for c in calls if not any(y[0] in ("lv",) for y in T.walk(c))]
    # the two evaluations at the limits: arguments that are not the midpoint
    limit_calls = [c for c in pre_loop if not (c[3][0] == "mul")]
    lows = [c for c in limit_calls if at_least(c[3], XMIN)]
    highs = [c for c in limit_calls if at_most(c[3], XMAX)]
    rep.floor("interpolant evaluations at the limits in root()", len(limit_calls), 2)
    both = [c for c in limit_calls if at_least(c[3], XMIN) and at_most(c[3], XMAX)]
    # each limit must be within the table: lower limit >= min is needed for the smaller one, upper <= max for the larger
    if not lows:
        rep.violation("R-CLAMP", site, "lower-clamp", "no limit handed to the interpolant is clamped to the table minimum (if xl < x[0]: xl = x[0])")
    else:
        rep.ok("R-CLAMP", site + ":lower", "lower limit >= table minimum at the interpolant call: " + T.show(lows[0][3])[:100])
    if not highs:
        bad = [c for c in limit_calls if c not in lows]
        shown = T.show(bad[0][3])[:140] if bad else ""
        rep.violation("R-CLAMP", site, "upper-clamp",
                      "the upper limit handed to the interpolant is not clamped to the table maximum on the correct side "
                      "(needs `if xh > x[-1]: xh = x[-1]`); as written an upper limit inside the table is replaced by the table maximum "
                      "and one beyond it is passed through: " + shown)
    else:
        rep.ok("R-CLAMP", site + ":upper", "upper limit <= table maximum at the interpolant call: " + T.show(highs[0][3])[:100])
    # D2 bracket invariant: find the loop and the Newton candidate
    loops = set()
    for o in outs:
        for x in T.walk(("bag", o.cond, o.value) if o.value is not None else o.cond):
            if x[0] == "loop":
                loops.add(x)
    loops = [l for l in loops if l[2][0] == "while"]
    if len(loops) != 1:
        rep.violation("R-CLAMP", site, "loop-shape", "expected one iteration loop in root(), found %d" % len(loops))
        return
    loop = loops[0]
    body = dict(loop[4])
    lid = loop[1]
    xvars = [k for k, v in loop[4] if any(y[0] == "call" and y[1] == "%s.%s.derivative" % (MOD, CLS) for y in T.walk(v))]
    # the iterate: variable whose new value contains  lv(x) - lv(y)/derivative(lv(x))
    newton = None
    for k, v in loop[4]:
        for y in T.walk(v):
            if y[0] == "add" and ("lv", lid, k) in y[1:] and any(z[0] == "mul" and any(w[0] == "pow" for w in z[1:]) for z in y[1:]):
                ders = [w for w in T.walk(y) if w[0] == "call" and w[1].endswith(".derivative")]
                if ders:
                    newton = (k, y, v)
    if newton is None:
        rep.violation("R-CLAMP", site, "newton-shape", "Newton step x - y/y' not found in the iteration")
        return
    k, step, newv = newton
    # on every path on which the new iterate IS the Newton step, the path condition bounds the step on both sides by the
    # loop-carried bracket (conditions may be spread over several tests and flags: they are expanded to DNF)
    from ..rules import formula_dnf
    from .c10 import phi_leaves
    ok = False
    detail = "the Newton iterate is accepted without any range test"
    paths = [conds for conds, leaf in phi_leaves(newv) if leaf == step]
    verdicts = []
    for conds in paths:
        f = T.land(*conds) if conds else ("bool", True)
        dnf = formula_dnf(f)
        if dnf is None:
            verdicts.append("?")
            continue
        for conj in dnf:
            others = []
            for atom, pol in conj:
                if atom[0] == "cmp" and step in (atom[2], atom[3]):
                    others.append(atom[3] if atom[2] == step else atom[2])
            bracket = [t for t in others if t[0] == "lv"]
            table = [t for t in others if t in (XMIN, XMAX)]
            if len(bracket) >= 2 and not table:
                verdicts.append("ok")
            elif table:
                verdicts.append("table")
                detail = ("the Newton iterate x - y/y' is tested against the table limits (%s), not the current bracket [xl, xh]: "
                          "a step that leaves the bracket but stays inside the table is accepted and the returned root can lie outside the interval asked for"
                          % ", ".join(sorted({T.show(t) for t in table})))
            else:
                verdicts.append("none")
    ok = bool(verdicts) and all(v == "ok" for v in verdicts)
    if ok:
        rep.ok("R-CLAMP", site + ":bracket", "accepted Newton iterate is tested against the loop-carried bracket; midpoint and regula-falsi candidates lie inside a sign-changing bracket")
    else:
        rep.violation("R-CLAMP", site, "bracket-invariant", detail)
    # minmax delegates to root of the derivative table with the caller's limits
    q2 = CLS + ".minmax"
    rep.fn(MOD, q2)
    fn2 = repo.func(MOD, q2)
    n2 = [a.arg for a in fn2.args.args]
    t = ret_term(repo, MOD, q2, arg_terms={n2[1]: T.sym("XL"), n2[2]: T.sym("XH"), n2[3]: T.sym("IT")})
    ok = t[0] == "call" and t[1] == ".root" and t[3:] == (T.sym("XL"), T.sym("XH"), T.sym("IT")) and \
        any(y[0] == "call" and y[1].endswith("Interpolation") for y in T.walk(t[2])) and \
        any(y[0] == "call" and y[1].endswith(".derivative") for y in T.walk(t[2]))
    if ok:
        rep.ok("R-CLAMP", "%s.%s" % (MOD, q2), "returns Interpolation(x, [derivative(xi)]).root(xl, xh, max_iter) with the caller's limits")
    else:
        rep.violation("R-CLAMP", "%s.%s" % (MOD, q2), "minmax-delegation", "minmax() does not delegate to root(xl, xh, max_iter) of the derivative table: " + T.show(t)[:120])


def refusals(repo, rep):
    """refusals decided on the path conditions of the symbolic evaluation (helpers split off from the methods are inlined)"""
    from ..rules import formula_dnf, assume
    rep.rule("R-RANGE-REFUSE", "a dominating test with the stated bounds reaches raise ValueError")
    X = T.sym("NUM_X")
    for q in ("__call__", "derivative"):
        qual = "%s.%s" % (CLS, q)
        rep.fn(MOD, qual)
        fn = repo.func(MOD, qual)
        xname = fn.args.args[1].arg
        outs = outcomes(repo, MOD, qual, arg_terms={"self": T.sym("self"), xname: X})
        lows = highs = False
        for o in outs:
            if o.kind != "raise" or o.value != ("str", "ValueError"):
                continue
            for conj in (formula_dnf(o.cond) or []):
                for a, pol in conj:
                    if pol and a[0] == "cmp" and a[2] == X and a[3][0] == "idx":
                        if a[1] == "Lt" and a[3][2] == T.ZERO:
                            lows = True
                        if a[1] == "Gt" and a[3][2] == T.num(-1):
                            highs = True
        site = "%s.%s" % (MOD, qual)
        if lows and highs:
            rep.ok("R-RANGE-REFUSE", site, "x < x[0] or x > x[-1] -> ValueError")
        else:
            rep.violation("R-RANGE-REFUSE", site, "outside-table", "abscissae outside the table are not refused with ValueError (x < x[0] or x > x[-1])")
    # duplicates: set() is executed on literal abscissa lists with one duplicated value at every pair of positions (n = 2..4);
    # the differences are touched only through |x_i - x_k| < tol, decided for 0 < tol < 1: every such table must be refused
    qual = CLS + ".set"
    fn = repo.func(MOD, qual)
    rep.fn(MOD, qual)
    site = "%s.%s" % (MOD, qual)

    def decide(c):
        if c[0] == "cmp" and c[1] in ("Lt", "LtE") and c[2][0] == "num" and c[3][0] != "num":
            return c[2][1] == 0 if c[1] == "Lt" else c[2][1] == 0
        return None
    va = fn.args.vararg.arg if fn.args.vararg else None
    bad = None
    n_cases = 0
    if va is None:
        rep.inconcl("R-RANGE-REFUSE", site, "set() signature not understood")
        return
    for n, i, k, dup in [(n, i, k, dup) for n in (2, 3, 4) for i in range(n) for k in range(i + 1, n) for dup in (None, 0, -5)]:
        if True:
            if True:
                # the duplicated value itself: positive, zero, negative (a test scaled by the magnitude of the values dies at zero)
                xs = [T.num(10 * (j + 1)) for j in range(n)]
                xs[k] = xs[i]
                if dup is not None:
                    xs[i] = xs[k] = T.num(dup)
                args = ("tuple", ("list",) + tuple(xs), ("list",) + tuple(T.sym("Y%d" % j) for j in range(n)))
                try:
                    outs, _ = symx.eval_function(repo, MOD, qual, arg_terms={"self": T.sym("self"), va: args}, unroll=8)
                except AnalysisError as e:
                    rep.inconcl("R-RANGE-REFUSE", site, "set() not executable symbolically: %s" % e)
                    return
                n_cases += 1
                refused = False
                survives = False
                for o in outs:
                    c = symx.fold_bool(assume(o.cond, decide))
                    if c == ("bool", False):
                        continue
                    if o.kind == "raise" and o.value == ("str", "ValueError") and c == ("bool", True):
                        refused = True
                    elif o.kind in ("fall", "ret") and c == ("bool", True):
                        survives = True
                if (not refused or survives) and bad is None:
                    bad = (n, i, k, "the value %s" % (dup if dup is not None else 10 * (i + 1)))
    if bad is None:
        rep.ok("R-RANGE-REFUSE", site, "a duplicated abscissa (positive, zero or negative) is refused with ValueError at every pair of positions (%d tables of 2..4 points)" % n_cases)
    else:
        rep.violation("R-RANGE-REFUSE", site, "duplicates", "a table of %d points whose abscissae %d and %d coincide (at %s) is not refused with ValueError" % bad)


def find_dup_check(fn, helpers=()):
    """index of the top-level statement of set() that performs the pairwise duplicate test (a nested loop reaching
    raise ValueError), directly or through a helper split off from set()"""
    def is_dup_loop(s):
        loops = [n for n in ast.walk(s) if isinstance(n, ast.For)]
        raises_ = [n for n in ast.walk(s) if isinstance(n, ast.Raise) and exc_name(n) == "ValueError"]
        tests = [n for n in ast.walk(s) if isinstance(n, ast.If) and "abs(" in norm_text(n.test) and "<" in norm_text(n.test)]
        pairwise = len(loops) >= 2 or any(isinstance(l.iter, ast.Call) and norm_text(l.iter.func).split(".")[-1] == "combinations" for l in loops)
        return pairwise and bool(raises_) and bool(tests)
    for i, s in enumerate(fn.body):
        if isinstance(s, ast.For) and is_dup_loop(s):
            return i
        if isinstance(s, ast.Expr) and isinstance(s.value, ast.Call):
            nm = s.value.func.attr if isinstance(s.value.func, ast.Attribute) else s.value.func.id if isinstance(s.value.func, ast.Name) else None
            for h in helpers:
                if h.name == nm and any(isinstance(b, ast.For) and is_dup_loop(b) for b in h.body):
                    return i
    return None


def order(repo, rep):
    rep.rule("R-ORDER", "every path to the table computation passes the duplicate check and the ordering, in that order")
    qual = CLS + ".set"
    fn = repo.func(MOD, qual)
    body = fn.body
    from ..rules import with_new_helpers
    i_dup = find_dup_check(fn, with_new_helpers(repo, MOD, fn)[1:])
    i_ord = i_tab = None
    for i, s in enumerate(body):
        if isinstance(s, ast.Expr) and isinstance(s.value, ast.Call) and norm_text(s.value.func) == "self._order_points":
            i_ord = i
        if any(isinstance(n, ast.Call) and norm_text(n.func) == "self._compute_table" for n in ast.walk(s)):
            i_tab = i
    nested_tab = [n for n in ast.walk(fn) if isinstance(n, ast.Call) and norm_text(n.func) == "self._compute_table"]
    site = "%s.%s" % (MOD, qual)
    if i_dup is None or i_ord is None or i_tab is None or len(nested_tab) != 1:
        # a step is not written in a form this rule recognises: no evidence either way (that duplicated abscissae are refused is decided by
        # R-RANGE-REFUSE on the evaluated constructor, that the stored table is sorted by R-ORDERINGS)
        rep.inconcl("R-ORDER", site, "steps not recognised as top-level statements of set(): duplicate check (%s), _order_points (%s), _compute_table (%s, %d call(s))"
                    % (i_dup, i_ord, i_tab, len(nested_tab)))
    elif not (i_dup < i_ord < i_tab):
        rep.violation("R-ORDER", site, "order", "duplicate check (%s), _order_points (%s) and _compute_table (%s) are not top-level statements in that order"
                      % (i_dup, i_ord, i_tab))
    else:
        rep.ok("R-ORDER", site, "duplicate check -> _order_points() -> _compute_table() as consecutive top-level steps; earlier returns leave before any table is built")
    # _order_points works on copies and rebinds the fields
    q2 = CLS + "._order_points"
    rep.fn(MOD, q2)
    fn2 = repo.func(MOD, q2)
    needs, nsites = fresh_requirements(fn2, {})
    if needs:
        rep.violation("R-ORDER", "%s.%s" % (MOD, q2), "order-in-place", "ordering mutates %s in place" % sorted(needs))
    else:
        rep.ok("R-ORDER", "%s.%s" % (MOD, q2), "ordering works on copies and rebinds the fields")


def sorts_every_ordering(repo, rep):
    """R-ORDERINGS: _order_points touches the abscissae only through comparisons (min/max/index/<) and a 'greater than all'
    sentinel, so its behaviour on n points is determined by their ordering.  It is executed (loops unrolled) on a literal
    table of n = 2..5 points for every one of the n! orderings, one representative per ordering, ordinates symbolic:
    the stored abscissae must come out ascending and the ordinates permuted along with them."""
    import itertools
    rep.rule("R-ORDERINGS", "the routine is decided on every ordering class of its inputs (values touched only through comparisons)")
    q = CLS + "._order_points"
    site = "%s.%s" % (MOD, q)
    n_ok = n_all = 0
    bad = None
    for n in (2, 3, 4, 5):
        for perm in itertools.permutations(range(n)):
            X = ("list",) + tuple(T.num(10 * (r + 1)) for r in perm)
            Y = ("list",) + tuple(T.sym("Y%d" % i) for i in range(n))
            try:
                outs, _ = symx.eval_function(repo, MOD, q, arg_terms={"self": T.sym("self")}, extra_env={"self._x": X, "self._y": Y}, unroll=8)
            except AnalysisError as e:
                rep.inconcl("R-ORDERINGS", site, "ordering not executable symbolically: %s" % e)
                return
            order_ = sorted(range(n), key=lambda i: perm[i])
            want_x = ("list",) + tuple(sorted(X[1:], key=lambda t: t[1]))
            want_y = ("list",) + tuple(Y[1:][i] for i in order_)
            n_all += 1
            for o in outs:
                if o.kind == "raise":
                    continue
                xs, ys = o.env.get("self._x"), o.env.get("self._y")
                if xs is None or ys is None or xs[0] not in ("list", "tuple") or any(e[0] != "num" for e in xs[1:]):
                    rep.inconcl("R-ORDERINGS", site, "stored table not resolved to a literal list for ordering %s" % (perm,))
                    return
                if tuple(xs[1:]) == tuple(want_x[1:]) and tuple(ys[1:]) == tuple(want_y[1:]):
                    n_ok += 1
                elif bad is None:
                    bad = (perm, [int(e[1]) // 10 for e in xs[1:]], tuple(xs[1:]) == tuple(want_x[1:]))
    rep.floor("orderings of 2..5 points decided for _order_points", n_all, 152)
    if bad is None:
        rep.ok("R-ORDERINGS", site, "ascending abscissae with ordinates carried along on all %d orderings of 2..5 points" % n_ok, obligation=True)
    else:
        perm, got, xs_ok = bad
        rep.violation("R-ORDERINGS", site, "unsorted:%s" % (",".join(str(r + 1) for r in perm)),
                      "points supplied with abscissae ranked %s are stored as %s%s: the table is not in ascending order, so range checks, "
                      "root() and minmax() use wrong limits and the result depends on the order of the points"
                      % ([r + 1 for r in perm], got, "" if not xs_ok else " with the ordinates not carried along"), obligation=True)


def r_freshcopy_local(repo, rep):
    class Sub:
        pass
    before = len(rep.findings)
    r_freshcopy(repo, rep)
    # keep only Interpolation findings in this property
    rep.findings = rep.findings[:before] + [f for f in rep.findings[before:] if f.site.startswith("Interpolation.")]


def clients(repo, rep):
    rep.rule("R-CLIENT", "clients call root()/minmax() without limits (the whole table) on Interpolation objects they constructed")
    n = 0
    for mn, q, fn in repo.all_functions(include_demo=False, include_nested=False):
        if mn == MOD:
            continue
        made = set()
        for node in ast.walk(fn):
            if isinstance(node, ast.Assign) and isinstance(node.value, ast.Call) and isinstance(node.value.func, ast.Name) \
                    and node.value.func.id == "Interpolation":
                for t in node.targets:
                    if isinstance(t, ast.Name):
                        made.add(t.id)
        for node in ast.walk(fn):
            if isinstance(node, ast.Call) and isinstance(node.func, ast.Attribute) and node.func.attr in ("root", "minmax") \
                    and isinstance(node.func.value, ast.Name) and node.func.value.id in made:
                n += 1
                site = "%s.%s" % (mn, q)
                if node.args or node.keywords:
                    rep.violation("R-CLIENT", site, "limits:" + norm_text(node)[:40], "calls %s with explicit limits" % norm_text(node)[:60])
                else:
                    rep.ok("R-CLIENT", site, norm_text(node), sample=(n <= 2))
                rep.fn(mn, q)
    rep.floor("client root()/minmax() call sites", n, 3)


def raises(repo, rep, fam):
    rep.rule("R-RAISE", "only TypeError / ValueError are raised")
    for mn, q in fam:
        fn = repo.func(mn, q)
        for node in ast.walk(fn):
            if isinstance(node, ast.Raise) and node.exc is not None and exc_name(node) not in ("TypeError", "ValueError"):
                rep.violation("R-RAISE", "%s.%s" % (mn, q), "raise:" + exc_name(node), "raises %s" % exc_name(node))
