"""C13 planetary event finders return real events, in order, none skipped.

Decided: D1 the 28 conjunction/opposition/elongation/station finders refuse epochs
outside -2000..4000 with ValueError before computing anything; D2 the four prologue
constants of every finder (reference epoch a, period b, anomaly m0, anomaly step m1)
agree with the library's own orbital-element tables: b = synodic period, m1 = b x
Earth's anomalistic rate, mean longitudes coincide / oppose at JDE a, m0 = Earth's
mean anomaly at a - with tolerances derived from the property's 1 d / 2 d accuracy;
D3 the prologue has the common skeleton k = round((365.2425 y + 1721060 - a)/b),
jde0 = a + k b, m = m0 + k m1, t = (jde0 - 2451545)/36525; D4 perihelion/aphelion
finders: anomalistic period, reference epoch, year offset and k-factor agree with the
element tables, perihelion uses round(k), aphelion round(k+0.5)-0.5, a symmetric
three-point table is handed to minmax(); passage_nodes are seven identical bodies."""
import math
from .c11 import node_passage_elliptic
from fractions import Fraction

from .. import symx, terms as T
from ..frontend import AnalysisError
from ..poly import Algebra, Poly
from ..rules import ret_term, find_calls, outcomes, refusal_check, cmp_is, timearg_scan
from .. import units, guards, effects

MANIFEST = {
    "level": "other",
    "technique": "static analysis: symbolic evaluation of each finder to a term, structural extraction of its prologue constants, audit of those constants against the orbital-element tables with three-valued tolerances (PROVED/REFUTED/INCONCLUSIVE) derived from the property's accuracy, path rule for the range refusal, sibling comparison; the Angle / Epoch operator semantics the evaluator assumes are verified (operator conformance, operands never written)",
    "text": "All 28 periodic-term finders and 7 perihelion finders are decided at the level of their selection constants: spacing (period), phase (reference epoch), and the anomaly bookkeeping are tied to the library's own mean elements, which is what makes consecutive results one period apart with none skipped; the -2000..4000 refusal is decided on every path. That the returned instant is an event of the VSOP87 theory depends on the periodic correction series evaluated at runtime and is not decided. No finder swallows the refusal of the routine it refines with: a handler around minmax() / root() that substitutes the unrefined estimate is reported (R-SWALLOW).",
    "note": "Trusted: ORBITAL_ELEM tables as the library's mean elements (audited against the VSOP87 series by C07); 365.2425 / 1721060 as the year->JD map of the prologue. Undecided: correctness of the periodic correction coefficients (corr series), monotonicity and spacing within natural variation, node passages as events of the theory.",
}

FINDERS = {
    "Mercury": ["inferior_conjunction", "superior_conjunction", "western_elongation", "eastern_elongation", "station_longitude_1", "station_longitude_2"],
    "Venus": ["inferior_conjunction", "superior_conjunction", "western_elongation", "eastern_elongation", "station_longitude_1", "station_longitude_2"],
    "Mars": ["conjunction", "opposition", "station_longitude_1", "station_longitude_2"],
    "Jupiter": ["conjunction", "opposition", "station_longitude_1", "station_longitude_2"],
    "Saturn": ["conjunction", "opposition", "station_longitude_1", "station_longitude_2"],
    "Uranus": ["conjunction", "opposition"],
    "Neptune": ["conjunction", "opposition"],
}
PERI = ["Mercury", "Venus", "Earth", "Mars", "Jupiter", "Saturn", "Uranus"]
TOL_D = {"Mercury": 1.0, "Venus": 1.0, "Earth": 1.0, "Mars": 1.0, "Jupiter": 2.0, "Saturn": 2.0, "Uranus": 2.0, "Neptune": 2.0}
PHASE = {"inferior_conjunction": 0.0, "opposition": 0.0, "superior_conjunction": 180.0, "conjunction": 180.0}
DOMAIN_DAYS = 4000 * 365.25      # furthest query from the reference epochs (years -2000 .. 4000)
PROVE_D = 0.25


def elem(tab, row, tc):
    c = tab[row]
    return c[0] + tc * (c[1] + tc * (c[2] + tc * c[3]))


def verdict(rep, rule, site, key, err_days, tol_days, what, lower=None):
    """three-valued: PROVED if the induced time error bound <= 0.25 d, REFUTED if the
    (lower bound of the) induced error >= the property's tolerance, else INCONCLUSIVE."""
    lo = err_days if lower is None else lower
    if err_days <= PROVE_D:
        rep.ok(rule, site, "%s: induced time error <= %.3g d: PROVED" % (what, err_days), obligation=True, sample=site.endswith("inferior_conjunction"))
    elif lo >= tol_days:
        rep.violation(rule, site, key, "%s: induced time error %.3g d >= %.1f d over the domain: REFUTED" % (what, lo, tol_days), obligation=True)
    else:
        rep.inconcl(rule, site, "%s: induced time error bound %.3g d (between %.2f and %.1f)" % (what, err_days, PROVE_D, tol_days))


def extract(repo, p, q):
    fn = repo.func(p, "%s.%s" % (p, q))
    ename = fn.args.args[0].arg
    t = ret_term(repo, p, "%s.%s" % (p, q), arg_terms={ename: ("epoch", T.sym("E"))})
    R = t[1] if t[0] == "tuple" else t
    if R[0] != "epoch":
        raise AnalysisError("%s.%s does not return an Epoch" % (p, q))
    S = R[1]
    rounds = set(find_calls(S, "round"))
    if len(rounds) != 1:
        return None, "expected one period count k = round(...), found %d" % len(rounds)
    rc = rounds.pop()
    X = rc[2]
    Y = T.call("Epoch.Epoch.year", ("epoch", T.sym("E")))
    # X = c * (365.2425*Y + c0)
    c, rest = T.split_coeff(X)
    info = {"rc": rc, "S": S}
    if rest[0] != "add":
        return None, "period count is not of the form round((365.2425*y + 1721060 - a)/b)"
    ycoef = None
    c0 = Fraction(0)
    for s in rest[1:]:
        if s[0] == "num":
            c0 += s[1]
        else:
            cc, rr = T.split_coeff(s)
            if rr == Y:
                ycoef = cc
            else:
                return None, "unexpected term in the period count: " + T.show(s)[:60]
    if ycoef is None:
        return None, "period count does not depend on the fractional year of the query"
    info["b_k"] = 1 / c
    info["ycoef"] = ycoef
    info["a_k"] = Fraction(1721060) - c0
    pairs = []
    for x in T.walk(S):
        if x[0] == "add":
            nums = [s for s in x[1:] if s[0] == "num"]
            others = [s for s in x[1:] if s[0] != "num"]
            if len(others) == 1 and len(nums) == 1:
                cc, rr = T.split_coeff(others[0])
                if rr == rc:
                    pairs.append((nums[0][1], cc, x))
    pos_pairs = [pr for pr in pairs if any(y[0] == "call" and y[1] == "pos" and y[2] is pr[2] or (y[0] == "call" and y[1] == "pos" and y[2] == pr[2]) for y in T.walk(S))]
    t_pairs = [pr for pr in pairs if pr not in pos_pairs]
    if len(pos_pairs) != 1 or len(t_pairs) != 1:
        return None, "prologue skeleton not found (anomaly pairs %d, epoch pairs %d)" % (len(pos_pairs), len(t_pairs))
    info["m0"], info["m1"], info["mterm"] = pos_pairs[0]
    info["a_t"] = t_pairs[0][0] + 2451545
    info["b_t"] = t_pairs[0][1]
    info["tterm"] = t_pairs[0][2]
    # t = (jde0 - 2451545)/36525 exactly
    ok_t = any(x[0] == "mul" and x[1] == ("num", Fraction(1, 36525)) and t_pairs[0][2] in x[2:] for x in T.walk(S)) or \
        any(x[0] == "mul" and t_pairs[0][2] in x[1:] for x in T.walk(S))
    info["t_ok"] = ok_t
    # coefficient of k in the returned JDE
    parts = S[1:] if S[0] == "add" else (S,)
    bj = None
    for s in parts:
        cc, rr = T.split_coeff(s)
        if rr == rc:
            bj = cc
    info["b_j"] = bj
    return info, None


def sensitivity(info):
    """(D, A1): bound of |d result / d m| (days per radian) over the domain, and the
    amplitude of the first harmonic."""
    S = info["S"]
    pos = [y for y in T.walk(S) if y[0] == "call" and y[1] == "pos" and y[2] == info["mterm"]]
    mp = {pos[0]: T.sym("Mdeg")} if pos else {}
    tt = None
    for x in T.walk(S):
        if x[0] == "mul" and info["tterm"] in x[1:]:
            c, rest = T.split_coeff(x)
            if rest == info["tterm"]:
                tt = x
    S2 = T.subst(S, mp)
    alg = Algebra(atomize=True)
    r = alg.rat(S2)
    if not r.d.is_const():
        return None
    n = r.n.scale(1 / r.d.const_value())
    D = 0.0
    cs = cc = 0.0
    for m, c in n.t.items():
        deg = 0
        other_pow = 0
        first = None
        for a, e in m:
            if a[0] in ("S", "C") and "Mdeg" in repr(a[1]):
                deg += e
                first = a[0]
            elif a[0] == "V":
                other_pow += e
        if deg == 0:
            continue
        scale = 1.0
        # any polynomial time factor is bounded with |t| <= 40 centuries; the numeric
        # coefficient already contains 1/36525 per power, so bound via |jde0 - J2000| <= 1.5e6
        D += abs(float(c)) * deg * (1.5e6 ** other_pow if other_pow else 1.0)
        if deg == 1 and other_pow == 0 and len(m) == 1:
            if first == "S":
                cs += float(c)
            else:
                cc += float(c)
    return D, math.hypot(cs, cc)


def run(repo, rep, tier):
    rep.decided = ["D1 refusal outside -2000..4000 (28 finders)", "D2 prologue constants agree with the orbital-element tables",
                   "D3 common prologue skeleton", "D4 perihelion/aphelion constants and selection; passage_nodes identical"]
    rep.undecided = ["returned instant is an event of the VSOP87 theory (depends on the corr series)", "monotonicity (decided only as far as the fractional year the period count is taken from)",
                     "spacing within natural variation", "accuracy of node passages"]
    rep.assumptions = ["ORBITAL_ELEM tables are the library's mean elements (tied to the series by C07)"]
    rep.rule("R-RANGE-REFUSE", "a dominating test with the property-stated bounds leads to raise ValueError; no value is returned on a path that skips it")
    rep.rule("R-TABLE-REL", "constant vs value derived from the element tables; tolerance = induced time error (0.25 d prove, 1/2 d refute)")
    rep.rule("R-SIB", "clone family members share the skeleton / constants that must be common")
    E = repo.mod("Earth").literal("ORBITAL_ELEM")
    anom_rate = (E[0][1] - E[5][1]) / 36525.0
    n_f = 0
    for p, qs in FINDERS.items():
        oe = repo.mod(p).literal("ORBITAL_ELEM")
        syn = 360.0 * 36525.0 / abs(oe[0][1] - E[0][1])
        kmax = DOMAIN_DAYS / syn
        sets_b, sets_m1, sets_am = set(), set(), set()
        for q in qs:
            site = "%s.%s.%s" % (p, p, q)
            rep.fn(p, "%s.%s" % (p, q))
            n_f += 1
            # D1
            fn = repo.func(p, "%s.%s" % (p, q))
            ename = fn.args.args[0].arg
            outs = outcomes(repo, p, "%s.%s" % (p, q), arg_terms={ename: ("epoch", T.sym("E"))})
            isyear = lambda t: t == T.call("Epoch.Epoch.year", ("epoch", T.sym("E")))
            ok, msg = refusal_check(outs, "ValueError", [cmp_is("Lt", isyear, -2000), cmp_is("Gt", isyear, 4000)], "year < -2000 or year > 4000")
            if ok:
                rep.ok("R-RANGE-REFUSE", site, msg, sample=(n_f <= 2))
            else:
                rep.violation("R-RANGE-REFUSE", site, "range-2000-4000", msg)
            info, err = extract(repo, p, q)
            if info is None:
                if "found 0" in err or "pairs 0" in err:
                    # the prologue is not written in a form this rule reads (moved into a helper object, other normalisation of the anomaly):
                    # no evidence either way; the table-relation rules below still examine whatever constants are found
                    rep.inconcl("R-SIB", site, "prologue skeleton not read: " + err)
                else:
                    rep.violation("R-SIB", site, "prologue-skeleton", err)
                continue
            # D3 skeleton consistency
            probs = []
            if info["ycoef"] != Fraction("365.2425"):
                probs.append("year length %s instead of 365.2425" % float(info["ycoef"]))
            if info["b_k"] != info["b_t"] or info["b_j"] != info["b_t"]:
                probs.append("period differs between k (%s), jde0 in t (%s) and the result (%s)"
                             % (float(info["b_k"]), float(info["b_t"]), None if info["b_j"] is None else float(info["b_j"])))
            if info["a_k"] != info["a_t"]:
                probs.append("reference epoch differs between k (%s, assuming the 1721060 year origin) and jde0 (%s)" % (float(info["a_k"]), float(info["a_t"])))
            if probs:
                rep.violation("R-SIB", site, "prologue-inconsistent", "; ".join(probs))
            else:
                rep.ok("R-SIB", site, "k = round((365.2425*y + 1721060 - a)/b), jde0 = a + k*b, m = m0 + k*m1, t = (jde0 - J2000)/36525 with one (a, b)", sample=(n_f <= 1))
            a, b, m0, m1 = float(info["a_t"]), float(info["b_t"]), float(info["m0"]), float(info["m1"])
            sets_b.add(info["b_t"]); sets_m1.add(info["m1"]); sets_am.add((info["a_t"], info["m0"]))
            tol = TOL_D[p]
            sens = sensitivity(info)
            # b
            verdict(rep, "R-TABLE-REL", site + ":b", "period", kmax * abs(b - syn), tol,
                    "b = %.6f vs synodic period %.6f from ORBITAL_ELEM (|d| = %.1e d, x %d periods)" % (b, syn, abs(b - syn), kmax))
            # a
            tc = (a - 2451545.0) / 36525.0
            dl = (elem(oe, 0, tc) - elem(E, 0, tc)) % 360.0
            if q in PHASE:
                off = (dl - PHASE[q] + 180.0) % 360.0 - 180.0
                want = "%g" % PHASE[q]
            else:
                off = min(((dl - ph + 180.0) % 360.0 - 180.0 for ph in (0.0, 180.0)), key=abs)
                want = "0 or 180"
            verdict(rep, "R-TABLE-REL", site + ":a", "epoch", abs(off) * syn / 360.0, tol,
                    "at JDE a = %.3f the mean longitudes differ by %.4f deg (wanted %s): offset %.4f deg" % (a, dl, want, off))
            # m0
            ma = (elem(E, 0, tc) - elem(E, 5, tc)) % 360.0
            dm0 = (m0 - ma + 180.0) % 360.0 - 180.0
            dm1 = (m1 - b * anom_rate + 180.0) % 360.0 - 180.0
            if sens is None:
                rep.inconcl("R-TABLE-REL", site + ":m0", "sensitivity of the correction series could not be extracted")
            else:
                D, A1 = sens
                r0 = math.radians(abs(dm0))
                verdict(rep, "R-TABLE-REL", site + ":m0", "anomaly0", D * r0, tol,
                        "m0 = %.4f vs Earth's mean anomaly at a %.4f (d = %.5f deg; |d result/d m| <= %.1f d/rad)" % (m0, ma, dm0, D),
                        lower=(A1 * min(r0, 1.0) if A1 >= 0.5 * D else 0.0))
                r1 = math.radians(abs(dm1)) * kmax
                verdict(rep, "R-TABLE-REL", site + ":m1", "anomaly-step", D * r1, tol,
                        "m1 = %.6f vs b x Earth anomalistic rate %.6f (d = %.1e deg, x %d periods)" % (m1, (b * anom_rate) % 360.0, dm1, kmax),
                        lower=(A1 * min(r1, 1.0) if A1 >= 0.5 * D else 0.0))
        if len(sets_b) > 1 or len(sets_m1) > 1:
            rep.violation("R-SIB", "%s finders" % p, "family-constants", "finders of one planet use different periods %s / anomaly steps %s"
                          % (sorted(map(float, sets_b)), sorted(map(float, sets_m1))))
        elif len(sets_am) > 2:
            rep.violation("R-SIB", "%s finders" % p, "family-epochs", "more than two (a, m0) reference sets: %s" % sorted((float(x), float(y)) for x, y in sets_am))
        else:
            rep.ok("R-SIB", "%s finders" % p, "one (b, m1), %d (a, m0) set(s) across %d finders" % (len(sets_am), len(qs)), sample=False)
    rep.floor("periodic-term finders", n_f, 28)
    perihelion(repo, rep)
    passage_nodes(repo, rep)
    # the seven bodies all hand their elements to Coordinates.passage_nodes_elliptic: its two-body relations, for both
    # values of the node flag, are what makes the returned instant a node passage (rule shared with C11)
    node_passage_elliptic(repo, rep)
    # every finder derives its period count k from Epoch.year(): a fractional year that passes the next integer inside a year, or
    # jumps at New Year, makes k (and with it the returned event) step backwards as the query advances
    from .c16 import year_fraction
    year_fraction(repo, rep)
    fam = [(p, "%s.%s" % (p, q)) for p, qs in FINDERS.items() for q in qs] + [(p, p + ".perihelion_aphelion") for p in PERI] + \
          [(p, p + ".passage_nodes") for p in PERI]
    timearg_scan(repo, rep, fam)
    units.check_functions(repo, rep, fam)
    guards.check_functions(repo, rep, fam)
    effects.check_functions(repo, rep, fam)
    # a finder must hand on the refusal of the routine it refines with (no substitute value when the interpolation finds no extremum / root)
    from .c20 import r_swallow
    r_swallow(repo, rep, mods={"Mercury", "Venus", "Earth", "Mars", "Jupiter", "Saturn", "Uranus", "Neptune"})
    # premise of the evaluator: Angle / Epoch operators mean what their names say and leave their operands alone
    from ..premises import operator_semantics
    operator_semantics(repo, rep)
    return "other"


def perihelion(repo, rep):
    n = 0
    for p in PERI:
        q = p + ".perihelion_aphelion"
        site = "%s.%s" % (p, q)
        rep.fn(p, q)
        fn = repo.func(p, q)
        names = [a.arg for a in fn.args.args]
        t = ret_term(repo, p, q, arg_terms={names[0]: ("epoch", T.sym("E")), names[1]: T.sym("PERI")})
        Y = T.call("Epoch.Epoch.year", ("epoch", T.sym("E")))
        # k = phi(PERI ? round(A) : round(A + 0.5) - 0.5)
        ks = [x for x in T.walk(t) if x[0] == "phi" and x[1] == T.sym("PERI") and find_calls(x[2], "round") and find_calls(x[3], "round")]
        ks = [x for x in ks if x[2][0] == "call" and x[2][1] == "round"]
        if not ks:
            # decided by partial evaluation when the selection is not written as `round(k) if perihelion else round(k + 0.5) - 0.5`:
            # with the flag bound to True / False the count must be round(A) and round(A + 1/2) - 1/2 of one and the same linear A
            try:
                tp = ret_term(repo, p, q, arg_terms={names[0]: ("epoch", T.sym("E")), names[1]: ("bool", True)})
                ta = ret_term(repo, p, q, arg_terms={names[0]: ("epoch", T.sym("E")), names[1]: ("bool", False)})
                rp = set(x[2] for x in T.walk(tp) if x[0] == "call" and x[1] == "round" and len(x) == 3)
                ra = set(x for x in T.walk(ta) if x[0] == "add" and any(y[0] == "call" and y[1] == "round" for y in x[1:])
                         and T.num(Fraction(-1, 2)) in x[1:] and len(x) == 3)
                okk = len(rp) == 1 and any(T.add(T.call("round", T.add(next(iter(rp)), T.num(Fraction(1, 2)))), T.num(Fraction(-1, 2))) == x for x in ra)
            except AnalysisError:
                okk = None
            if okk:
                rep.ok("R-SIB", site + ":k", "period count: round(A) for perihelion, round(A + 0.5) - 0.5 for aphelion (flag bound to True / False)")
                n += 1
            else:
                rep.inconcl("R-SIB", site, "selection of the period count not read (neither the conditional form nor its two partial evaluations)")
            continue
        K = ks[0]
        A = K[2][2]
        want_aph = T.add(T.call("round", T.add(A, T.num(Fraction(1, 2)))), T.num(Fraction(-1, 2)))
        if K[3] != want_aph:
            rep.violation("R-SIB", site, "k-selection", "aphelion count is not round(k + 0.5) - 0.5: " + T.show(K[3])[:100])
            continue
        c1, rest = T.split_coeff(A)
        y0 = None
        if rest[0] == "add":
            nums = [s for s in rest[1:] if s[0] == "num"]
            oth = [s for s in rest[1:] if s[0] != "num"]
            if len(nums) == 1 and oth == [Y]:
                y0 = -nums[0][1]
        if y0 is None:
            rep.violation("R-SIB", site, "k-form", "k is not factor * (year - y0): " + T.show(A)[:100])
            continue
        # the three-point table handed to Interpolation(...).minmax()
        t2 = T.subst(t, {K: T.sym("K")})
        lists = [x for x in T.walk(t2) if x[0] == "list" and len(x) == 4 and all(T.sym("K") in set(T.walk(e)) for e in x[1:])]
        if not lists:
            rep.violation("R-SIB", site, "table", "no three-point table [jde - h, jde, jde + h] is built")
            continue
        good = None
        algd = Algebra(atomize=True)
        for cand in lists:
            jb, j, ja = cand[1:]
            try:
                r1, r2 = algd.rat(T.sub(j, jb)), algd.rat(T.sub(ja, j))
            except Exception:
                continue
            if r1.n.is_const() and r2.n.is_const() and r1.d.is_const() and r2.d.is_const():
                v1, v2 = r1.n.const_value() / r1.d.const_value(), r2.n.const_value() / r2.d.const_value()
                if v1 == v2 and v1 > 0:
                    good = (jb, j, ja, ("num", v1))
                    break
        if good is None:
            rep.violation("R-SIB", site, "table", "no three-point table with abscissae symmetric around the mean event (jde - h, jde, jde + h)")
            continue
        jb, j, ja, h1 = good
        if not any(x[0] == "call" and x[1] == ".minmax" for x in T.walk(t2)):
            rep.violation("R-SIB", site, "minmax", "the table is not handed to Interpolation.minmax()")
            continue
        alg = Algebra(atomize=True)
        r = alg.rat(j)
        nn = r.n.scale(1 / r.d.const_value())
        coef = {0: 0.0, 1: 0.0, 2: 0.0}
        for m, c in nn.t.items():
            if all(a == ("V", "K") for a, e in m):
                d = sum(e for a, e in m)
                if d in coef:
                    coef[d] += float(c)
        J0, P, qd = coef[0], coef[1], coef[2]
        oe = repo.mod(p).literal("ORBITAL_ELEM")
        P_tab = 360.0 * 36525.0 / (oe[0][1] - oe[5][1])
        kmax = DOMAIN_DAYS / P_tab
        tol = TOL_D[p]
        n += 1
        # with a window of +-h days the mean estimate only has to land inside the window
        h = float(h1[1])
        verdict(rep, "R-TABLE-REL", site + ":P", "period", kmax * abs(P - P_tab), max(tol, h),
                "anomalistic period %.7f vs %.7f from ORBITAL_ELEM (|d| = %.1e d, x %d revolutions)" % (P, P_tab, abs(P - P_tab), kmax))
        tc = (J0 - 2451545.0) / 36525.0
        M = (elem(oe, 0, tc) - elem(oe, 5, tc)) % 360.0
        dM = (M + 180.0) % 360.0 - 180.0
        verdict(rep, "R-TABLE-REL", site + ":J0", "epoch", abs(dM) * P_tab / 360.0, max(tol, h),
                "mean anomaly at reference JDE %.3f is %.4f deg (perihelion needs 0)" % (J0, dM))
        y_of_J0 = 2000.0 + (J0 - 2451545.0) / 365.25
        kerr = abs(float(y0) - y_of_J0) * float(c1) + 4000.0 * abs(float(c1) - 365.25 / P_tab)
        site_k = site + ":k"
        if kerr <= 0.45:
            rep.ok("R-TABLE-REL", site_k, "k = %.5f*(year - %.2f): estimate of the revolution count off by at most %.3f over the domain (< 0.5)"
                   % (float(c1), float(y0), kerr), obligation=True, sample=(p == "Earth"))
        elif kerr >= 1.0:
            rep.violation("R-TABLE-REL", site_k, "k-estimate", "revolution count estimate is off by %.2f (>= 1) within the domain: a perihelion is skipped or repeated "
                          "(factor %.5f vs 365.25/P = %.5f, year offset %.2f vs %.2f)" % (kerr, float(c1), 365.25 / P_tab, float(y0), y_of_J0), obligation=True)
        else:
            rep.inconcl("R-TABLE-REL", site_k, "revolution count estimate error bound %.2f (between 0.45 and 1)" % kerr)
    rep.floor("perihelion finders", n, 7)


def passage_nodes(repo, rep):
    terms = {}
    for p in PERI:
        q = p + ".passage_nodes"
        rep.fn(p, q)
        fn = repo.func(p, q)
        names = [a.arg for a in fn.args.args]
        t = ret_term(repo, p, q, arg_terms={names[0]: ("epoch", T.sym("E")), names[1]: T.sym("ASC")})
        # replace the owning class name by a placeholder (and re-sort operands)
        pre = p + "." + p + "."
        norm = lambda x, pre=pre: T.renorm(x, lambda s_: "<PLANET>." + s_[len(pre):] if s_.startswith(pre) else s_)
        terms[p] = norm(t)
    ref = terms["Venus"]
    for p in PERI:
        if terms[p] == ref:
            rep.ok("R-SIB", "%s.%s.passage_nodes" % (p, p), "identical to the family body (elements of date -> perihelion -> passage_nodes_elliptic)", sample=(p == "Earth"))
        else:
            rep.violation("R-SIB", "%s.%s.passage_nodes" % (p, p), "differs", "body differs from its six siblings: " + T.show(terms[p])[:200])
