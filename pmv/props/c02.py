"""C02 instants survive JDE <-> date/time; input forms agree; Epoch arithmetic.

Decided: D1 Epoch operators compute what their names say on the stored JDE, return new
objects and leave operands alone (R-OPCONF, R-EFFECT, R-OWN); D2 every documented
input form funnels into the single date->JDE conversion with (year, month,
day + h/24 + min/1440 + s/86400) taken positionally from one validated 6-tuple, and the
day-fraction split of get_full_date uses the matching 24/60/60 bases; D3 the copy form
reads only the source's stored value."""
import ast
from fractions import Fraction

from .. import symx, terms as T
from ..frontend import AnalysisError, norm_text
from ..rules import outcomes, ret_term
from ..opconf import Conformance
from .. import effects, effect_engine, guards
from .c10 import phi_leaves

MANIFEST = {
    "level": "other",
    "technique": "static analysis: operator conformance by symbolic evaluation against the data-model meaning of each special method, must-pass-through / positional dataflow of the input forms of Epoch.set (partial evaluation per form, component-by-component comparison of what each form hands to the validator), structural check of the day-fraction split, exact execution (rational arithmetic) of the extracted JDE -> date/time fields term and of the date -> JDE term on boundary instants of every kind of civil day, effect analysis",
    "text": "All Epoch operators are shown to translate or compare the stored JDE exactly as named, with reflected and in-place forms agreeing and operands untouched; all input forms (numbers, tuple/list, date/datetime, copy, JDE) are shown to reach the one conversion routine with hours, minutes and seconds folded with the right divisors in the right positions, each form handing over its own components in calendar order (a datetime including its microseconds). The JDE -> fields -> JDE clause is decided in exact rational arithmetic by executing the extracted get_full_date term on instants 0, 1 ms, 1 s, 59.999 s, ... 23:59:59.999 after the start of civil days around every kind of boundary (month and year ends in both calendars, leap days, October 1582, the first days of the domain): the fields name that civil day, hour/minute/second are canonical and equal to the offset, feeding them back through the date -> JDE term returns the JDE exactly, and the field tuple increases with the JDE. What floating-point rounding adds on top of the exact recipe (the 1e-8 / 1e-9 tolerances, a second field of 59.99999...) is not decided.",
    "note": "Trusted: Python data model; DAY2HOURS/DAY2MIN/DAY2SEC literals are checked against 24/1440/86400. Undecided: floating-point tolerances of the round trips; instants off the executed grid.",
}
MOD, CLS = "Epoch", "Epoch"


# --------------------------------------------------------------------------------------------------------------------------
# R-FIELDS: JDE -> (y, m, d, h, mi, s) -> JDE by exact execution of the extracted terms on boundary instants
# --------------------------------------------------------------------------------------------------------------------------
FIELD_OFFSETS = ["0", "0.001", "1", "59.999", "60", "3599.999", "3600", "43199.999", "43200", "86340", "86399", "86399.999"]


def field_grid(repo, rep, tier):
    """R-FIELDS.  get_full_date is a rational recipe in the stored JDE (get_date's floors, then the 24/60/60 split).  Its extracted
    term is executed exactly on instants 0, 1 ms, 1 s, ... 23:59:59.999 after the start of civil days around every kind of
    boundary (month and year ends in both calendars, leap days, the October 1582 change-over, the first days of the domain):
    the date fields must be that civil day, hour/minute/second canonical and equal to the offset, the fields fed back through the
    date -> JDE term must return the JDE exactly, and the field tuple must increase with the JDE."""
    from ..rules import eval_exact, NotEvaluable, repo_prims
    from .c01 import _civil_days, _cycle_terms
    from .c16 import stdlib_prims
    rep.rule("R-FIELDS", "JDE -> (year, month, day, hour, minute, second) gives the civil day and the canonical time of day of the instant, "
                         "recombines to the JDE exactly and increases with the JDE, on boundary instants of every kind of civil day (exact execution)")
    site = "Epoch.Epoch.get_full_date"
    rep.fn(MOD, "Epoch.get_full_date")
    tj, tg, _ = _cycle_terms(repo.root)
    J = T.sym("NUM_J")
    Y, M, D = T.sym("NUM_Y"), T.sym("NUM_M"), T.sym("NUM_D")
    try:
        fn = repo.func(MOD, "Epoch.get_full_date")
        at = {"self": ("epoch", J)}
        if fn.args.kwarg is not None:
            at[fn.args.kwarg.arg] = ("dict", ())
        tf = ret_term(repo, MOD, "Epoch.get_full_date", arg_terms=at)
    except AnalysisError as e:
        rep.inconcl("R-FIELDS", site, "term not extractable: %s" % e)
        return
    gd = [x for x in T.walk(tf) if x[0] == "call" and x[1] == "Epoch.Epoch.get_date"]
    tf = T.subst(tf, {x: tg for x in set(gd)})
    prims = repo_prims(repo, stdlib_prims(repo))
    starts = [((-4712, 1, 1), 3), ((-4712, 2, 27), 4), ((-1, 12, 30), 4), ((0, 2, 27), 4), ((4, 2, 27), 4), ((100, 2, 27), 4), ((1500, 2, 27), 4),
              ((1582, 9, 29), 12), ((1582, 12, 30), 4), ((1583, 2, 27), 3), ((1600, 2, 27), 4), ((1700, 2, 27), 3), ((1899, 12, 30), 4),
              ((1900, 2, 27), 3), ((1999, 12, 30), 4), ((2000, 2, 27), 4), ((2023, 1, 30), 40), ((2024, 2, 27), 4), ((2100, 2, 27), 3), ((5999, 12, 29), 3)]
    if tier == "thorough":
        starts += [((1999, 1, 1), 800), ((1201, 1, 1), 800), ((-801, 1, 1), 800)]
    else:
        starts += [((2023, 12, 1), 100), ((1203, 12, 1), 100)]
    offs = [Fraction(o) for o in FIELD_OFFSETS]
    n = 0
    bad = {}
    for st, cnt in starts:
        prev = None
        for (y, m, d) in _civil_days(st, cnt):
            try:
                j0 = eval_exact(tj, {Y: Fraction(y), M: Fraction(m), D: Fraction(d), "$memo": {}}, prims)
            except NotEvaluable as e:
                rep.inconcl("R-FIELDS", site, "date -> JDE term not executable: %s" % e)
                return
            for o in offs:
                j = j0 + o / 86400
                try:
                    f = eval_exact(tf, {J: j, "$memo": {}}, prims)
                except NotEvaluable as e:
                    rep.inconcl("R-FIELDS", site, "term not executable: %s" % e)
                    return
                except (TypeError, ValueError, IndexError, KeyError) as e:     # the evaluator's own limits are not evidence against the code
                    rep.inconcl("R-FIELDS", site, "term not executable: %s: %s" % (type(e).__name__, e))
                    return
                except ZeroDivisionError as e:
                    bad.setdefault("error", []).append("%s: %s at JDE %s" % (type(e).__name__, e, float(j)))
                    continue
                n += 1
                where = "%d-%02d-%02d + %s s (JDE %.9f)" % (y, m, d, float(o), float(j))
                if not (isinstance(f, tuple) and len(f) == 6 and all(isinstance(x, (int, Fraction)) and not isinstance(x, bool) for x in f)):
                    bad.setdefault("shape", []).append("%s -> %r" % (where, f))
                    continue
                shown = "(%d, %d, %s, %s, %s, %.6f)" % (f[0], f[1], f[2], f[3], f[4], float(f[5]))
                if (f[0], f[1], f[2]) != (y, m, d):
                    bad.setdefault("date", []).append("%s -> %s: not that civil day" % (where, shown))
                elif not (Fraction(f[3]).denominator == 1 and Fraction(f[4]).denominator == 1 and 0 <= f[3] <= 23 and 0 <= f[4] <= 59 and 0 <= f[5] < 60):
                    bad.setdefault("canonical", []).append("%s -> %s: hour/minute/second outside 0-23 / 0-59 / [0, 60)" % (where, shown))
                elif f[3] * 3600 + f[4] * 60 + f[5] != o:
                    bad.setdefault("time", []).append("%s -> %s: the time of day is %s s, not %s s" % (where, shown, float(f[3] * 3600 + f[4] * 60 + f[5]), float(o)))
                else:
                    back = eval_exact(tj, {Y: Fraction(f[0]), M: Fraction(f[1]), D: Fraction(f[2]) + Fraction(f[3]) / 24 + Fraction(f[4]) / 1440 + Fraction(f[5]) / 86400, "$memo": {}}, prims)
                    if back != j:
                        bad.setdefault("recombine", []).append("%s -> %s -> JDE %.9f" % (where, shown, float(back)))
                if prev is not None and not (tuple(f) > prev[0]):
                    bad.setdefault("monotone", []).append("%s -> %s, but the earlier JDE %.9f -> %s" % (where, shown, float(prev[1]), prev[0]))
                prev = (tuple(f), j)
    for kind, lst in sorted(bad.items()):
        rep.violation("R-FIELDS", site, "fields:" + kind, lst[0] + "  (%d of %d instants fail this way)" % (len(lst), n), obligation=True)
    if not bad:
        rep.ok("R-FIELDS", site, "%d boundary instants executed exactly: civil day, canonical h/m/s equal to the offset, exact recombination, increasing tuple" % n, obligation=True)
    rep.floor("instants executed through get_full_date", n, 3000)
    return not bad


def run(repo, rep, tier):
    rep.decided = ["D1 operator conformance, fresh results, operands unchanged", "D2 input forms funnel into one conversion with positional h/m/s folding; split bases match",
                   "D3 copy reads only the stored value"]
    rep.undecided = ["1e-8 / 1e-9 tolerances of the floating-point evaluation (the exact rational execution is decided on boundary instants: R-FIELDS)", "instants off the executed grid"]
    rep.decided.append("D4 JDE -> fields -> JDE: civil day, canonical h/m/s, exact recombination and increasing tuple on boundary instants of every kind of civil day (R-FIELDS, exact execution)")
    opconf(repo, rep)
    fields_ok = field_grid(repo, rep, tier)
    funnel(repo, rep, fields_ok)
    # "month given as number, short name and long name" is one of the input forms that must agree: the validation reached by every
    # form must refuse / accept the same days whatever the spelling (rule shared with C01)
    from .c01 import month_forms
    month_forms(repo, rep)
    # field extraction (get_date) is the inverse of the date -> JDE conversion: constants must pair up
    from .c01 import d34
    d34(repo, rep, fields_ok)       # (R-FIELDS executes both conversion terms on boundary instants and checks exact recombination)
    fam = [(MOD, q) for q in repo.mod(MOD).functions if q.startswith(CLS + ".__")] + \
          [(MOD, "Epoch." + q) for q in ("set", "get_date", "get_full_date", "check_input_date", "_check_values", "jde", "mjd")]
    effects.check_functions(repo, rep, fam)
    guards.check_functions(repo, rep, fam)
    an = effect_engine.analysis_for(repo)
    for q in ("__add__", "__sub__", "__iadd__", "__isub__", "__radd__"):
        s = an.summ.get("%s.%s.%s" % (MOD, CLS, q))
        if s is not None and s.ret_alias:
            rep.violation("R-EFFECT", "%s.%s.%s" % (MOD, CLS, q), "result-aliases-operand", "the result may be one of the operand objects")
    return "other"


def opconf(repo, rep):
    rep.rule("R-OPCONF", "each special method computes the operation its name denotes on the stored JDE")
    c = Conformance(repo, rep, MOD, CLS, "epoch", "_jde")
    B_ep = ("Epoch", ("epoch", T.sym("B")), T.sym("B"))
    B_num = ("number", T.sym("NUM_B"), T.sym("NUM_B"))
    c.binary("__add__", lambda a, b: T.add(a, b), [B_num], "epoch")
    c.binary("__radd__", lambda a, b: T.add(b, a), [B_num], "epoch")
    c.binary("__sub__", lambda a, b: T.sub(a, b), [B_num], "epoch")
    c.binary("__sub__", lambda a, b: T.sub(a, b), [B_ep], None)
    for m in ("__iadd__", "__isub__"):
        c.inplace(m)
    tol = T.num(Fraction("1e-10"))
    both = [B_ep, B_num]
    c.binary("__lt__", lambda a, b: ("cmp", "Lt", a, b), both, None)
    c.binary("__gt__", lambda a, b: ("cmp", "Gt", a, b), both, None)
    c.binary("__le__", lambda a, b: T.lnot(("cmp", "Gt", a, b)), both, None)
    c.binary("__ge__", lambda a, b: T.lnot(("cmp", "Lt", a, b)), both, None)
    c.binary("__eq__", lambda a, b: ("cmp", "Lt", T.call("abs", T.sub(a, b)), tol), both, None)
    c.binary("__ne__", lambda a, b: T.lnot(("cmp", "Lt", T.call("abs", T.sub(a, b)), tol)), both, None)
    c.binary("__float__", lambda a, b: a, [("-", None, None)], None)
    c.binary("__call__", lambda a, b: a, [("-", None, None)], None)
    c.binary("jde", lambda a, b: a, [("-", None, None)], None)
    c.binary("__int__", lambda a, b: T.call("int", a), [("-", None, None)], None)
    c.binary("mjd", lambda a, b: T.sub(a, T.num(Fraction("2400000.5"))), [("-", None, None)], None)
    # Epoch + Epoch is rejected
    res = c.eval("__add__", ("epoch", T.sym("B")))
    if any(k == "ret" for k, _, _ in res):
        rep.violation("R-OPCONF", "Epoch.Epoch.__add__", "epoch-plus-epoch", "adding two Epochs returns a value (a sum of two instants has no meaning)")
    else:
        rep.ok("R-OPCONF", "Epoch.Epoch.__add__[Epoch]", "rejected with TypeError")
    # __hash__ consistent with the stored value
    t = ret_term(repo, MOD, "Epoch.__hash__", arg_terms={"self": ("epoch", T.sym("A"))})
    if T.sym("A") in set(T.walk(t)):
        rep.ok("R-OPCONF", "Epoch.Epoch.__hash__", "hash derives from the stored JDE")
    else:
        rep.violation("R-OPCONF", "Epoch.Epoch.__hash__", "hash", "hash does not derive from the stored JDE")
    rep.floor("operator conformance instances (Epoch)", c.n, 22)


FORMS = {
    "year, month, day": ("tuple", T.sym("NUM_Y"), T.sym("NUM_M"), T.sym("NUM_D")),
    "y, m, d, h, min, s": ("tuple", T.sym("NUM_Y"), T.sym("NUM_M"), T.sym("NUM_D"), T.sym("NUM_H"), T.sym("NUM_MI"), T.sym("NUM_S")),
    "tuple": ("tuple", ("tuple", T.sym("NUM_Y"), T.sym("NUM_M"), T.sym("NUM_D"), T.sym("NUM_H"))),
    "list": ("tuple", ("list", T.sym("NUM_Y"), T.sym("NUM_M"), T.sym("NUM_D"))),
    "Epoch (copy)": ("tuple", ("epoch", T.sym("J"))),
    "JDE number": ("tuple", T.sym("NUM_J")),
    "datetime": ("tuple", ("pyobj", "datetime.datetime", "DT")),
    "date": ("tuple", ("pyobj", "datetime.date", "DT")),
}


def funnel(repo, rep, fields_ok=None):
    rep.rule("R-FUNNEL", "every non-raising path of Epoch.set reaches the single _compute_jde call with values taken positionally from one validated 6-tuple")
    for nm, val in (("DAY2HOURS", 24.0), ("DAY2MIN", 1440.0), ("DAY2SEC", 86400.0)):
        got = repo.mod(MOD).literal(nm)
        if got != val:
            rep.violation("R-TABLE-REL", "Epoch." + nm, "day-constant", "%s is %r, expected %r" % (nm, got, val))
        else:
            rep.ok("R-TABLE-REL", "Epoch." + nm, "== %g" % val, sample=False)
    rep.fn(MOD, "Epoch.set")
    fn = repo.func(MOD, "Epoch.set")
    n = 0
    for form, args in FORMS.items():
        outs = outcomes(repo, MOD, "Epoch.set", arg_terms={"self": T.sym("self"), fn.args.vararg.arg: args, fn.args.kwarg.arg: T.sym("KW")})
        falls = [o for o in outs if o.kind in ("fall", "ret")]
        site = "Epoch.Epoch.set[%s]" % form
        if not falls:
            rep.violation("R-FUNNEL", site, "no-path", "this input form is always rejected")
            continue
        for o in falls:
            v = o.env.get("self._jde")
            if v is None:
                rep.violation("R-FUNNEL", site, "no-store", "the stored JDE is not assigned on this path")
                continue
            n += 1
            for conds, leaf in phi_leaves(v):
                msg = check_leaf(leaf) or check_form_args(form, args, leaf)
                if msg is None:
                    continue
                rep.violation("R-FUNNEL", site, "leaf:" + msg[:30], msg + ": " + T.show(leaf)[:140])
                break
            else:
                rep.ok("R-FUNNEL", site, "all %d outcome(s) are _compute_jde(year, month, day + h/24 + min/1440 + s/86400, ...) of one validated tuple"
                       % len(list(phi_leaves(v))), sample=(form in ("year, month, day", "Epoch (copy)")))
    rep.floor("set() input forms with a stored JDE examined", n, 8)
    # get_full_date split
    rep.fn(MOD, "Epoch.get_full_date")
    t = ret_term(repo, MOD, "Epoch.get_full_date", arg_terms={"self": T.sym("self"), "kwargs": T.sym("KW")})
    ok = False
    if t[0] == "tuple" and len(t) == 7:
        y, m, d, h, mi, s = t[1:]
        gd = None
        for x in T.walk(t):
            if x[0] == "call" and x[1] == "Epoch.Epoch.get_date":
                gd = x
        if gd is not None:
            day = ("idx", gd, T.num(2))
            r = T.call("mod", day, T.num(1))
            hh = T.call("int", T.mul(T.num(24), r))
            r2 = T.sub(T.mul(T.num(24), r), hh)
            mm = T.call("int", T.mul(T.num(60), r2))
            ss = T.mul(T.num(60), T.sub(T.mul(T.num(60), r2), mm))
            ok = (y == ("idx", gd, T.num(0)) and m == ("idx", gd, T.num(1)) and d == T.call("int", day) and h == hh and mi == mm and s == ss)
    if ok:
        rep.ok("R-FUNNEL", "Epoch.Epoch.get_full_date", "day fraction split with bases 24 / 60 / 60, matching the 24 / 1440 / 86400 folding of set()")
    elif fields_ok:
        rep.ok("R-FUNNEL", "Epoch.Epoch.get_full_date", "split not written as (int(24 r), int(60 r'), 60 (60 r' - min)); the executed fields are the canonical time of day all the same (R-FIELDS)")
    else:
        rep.violation("R-FUNNEL", "Epoch.Epoch.get_full_date", "split", "day-fraction split is not (int(24 r), int(60 r'), 60 (60 r' - min)) of r = day % 1")
    # D3 copy branch: under `isinstance(<source>, Epoch)` the stored JDE is read from the source's stored JDE and nothing else
    # of the source is touched.  The branch may live in set() or in a helper split off from it; <source> is any plain name
    # or args[0].
    from ..rules import walk_with_helpers
    ok = None
    for node in walk_with_helpers(repo, MOD, fn):
        if not isinstance(node, ast.If):
            continue
        tt = node.test
        if not (isinstance(tt, ast.Call) and isinstance(tt.func, ast.Name) and tt.func.id == "isinstance" and len(tt.args) == 2
                and norm_text(tt.args[1]) == "Epoch"):
            continue
        src = norm_text(tt.args[0]).replace(" ", "")
        stores = [s_ for s_ in node.body if isinstance(s_, ast.Assign) and norm_text(s_).replace(" ", "") == "self._jde=%s._jde" % src]
        reads = {norm_text(x).replace(" ", "") for s_ in node.body for x in ast.walk(s_) if isinstance(x, ast.Attribute)
                 and norm_text(x).replace(" ", "").startswith(src + ".")}
        if stores and not (reads - {src + "._jde"}):
            ok = True if ok is None else ok
        elif stores or reads:
            ok = False
    if ok is None:
        rep.inconcl("R-FUNNEL", "Epoch.Epoch.set", "no `isinstance(x, Epoch)` copy branch recognised in set() or the helpers split off from it")
        ok = "skip"
    if ok == "skip":
        pass
    elif ok:
        rep.ok("R-FUNNEL", "Epoch.Epoch.set[copy]", "copy branch reads only args[0]._jde (a float: no shared state)")
    else:
        rep.violation("R-FUNNEL", "Epoch.Epoch.set", "copy-branch", "copy branch does not simply read the source's stored JDE")


DT_FIELDS = ("year", "month", "day", "hour", "minute", "second", "microsecond")


def check_form_args(form, args, leaf):
    """the validated tuple is built from the components of the input in calendar order; a datetime
    contributes its sub-second part (microsecond) to the seconds"""
    V = leaf[3][1]
    if V[1] != "Epoch.Epoch._check_values":
        return None
    got = V[3:]
    src = args[1]
    if src[0] in ("tuple", "list"):
        want = src[1:]
    elif src[0] == "sym":
        want = args[1:]
    elif src[0] == "pyobj":
        attr = lambda n: ("attr", src, n)
        reads = {x[2] for g in got for x in T.walk(g) if x[0] == "attr" and x[1] == src}
        calls = {x[1] for g in got for x in T.walk(g) if x[0] == "call" and src in x[2:]}
        if calls - {".timetuple"} or reads - set(DT_FIELDS):
            return None        # an access path this rule does not know: not decided here
        if src[1] == "datetime.datetime":
            if "microsecond" not in reads:
                return ("the datetime form does not read .microsecond: the sub-second part of the instant is dropped "
                        "(the same instant given as numbers keeps it)")
            want = tuple(attr(n) for n in DT_FIELDS[:5]) + (T.add(attr("second"), T.mul(T.num(Fraction(1, 10 ** 6)), attr("microsecond"))),)
        else:
            want = tuple(attr(n) for n in DT_FIELDS[:3])
        if calls:
            return None
    else:
        return None
    if tuple(got) != tuple(want):
        return "the components of the input are not handed to _check_values in calendar order (year, month, day, hour, minute, second)"
    return None


def check_leaf(leaf):
    """None if leaf == _compute_jde(self, V[0], V[1], V[2] + V[3]/24 + V[4]/1440 + V[5]/86400, ...)"""
    if not (leaf[0] == "call" and leaf[1] == "Epoch.Epoch._compute_jde"):
        return "the stored JDE does not come from _compute_jde"
    args = leaf[2:]
    if len(args) < 4:
        return "too few arguments to _compute_jde"
    y, m, d = args[1], args[2], args[3]
    if not (y[0] == "idx" and y[2] == T.num(0)):
        return "year is not element 0 of the validated tuple"
    V = y[1]
    if not (V[0] == "call" and V[1] in ("Epoch.Epoch._check_values", "Epoch.Epoch.get_full_date")):
        return "values do not come from _check_values / get_full_date"
    if m != ("idx", V, T.num(1)):
        return "month is not element 1 of the same tuple"
    want = T.add(("idx", V, T.num(2)), T.mul(T.num(Fraction(1, 24)), ("idx", V, T.num(3))),
                 T.mul(T.num(Fraction(1, 1440)), ("idx", V, T.num(4))), T.mul(T.num(Fraction(1, 86400)), ("idx", V, T.num(5))))
    if d != want:
        return "day is not day + hours/24 + minutes/1440 + seconds/86400 of the same tuple (positions 2..5)"
    return None
