"""C03 Angle: canonical range, congruence mod 360 and closed arithmetic.

Decided: D1 the stored value is always reduced to (-360, 360): every write to `_deg`
is a reduce_deg/dms2deg result, a copy of another Angle's value, a literal in range,
or the to_positive() form, and `_deg` is written only inside class Angle (R-REP, R-OWN);
reduce_deg derives its large-value branch from `% 360` with the sign restored;
D2 operators return new objects and leave both operands unchanged (R-EFFECT);
D3 every operator computes the operation its name says on the stored values, reflected
forms with swapped operands, in-place forms return the plain form's value, comparisons
compare stored values, division forms raise ZeroDivisionError on the zero branch, and
the radian / hour views are value*pi/180 and value/15 (R-OPCONF)."""
import ast
from fractions import Fraction

from .. import symx, terms as T
from ..frontend import AnalysisError, norm_text
from ..rules import outcomes, ret_term, D2R
from ..opconf import Conformance
from .. import effects, effect_engine, guards

MANIFEST = {
    "level": "other",
    "technique": "static analysis: representation-invariant rule on every store to Angle._deg, who-may-write rule, operator conformance by symbolic evaluation of each special method against the data-model meaning of its name (delegations resolved), effect analysis for operand preservation, exact execution (rational arithmetic) of the value Angle.set stores - reduce_deg / reduce_dms / dms2deg by their own extracted terms - on a grid of scalars and sexagesimal pieces",
    "text": "For every constructor form and every operator (35 methods), not for sampled values: the stored value is produced only by the range-reducing helpers, operators compute exactly the named operation on the stored values and hand it to the constructor (which reduces), reflected and in-place forms agree with the plain ones, operands are never written, and zero divisors raise ZeroDivisionError. The value clause is decided in exact rational arithmetic by executing the stored-value term on a grid: scalars at and a hair (2^-40) around multiples of 360, tiny values of both signs, magnitudes up to 1e15; two and three sexagesimal pieces with fractional and overflowing minutes/seconds and the sign on each piece in turn - the stored value is strictly inside (-360, 360), congruent to the exact input modulo 360 and keeps its sign, and to_positive() gives the congruent value in [0, 360). What float rounding adds (the 1e-9 scaled tolerance) is not decided.",
    "note": "Trusted: Python data model (meaning of special-method names); reduce_deg(-x) = -reduce_deg(x) (checked structurally: sign * (int(|x|) % 360 + frac)); dms2deg bounded by reduce_dms. Undecided: float rounding (1e-9 x magnitude); inputs off the executed grid; radians / hours inputs (irrational factor) beyond their relation to the degree form (R-FORMS).",
}
MOD, CLS = "Angle", "Angle"


def run(repo, rep, tier):
    rep.decided = ["D1 stored value always reduced (R-REP/R-OWN)", "D2 operands unchanged, fresh results (R-EFFECT)",
                   "D3 operator conformance incl. ZeroDivisionError and the rad/hour views (R-OPCONF)"]
    rep.undecided = ["float rounding of the reduction (1e-9 x magnitude)", "inputs off the executed grid"]
    rep.decided.append("D4 stored value in (-360, 360), congruent mod 360 to the exact input, sign kept - scalars and sexagesimal pieces with the sign on any piece; to_positive() in [0, 360): exact execution on a rational grid (R-VALUE)")
    rep.assumptions = ["operator dispatch goes to the class methods (no competing reflected method on int/float)"]
    r_rep(repo, rep)
    r_forms(repo, rep)
    value_grid(repo, rep, tier)
    r_opconf(repo, rep)
    fam = [(MOD, q) for q in repo.mod(MOD).functions if q.startswith(CLS + ".") and "<locals>" not in q]
    effects.check_functions(repo, rep, fam)
    fresh_results(repo, rep)
    guards.check_functions(repo, rep, fam)
    return "other"


def value_grid(repo, rep, tier):
    """R-VALUE.  reduce_deg, reduce_dms and dms2deg are rational recipes (abs, floor, mod, comparisons).  The value Angle.set stores for
    one, two and three numbers is executed exactly - the helpers by their own extracted terms - on a grid of rational inputs: exact
    multiples of 360, values a hair below / above them, 0 and tiny values of both signs, magnitudes up to 1e15; sexagesimal pieces with
    fractional and overflowing minutes and seconds, the sign on each piece in turn and on several.  Decided per input: the stored value
    is strictly inside (-360, 360), congruent to the exact input modulo 360, and has the sign of the input (or is zero);
    to_positive() gives the congruent value in [0, 360)."""
    from ..rules import eval_exact, NotEvaluable, repo_prims
    rep.rule("R-VALUE", "Angle.set stores a value in (-360, 360), congruent to the exact input mod 360, with the input's sign, for scalars and for sexagesimal "
                        "pieces with the sign on any piece (exact execution of the extracted reduce_deg / reduce_dms / dms2deg terms on a rational grid)")
    site = "%s.%s.set" % (MOD, CLS)
    fn = repo.func(MOD, CLS + ".set")
    if fn.args.vararg is None or fn.args.kwarg is None:
        rep.inconcl("R-VALUE", site, "set() no longer takes (*args, **kwargs)")
        return
    va, kwn = fn.args.vararg.arg, fn.args.kwarg.arg
    for q in ("reduce_deg", "reduce_dms", "dms2deg"):
        rep.fn(MOD, CLS + "." + q)
    try:
        fr = repo.func(MOD, CLS + ".reduce_deg")
        red_t = ret_term(repo, MOD, CLS + ".reduce_deg", arg_terms={fr.args.args[0].arg: T.sym("NUM_RED")})
    except AnalysisError as e:
        rep.inconcl("R-VALUE", site, "reduce_deg not extractable: %s" % e)
        return

    hold = {}

    def red_prim(t, env):
        if t[0] == "call" and t[1] == "red" and len(t) == 3:
            return eval_exact(red_t, {T.sym("NUM_RED"): eval_exact(t[2], env, hold["p"]), "$memo": {}}, hold["p"])
        return None
    prims = hold["p"] = repo_prims(repo, red_prim)
    F = Fraction
    syms = [T.sym("NUM_V%d" % i) for i in range(3)]
    stored = {}
    for k in (1, 2, 3):
        try:
            outs = [o for o in outcomes(repo, MOD, CLS + ".set", arg_terms={"self": T.sym("self"), va: ("tuple",) + tuple(syms[:k]), kwn: ("dict", ())}) if o.kind != "raise"]
        except AnalysisError as e:
            rep.inconcl("R-VALUE", site, "set() with %d value(s) not extractable: %s" % (k, e))
            return
        live = [o for o in outs if o.cond == ("bool", True)]
        if len(live) != 1 or "self._deg" not in live[0].env:
            rep.inconcl("R-VALUE", site, "set() with %d value(s): no single path that stores a value" % k)
            return
        stored[k] = live[0].env["self._deg"]
    eps = F(1, 2 ** 40)
    mags = [F(0), F(1, 10 ** 30), eps, F(1, 3), F(1), F("26.3"), F(180), F(360) - eps, F(360), F(360) + eps, F("386.3"), F(720), F(720) - eps, F("1000000.75"),
            F(360) * 10 ** 12, F(10 ** 15) + F(1, 4), F(10 ** 15) - eps]
    scal = [sg * m for m in mags for sg in (1, -1)]
    dd = [F(0), F(1), F(23), F("23.5"), F(359), F(360), F(361), F("719.75"), F(10 ** 9) + F(1, 2)]
    mm = [F(0), F(1, 2), F(26), F(59), F(60), F("61.25"), F(3600), F("100000.5")]
    ss = [F(0), F(1, 4), F("49.6"), F("59.999"), F(60), F(61), F("3600.5"), F(10 ** 7) + F(1, 8)]
    if tier != "thorough":
        dd = [F(0), F("23.5"), F(359), F(360), F(10 ** 9) + F(1, 2)]
        mm = [F(0), F(1, 2), F(59), F(60), F("61.25")]
        ss = [F(0), F("49.6"), F(60), F("3600.5")]
    signs3 = [(1, 1, 1), (-1, 1, 1), (1, -1, 1), (1, 1, -1), (-1, -1, 1), (-1, -1, -1), (1, -1, -1)]
    cases = [(1, (x,)) for x in scal]
    cases += [(2, (a * d, b * m)) for d in dd for m in mm for (a, b, _) in signs3[:5]]
    cases += [(3, (a * d, b * m, c * s_)) for d in dd for m in mm for s_ in ss for (a, b, c) in signs3]
    bad = {}
    n = 0
    for k, vals in cases:
        env = dict(zip(syms, vals))
        env["$memo"] = {}
        try:
            v = eval_exact(stored[k], env, prims)
        except NotEvaluable as e:
            rep.inconcl("R-VALUE", site, "stored value not executable: %s" % e)
            return
        except (TypeError, ValueError, IndexError, KeyError) as e:     # the evaluator's own limits are not evidence against the code
            rep.inconcl("R-VALUE", site, "stored value not executable: %s: %s" % (type(e).__name__, e))
            return
        except ZeroDivisionError as e:
            bad.setdefault("error", []).append("Angle%s: %s: %s" % (tuple(float(x) for x in vals), type(e).__name__, e))
            continue
        n += 1
        neg = any(x < 0 for x in vals)
        mag = abs(vals[0]) + (abs(vals[1]) / 60 if k > 1 else 0) + (abs(vals[2]) / 3600 if k > 2 else 0)
        exact = -mag if neg else mag
        shown = "Angle(%s)" % ", ".join(str(float(x)) if x.denominator != 1 else str(x) for x in vals)
        if isinstance(v, bool) or not isinstance(v, (int, Fraction)):
            bad.setdefault("type", []).append("%s stores %r" % (shown, v))
        elif not abs(v) < 360:
            bad.setdefault("range", []).append("%s stores %s, outside (-360, 360)" % (shown, float(v)))
        elif (v - exact) % 360 != 0:
            bad.setdefault("congruence", []).append("%s stores %s; the input is %s = %s mod 360" % (shown, float(v), float(exact), float(exact % 360 if exact >= 0 else -((-exact) % 360))))
        elif v != 0 and (v < 0) != (exact < 0):
            bad.setdefault("sign", []).append("%s stores %s: the sign of the input (%s) is lost" % (shown, float(v), float(exact)))
    # to_positive(): the congruent value in [0, 360)
    try:
        outs = [o for o in outcomes(repo, MOD, CLS + ".to_positive", arg_terms={"self": T.sym("self")}, extra_env={"self._deg": T.sym("NUM_DEG")}) if o.kind != "raise"]
        tp = 0
        for x in [sg * m for m in (F(0), F(1, 10 ** 30), eps, F(1), F("359.5"), F(360) - eps) for sg in (1, -1)]:
            env = {T.sym("NUM_DEG"): x, "$memo": {}}
            live = [o for o in outs if eval_exact(o.cond, env, prims) is True]
            if len(live) != 1:
                raise NotEvaluable("no single path")
            v = eval_exact(live[0].env.get("self._deg", T.sym("NUM_DEG")), env, prims)
            tp += 1
            if not (0 <= v < 360) or (v - x) % 360 != 0:
                bad.setdefault("to_positive", []).append("to_positive() of %s gives %s" % (float(x), float(v)))
        n += tp
    except (NotEvaluable, AnalysisError) as e:
        rep.inconcl("R-VALUE", "%s.%s.to_positive" % (MOD, CLS), "not executable: %s" % e)
    for kind, lst in sorted(bad.items()):
        rep.violation("R-VALUE", site, "value:" + kind, lst[0] + "  (%d of %d executed inputs fail this way)" % (len(lst), n), obligation=True)
    if not bad:
        rep.ok("R-VALUE", site, "%d inputs executed exactly (scalars incl. multiples of 360 +- 2^-40 and up to 1e15; 2 and 3 sexagesimal pieces with overflow, fractions and the "
                                "sign on any piece): stored value in (-360, 360), congruent mod 360, sign kept; to_positive() in [0, 360)" % n, obligation=True)
    rep.floor("inputs executed through Angle.set", n, 800)


def r_forms(repo, rep):
    """R-FORMS: the same number(s) given as separate arguments, in a tuple or in a list - with or without radians=True -
    must set the same value.  Angle.set is evaluated symbolically for every input form (a call of set() on itself is unfolded
    once) and the stored terms are compared."""
    from ..rules import outcomes
    from ..poly import Algebra
    rep.rule("R-FORMS", "every input form of Angle.set (separate values / tuple / list, radians flag on or off) stores the same value for the same numbers")
    q = CLS + ".set"
    site = "%s.%s" % (MOD, q)
    fn = repo.func(MOD, q)
    if fn.args.vararg is None or fn.args.kwarg is None:
        rep.inconcl("R-FORMS", site, "set() no longer takes (*args, **kwargs)")
        return
    va, kwn = fn.args.vararg.arg, fn.args.kwarg.arg
    syms = [T.sym("NUM_V%d" % i) for i in range(3)]
    alg = Algebra(atomize=True)
    n = 0
    bad = []
    unknown = []
    for k in (1, 2, 3):
        vals = tuple(syms[:k])
        for rad in ((True, False) if k == 1 else (False,)):
            kw = ("dict", ((("str", "radians"), ("bool", True)),)) if rad else ("dict", ())
            stored = {}
            for form, args in (("separate values", ("tuple",) + vals), ("a tuple", ("tuple", ("tuple",) + vals)), ("a list", ("tuple", ("list",) + vals))):
                try:
                    outs = [o for o in outcomes(repo, MOD, q, arg_terms={"self": T.sym("self"), va: args, kwn: kw}) if o.kind != "raise"]
                except AnalysisError as e:
                    unknown.append("%s: %s" % (form, e))
                    continue
                live = [o for o in outs if o.cond == ("bool", True)]
                if len(live) != 1 or "self._deg" not in live[0].env:
                    unknown.append("%d value(s) as %s%s: no single path that stores a value" % (k, form, ", radians=True" if rad else ""))
                    continue
                stored[form] = live[0].env["self._deg"]
                n += 1
            base = stored.get("separate values")
            if base is None:
                continue
            if k == 1:
                want = T.call("red", T.mul(syms[0], T.power(D2R, T.num(-1))) if rad else syms[0])
                try:
                    okb = base == want or alg.equal(base[2] if base[0] == "call" and base[1] == "red" else base, want[2])
                except Exception:
                    okb = None
                if okb is False:
                    bad.append(("scalar", rad, "a single number%s stores %s, expected %s" % (" with radians=True" if rad else "", T.show(base)[:60], T.show(want)[:60])))
            for form, v in stored.items():
                if form == "separate values":
                    continue
                same = v == base
                if not same:
                    try:
                        same = alg.equal(v, base)
                    except Exception:
                        same = None
                if same is False:
                    bad.append((form, rad, "%d value(s) given as %s%s store %s, but %s when given as separate values"
                                % (k, form, " with radians=True" if rad else "", T.show(v)[:70], T.show(base)[:70])))
                elif same is None:
                    unknown.append("%d value(s) as %s: stored terms not comparable" % (k, form))
    rep.floor("input forms of Angle.set evaluated", n, 9)
    for form, rad, msg in bad:
        rep.violation("R-FORMS", site, "form:%s:%s" % (form, "radians" if rad else "degrees"), msg, obligation=True)
    for u in unknown[:3]:
        rep.inconcl("R-FORMS", site, u)
    if not bad and not unknown:
        rep.ok("R-FORMS", site, "%d input forms: separate values, tuple and list agree, with and without radians=True" % n, obligation=True)


def r_rep(repo, rep):
    rep.rule("R-REP", "every write to Angle._deg has a right-hand side that is range-reduced by construction")
    m = repo.mod(MOD)
    n = 0
    for q, fn in m.functions.items():
        if not q.startswith(CLS + ".") or "<locals>" in q:
            continue
        site = "%s.%s" % (MOD, q)
        for node in ast.walk(fn):
            tgt = None
            if isinstance(node, ast.Assign):
                for t in node.targets:
                    if isinstance(t, ast.Attribute) and t.attr == "_deg":
                        tgt = t
                value = node.value
            elif isinstance(node, ast.AugAssign) and isinstance(node.target, ast.Attribute) and node.target.attr == "_deg":
                n += 1
                rep.fn(MOD, q)
                rep.violation("R-REP", site, "augassign:" + norm_text(node)[:40],
                              "`%s` changes the stored value in place without reducing it again: the value can leave (-360, 360) "
                              "(e.g. hours of right ascension >= 24 give 360 or more)" % norm_text(node))
                continue
            if tgt is None:
                continue
            n += 1
            rep.fn(MOD, q)
            txt = norm_text(value)
            why = reduced_by_construction(m, fn, value, node, 0)
            ok = why is not None
            if ok:
                rep.ok("R-REP", site, "`%s`: %s" % (norm_text(node)[:50], why), sample=(n <= 3))
            else:
                rep.violation("R-REP", site, "unreduced:" + txt[:40], "`%s` stores a value that is not range-reduced by construction" % norm_text(node)[:80])
    rep.floor("writes to Angle._deg", n, 9)
    # reduce_deg: |deg| >= 360 branch goes through % 360 and restores the sign
    fn = repo.func(MOD, "Angle.reduce_deg")
    rep.fn(MOD, "Angle.reduce_deg")
    t = ret_term(repo, MOD, "Angle.reduce_deg", arg_terms={fn.args.args[0].arg: T.sym("X")})
    mods = [x for x in T.walk(t) if x[0] == "call" and x[1] == "mod" and x[3] == T.num(360)]
    guard = [x for x in T.walk(t) if x[0] == "cmp" and x[1] in ("GtE", "Gt") and x[3] == T.num(360)]
    sign = [x for x in T.walk(t) if x[0] == "phi" and {x[2], x[3]} == {T.num(1), T.num(-1)}]
    if mods and guard and sign:
        rep.ok("R-REP", "Angle.Angle.reduce_deg", "|x| >= 360 branch: sign * (int(|x|) % 360 + frac(|x|)); smaller values returned unchanged")
    else:
        rep.violation("R-REP", "Angle.Angle.reduce_deg", "reduce-form", "reduce_deg does not reduce through `% 360` with the sign restored under an |x| >= 360 test")
    # reduce_dms (feeds dms2deg): after every carry the pieces are bounded: degrees % 360, minutes and seconds < 60
    fn = repo.func(MOD, "Angle.reduce_dms")
    rep.fn(MOD, "Angle.reduce_dms")
    nm = [a.arg for a in fn.args.args]
    t = ret_term(repo, MOD, "Angle.reduce_dms", arg_terms={nm[0]: T.sym("NUM_D"), nm[1]: T.sym("NUM_M"), nm[2]: T.sym("NUM_S")})
    ok = False
    why = "does not return (degrees, minutes, seconds, sign)"
    if t[0] == "tuple" and len(t) == 5:
        de, mi, se = t[1], t[2], t[3]

        def bounded(x, limit):
            """x < limit on every phi leaf: mod(., limit) or a value on the not(>= limit) side of its own test"""
            if x[0] == "call" and x[1] == "mod" and x[3] == T.num(limit):
                return True
            if x[0] == "phi" and x[1][0] == "cmp" and x[1][1] in ("GtE", "Gt") and x[1][3] == T.num(limit):
                return bounded(x[2], limit) and (x[3] == x[1][2] or bounded(x[3], limit))
            return False
        ok_d = de[0] == "call" and de[1] == "mod" and de[3] == T.num(360)
        ok_m, ok_s = bounded(mi, 60), bounded(se, 60)
        ok = ok_d and ok_m and ok_s
        why = "degrees are %sreduced modulo 360 after the carries; minutes %sbounded by 60; seconds %sbounded by 60" % (
            "" if ok_d else "NOT ", "" if ok_m else "NOT ", "" if ok_s else "NOT ")
    if ok:
        rep.ok("R-REP", "Angle.Angle.reduce_dms", why)
    else:
        rep.violation("R-REP", "Angle.Angle.reduce_dms", "dms-unbounded",
                      "sexagesimal reduction: " + why + " - dms2deg() can then return 360 or more and the stored value leaves (-360, 360)")
    # who may write
    for mn, q2, fn2 in repo.all_functions(include_demo=False, include_nested=True):
        if mn == MOD and q2.startswith(CLS + "."):
            continue
        for node in ast.walk(fn2):
            if isinstance(node, ast.Attribute) and isinstance(node.ctx, ast.Store) and node.attr in ("_deg", "_tol") and mn != MOD:
                pass
            if isinstance(node, ast.Attribute) and isinstance(node.ctx, ast.Store) and node.attr == "_deg":
                rep.violation("R-OWN", "%s.%s" % (mn, q2), "foreign-deg-store", "`_deg` is written outside class Angle: " + norm_text(node))
    rep.ok("R-OWN", "package", "`_deg` is stored only inside class Angle")


def reduced_by_construction(m, fn, value, at, depth):
    """reason (str) why the expression is in (-360, 360) by construction, else None.  Accepted: results of the two
    reducers, another Angle's stored value, literals in range, 360 -|x| / 360 + x of the stored value on its x < 0
    branch, conditional expressions and local names all of whose bindings qualify, and calls of other methods of the
    class all of whose return expressions qualify (helpers extracted from the constructor)."""
    if depth > 3:
        return None
    if isinstance(value, ast.Call):
        f = norm_text(value.func)
        if f in ("Angle.reduce_deg", "Angle.dms2deg"):
            return "result of " + f
        if f.startswith(("Angle.", "self.")) and f.count(".") == 1:
            callee = m.functions.get(CLS + "." + f.split(".")[1])
            if callee is not None:
                rets = [r for r in ast.walk(callee) if isinstance(r, ast.Return)]
                if rets and all(r.value is not None and reduced_by_construction(m, callee, r.value, r, depth + 1) for r in rets):
                    return "result of %s, every return of which is reduced" % f
        return None
    if isinstance(value, ast.Attribute) and value.attr == "_deg":
        return "copy of another Angle's stored value"
    if isinstance(value, ast.Constant) and isinstance(value.value, (int, float)) and not isinstance(value.value, bool) and -360 < value.value < 360:
        return "literal in range"
    if isinstance(value, ast.IfExp):
        a = reduced_by_construction(m, fn, value.body, at, depth + 1)
        b = reduced_by_construction(m, fn, value.orelse, at, depth + 1)
        return "both alternatives reduced" if a and b else None
    if isinstance(value, ast.Name):
        binds = [n for n in ast.walk(fn) if isinstance(n, ast.Assign) and any(isinstance(t, ast.Name) and t.id == value.id for t in n.targets)]
        others = [n for n in ast.walk(fn) if isinstance(n, (ast.AugAssign, ast.For)) and isinstance(getattr(n, "target", None), ast.Name)
                  and n.target.id == value.id]
        if binds and not others and all(reduced_by_construction(m, fn, b.value, b, depth + 1) for b in binds):
            return "local bound only to reduced values"
        return None
    if isinstance(value, ast.BinOp) and isinstance(value.op, ast.Mod) and isinstance(value.right, ast.Constant) and value.right.value in (360, 360.0) \
            and not isinstance(value.right.value, bool):
        return "remainder modulo a full turn: in [0, 360) for any finite operand (exact arithmetic)"
    txt = norm_text(value).replace(" ", "")
    if txt in ("360.0-abs(self._deg)", "360-abs(self._deg)", "360.0+self._deg", "self._deg+360.0", "360+self._deg", "self._deg+360") \
            and guarded_negative(fn, at):
        return "a full turn added to the stored value on its < 0 branch: a value of (-360, 0) becomes one of (0, 360)"
    return None


def guarded_negative(fn, node):
    for n in ast.walk(fn):
        if isinstance(n, ast.If) and node in list(ast.walk(n)) and node not in [x for s in n.orelse for x in ast.walk(s)]:
            if norm_text(n.test).replace(" ", "") in ("self._deg<0", "self._deg<0.0"):
                return True
    return False


def r_opconf(repo, rep):
    rep.rule("R-OPCONF", "each special method computes the operation its name denotes on the stored value(s)")
    c = Conformance(repo, rep, MOD, CLS, "angle", "_deg")
    B_ang = ("angle", ("angle", T.sym("B")), T.call("red", T.sym("B")))
    B_num = ("number", T.sym("NUM_B"), T.sym("NUM_B"))
    both = [B_ang, B_num]
    c.binary("__add__", lambda a, b: T.add(a, b), both, "angle")
    c.binary("__radd__", lambda a, b: T.add(b, a), both, "angle")
    c.binary("__sub__", lambda a, b: T.sub(a, b), both, "angle")
    c.binary("__rsub__", lambda a, b: T.sub(b, a), both, "angle")
    c.binary("__mul__", lambda a, b: T.mul(a, b), both, "angle")
    c.binary("__rmul__", lambda a, b: T.mul(b, a), both, "angle")
    for mth in ("__div__", "__truediv__"):
        c.binary(mth, lambda a, b: T.div(a, b), both, "angle")
        c.raises_zero(mth, both, lambda a, b: b)
    for mth in ("__rdiv__", "__rtruediv__"):
        c.binary(mth, lambda a, b: T.div(b, a), both, "angle")
        c.raises_zero(mth, both, lambda a, b: a)
    c.binary("__pow__", lambda a, b: T.power(a, b), both, "angle")
    c.binary("__rpow__", lambda a, b: T.power(b, a), both, "angle")
    sgn = lambda v: T.phi(("cmp", "GtE", v, T.ZERO), T.num(1), T.num(-1))
    c.binary("__mod__", lambda a, b: T.mul(sgn(a), T.call("mod", T.call("abs", a), b)), both, "angle")
    Bn_red = ("number", T.sym("NUM_B"), T.call("red", T.sym("NUM_B")))
    c.binary("__rmod__", lambda a, b: T.mul(sgn(b), T.call("mod", T.call("abs", b), a)), [B_ang, Bn_red], "angle")
    for mth in ("__iadd__", "__isub__", "__imul__", "__idiv__", "__itruediv__", "__ipow__", "__imod__"):
        c.inplace(mth)
    c.raises_zero("__idiv__", both, lambda a, b: b)
    c.binary("__neg__", lambda a, b: T.neg(a), [("-", None, None)], "angle")
    c.binary("__abs__", lambda a, b: T.call("abs", a), [("-", None, None)], "angle")
    c.binary("__round__", lambda a, b: T.call("round", a, b), [("ndigits", T.sym("NUM_B"), T.sym("NUM_B"))], "angle")
    c.binary("__float__", lambda a, b: a, [("-", None, None)], None)
    c.binary("__call__", lambda a, b: a, [("-", None, None)], None)
    c.binary("__int__", lambda a, b: T.call("int", a), [("-", None, None)], None)
    c.binary("rad", lambda a, b: T.mul(a, symx.D2R), [("-", None, None)], None)
    c.binary("get_ra", lambda a, b: T.div(a, T.num(15)), [("-", None, None)], None)
    tol = ("attr", T.sym("self"), "_tol")
    c.binary("__lt__", lambda a, b: ("cmp", "Lt", a, b), both, None)
    c.binary("__gt__", lambda a, b: ("cmp", "Gt", a, b), both, None)
    c.binary("__le__", lambda a, b: T.lnot(("cmp", "Gt", a, b)), both, None)
    c.binary("__ge__", lambda a, b: T.lnot(("cmp", "Lt", a, b)), both, None)
    c.binary("__eq__", lambda a, b: ("cmp", "Lt", T.call("abs", T.sub(a, b)), tol), both, None)
    c.binary("__ne__", lambda a, b: T.lnot(("cmp", "Lt", T.call("abs", T.sub(a, b)), tol)), both, None)
    rep.floor("operator conformance instances (Angle)", c.n, 60)


def fresh_results(repo, rep):
    """operators return new objects: no operator method's result may alias self or its operand"""
    an = effect_engine.analysis_for(repo)
    for q, fn in repo.mod(MOD).functions.items():
        if not q.startswith(CLS + ".__") or q in ("Angle.__init__",):
            continue
        s = an.summ.get("%s.%s" % (MOD, q))
        if s is None:
            continue
        if s.ret_alias:
            rep.violation("R-EFFECT", "%s.%s" % (MOD, q), "result-aliases-operand", "the operator's result may be one of its operand objects (not a new Angle)")
        else:
            rep.ok("R-EFFECT", "%s.%s:fresh" % (MOD, q), "result is a new object", sample=False)
