"""Thorough tier: on top of the quick rules
 (1) every identity decided by the polynomial normal form is re-decided by an independent method (40-digit evaluation of
     both extracted terms at pseudo-random points); a disagreement means the algebra engine is wrong -> ANALYSIS-ERROR;
 (2) the generic rules of the property (units, guards, effects, operator types, time arguments, reduction idioms) are
     applied to the whole package instead of the property's family;
 (3) checker self-test: every seeded change recorded for this property under /verif/seeded/<id>-*/patch.diff is applied
     to a scratch copy of the current tree (temporary directory, removed afterwards) and the quick rules must report a
     violation there; a seed that is no longer caught means the checker regressed -> ANALYSIS-ERROR.
Nothing here executes the library."""
import glob
import importlib
import os
import shutil
import subprocess
import tempfile

from . import poly, units, guards, effects
from .frontend import Repo, AnalysisError
from .report import Report, VERIF


def run(prop, repo, rep):
    extra = {}
    # (1) second opinion on the algebra
    log = list(poly.EQUAL_LOG)
    bad = poly.crosscheck(log)
    extra["identities_crosschecked"] = len(log)
    extra["crosscheck_disagreements"] = len(bad)
    if bad:
        from . import terms as T
        for a, b, v, s in bad[:5]:
            print("ANALYSIS-ERROR property=%s algebra engine disagrees with numeric cross-check: normal form says %s, evaluation says %s for %s == %s"
                  % (prop, v, s, T.show(a)[:80], T.show(b)[:80]))
        return 2, extra
    if log:
        rep.notes.append("thorough: %d identities re-decided by 40-digit evaluation at pseudo-random points, 0 disagreements" % len(log))
    # (2) package-wide generic rules
    allf = [(mn, q) for mn, q, fn in repo.all_functions(include_demo=False, include_nested=False)]
    units.check_functions(repo, rep, allf, prop_rule="R-UNITS(pkg)")
    units.check_optypes(repo, rep, allf, rule="R-OPTYPE(pkg)")
    guards.check_functions(repo, rep, allf, rule="R-GUARD(pkg)")
    effects.check_functions(repo, rep, allf, rule="R-EFFECT(pkg)")
    units.package_floor(repo, rep)
    extra["package_functions"] = len(allf)
    # (3) self-test on the seeded corpus of this property
    seeds = sorted(glob.glob(os.path.join(VERIF, "seeded", prop + "-*", "patch.diff")))
    caught, missed = [], []
    mod = importlib.import_module("pmv.props." + prop.lower())
    for patch in seeds:
        sid = os.path.basename(os.path.dirname(patch))
        meta_p = os.path.join(os.path.dirname(patch), "meta.json")
        expected = True
        if os.path.exists(meta_p):
            import json
            expected = json.load(open(meta_p)).get("caught_by_own_check", True)
        tmp = tempfile.mkdtemp(prefix="pmv_selftest_")
        try:
            shutil.copytree(os.path.join(repo.root, "pymeeus"), os.path.join(tmp, "pymeeus"))
            r = subprocess.run(["git", "apply", "--unsafe-paths", "--directory=" + tmp, patch], capture_output=True, text=True, cwd=tmp)
            if r.returncode != 0:
                r = subprocess.run(["patch", "-p1", "-s", "-d", tmp, "-i", patch], capture_output=True, text=True)
            if r.returncode != 0:
                rep.notes.append("selftest: %s does not apply to the current tree (skipped)" % sid)
                continue
            repo2 = Repo(root=tmp, parse_gate=False)
            rep2 = Report(prop, "quick")
            try:
                mod.run(repo2, rep2, "quick")
                n = len(rep2.findings)
            except AnalysisError:
                n = 0
            (caught if n else missed).append(sid)
            if not n and expected:
                print("ANALYSIS-ERROR property=%s checker self-test: seeded change %s is no longer detected" % (prop, sid))
                return 2, extra
        finally:
            shutil.rmtree(tmp, ignore_errors=True)
    extra["selftest_seeds_caught"] = caught
    extra["selftest_seeds_not_caught_documented"] = missed
    if seeds:
        rep.notes.append("thorough: checker self-test on %d seeded change(s) of this property: %d detected" % (len(seeds), len(caught)))
    return 0, extra
