"""Thorough tier: on top of the quick rules
 (1) every identity decided by the polynomial normal form is re-decided by an independent method (40-digit evaluation of
     both extracted terms at pseudo-random points); a disagreement means the algebra engine is wrong -> ANALYSIS-ERROR;
 (2) the generic rules of the property (units, guards, effects, operator types, time arguments, reduction idioms) are
     applied to the whole package instead of the property's family;
 (3) checker self-test: every seeded change recorded for this property under /verif/seeded/<id>-*/patch.diff is applied
     to a scratch copy of the current tree (temporary directory, removed afterwards) and the quick rules must report a
     violation there; a seed that is no longer caught means the checker regressed -> ANALYSIS-ERROR.
Nothing here executes the library."""
import glob
import importlib
import os
import shutil
import subprocess
import tempfile

from . import poly, units, guards, effects
from .frontend import Repo, AnalysisError
from .report import Report, VERIF


def _patched_run(job):
    """apply one patch to a temporary copy of the analysed tree and run the property's quick rules there (worker process)"""
    prop, root, patch = job
    mod = importlib.import_module("pmv.props." + prop.lower())
    tmp = tempfile.mkdtemp(prefix="pmv_selftest_")
    try:
        shutil.copytree(os.path.join(root, "pymeeus"), os.path.join(tmp, "pymeeus"))
        r = subprocess.run(["patch", "-p1", "-s", "-d", tmp, "-i", patch], capture_output=True, text=True)
        if r.returncode != 0:
            return ("skip", None)
        repo2 = Repo(root=tmp, parse_gate=False)
        rep2 = Report(prop, "quick")
        try:
            mod.run(repo2, rep2, "quick")
        except AnalysisError as e:
            return ("analysis-error", str(e))
        except Exception as e:          # a crash of the checker on this tree
            return ("analysis-error", "%s: %s" % (type(e).__name__, e))
        return ("ok", sorted((f.rule, f.site, f.key) for f in rep2.findings))
    finally:
        shutil.rmtree(tmp, ignore_errors=True)


def _parallel(jobs):
    if not jobs:
        return []
    from concurrent.futures import ProcessPoolExecutor
    with ProcessPoolExecutor(max_workers=min(14, len(jobs))) as ex:
        return list(ex.map(_patched_run, jobs))


def run(prop, repo, rep):
    extra = {}
    # (1) second opinion on the algebra
    log = list(poly.EQUAL_LOG)
    bad = poly.crosscheck(log)
    extra["identities_crosschecked"] = len(log)
    extra["crosscheck_disagreements"] = len(bad)
    if bad:
        from . import terms as T
        for a, b, v, s in bad[:5]:
            print("ANALYSIS-ERROR property=%s algebra engine disagrees with numeric cross-check: normal form says %s, evaluation says %s for %s == %s"
                  % (prop, v, s, T.show(a)[:80], T.show(b)[:80]))
        return 2, extra
    if log:
        rep.notes.append("thorough: %d identities re-decided by 40-digit evaluation at pseudo-random points, 0 disagreements" % len(log))
    # (2) package-wide generic rules
    allf = [(mn, q) for mn, q, fn in repo.all_functions(include_demo=False, include_nested=False)]
    units.check_functions(repo, rep, allf, prop_rule="R-UNITS(pkg)")
    units.check_optypes(repo, rep, allf, rule="R-OPTYPE(pkg)")
    guards.check_functions(repo, rep, allf, rule="R-GUARD(pkg)")
    effects.check_functions(repo, rep, allf, rule="R-EFFECT(pkg)")
    units.package_floor(repo, rep)
    extra["package_functions"] = len(allf)
    # (3) self-test on the seeded corpus of this property
    seeds = sorted(glob.glob(os.path.join(VERIF, "seeded", prop + "-*", "patch.diff")))
    caught, missed = [], []
    mod = importlib.import_module("pmv.props." + prop.lower())
    results = _parallel([(prop, repo.root, patch) for patch in seeds])
    for patch, (status, data) in zip(seeds, results):
        sid = os.path.basename(os.path.dirname(patch))
        meta_p = os.path.join(os.path.dirname(patch), "meta.json")
        expected = True
        if os.path.exists(meta_p):
            import json
            expected = json.load(open(meta_p)).get("caught_by_own_check", True)
        if status == "skip":
            rep.notes.append("selftest: %s does not apply to the current tree (skipped)" % sid)
            continue
        n = len(data) if status == "ok" else 0
        (caught if n else missed).append(sid)
        if not n and expected:
            print("ANALYSIS-ERROR property=%s checker self-test: seeded change %s is no longer detected" % (prop, sid))
            return 2, extra
    # (4) silence on the behaviour-preserving corpus: every /verif/benign/*/patch.diff (clean-up edits with an equivalence
    #     demonstration) is applied to a copy of the analysed tree; this property's check must not report anything it does not
    #     report on the tree itself.  Only done when the tree itself is free of new findings.
    base_keys = {(f.rule, f.site, f.key) for f in rep.findings}
    from .report import load_known
    known = {(k.get("rule"), k.get("site"), k.get("key")) for k in load_known() if k.get("property") == prop and k.get("status") == "known"}
    silent, skipped = [], []
    if not (base_keys - known):
        patches = sorted(glob.glob(os.path.join(VERIF, "benign", "*", "patch.diff")))
        results = _parallel([(prop, repo.root, patch) for patch in patches])
        for patch, (status, data) in zip(patches, results):
            bid = os.path.basename(os.path.dirname(patch))
            if status == "skip":
                skipped.append(bid)
                continue
            if status == "analysis-error":
                print("ANALYSIS-ERROR property=%s checker self-test: behaviour-preserving change set %s breaks the analysis: %s" % (prop, bid, data))
                return 2, extra
            new = {tuple(x) for x in data} - base_keys
            exp_p = os.path.join(os.path.dirname(patch), "expected_findings.json")
            if new and os.path.exists(exp_p):
                import json
                tolerated = {tuple(x[1:]) for x in json.load(open(exp_p)).get("findings", []) if x and x[0] == prop}
                if new & tolerated:
                    rep.notes.append("thorough: %s: %d documented false alarm(s) left standing (see %s)" % (bid, len(new & tolerated), os.path.relpath(exp_p, VERIF)))
                new -= tolerated
            if new:
                print("ANALYSIS-ERROR property=%s checker self-test: false alarm on the behaviour-preserving change set %s: %s"
                      % (prop, bid, sorted(new)[0]))
                return 2, extra
            silent.append(bid)
        rep.notes.append("thorough: silent on %d behaviour-preserving change set(s)%s" % (len(silent), (", %d not applicable to this tree" % len(skipped)) if skipped else ""))
    extra["selftest_benign_silent"] = silent
    extra["selftest_seeds_caught"] = caught
    extra["selftest_seeds_not_caught_documented"] = missed
    if seeds:
        rep.notes.append("thorough: checker self-test on %d seeded change(s) of this property: %d detected" % (len(seeds), len(caught)))
    return 0, extra
