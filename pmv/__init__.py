"""pmv - static analysis of /repo/pymeeus for properties C01..C20.

Nothing in this package imports or executes pymeeus: every verdict is derived from
the source text of /repo/pymeeus/*.py (ast, CFG, symbolic terms, literal tables).
"""
