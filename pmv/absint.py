"""E3 abstract interpreter: types, units (deg / rad / ratio) and Angle range
(POS = normalised by to_positive) for every function of the package, flow
sensitive, with function-return and class-field summaries iterated to a fixpoint.

Only *definite* facts produce events: an unknown value (top) never does.  Events:
  units      a trig/inverse-trig/conversion sink receives a value that is
             definitely in the wrong unit (the offending definition is named)
  unguarded  attribute access / method call on a parameter that no isinstance
             guard (nor a validating callee) has established a type for
  trigsite   bookkeeping: a sin/cos/tan call whose argument is definitely radians
The analysis never imports or runs the library.
"""
import ast
import copy

from .frontend import AnalysisError, norm_text, body_without_docstring

TRIG = {"sin", "cos", "tan"}
ITRIG = {"asin", "acos", "atan", "atan2"}
NUMT = {"int", "float"}
MUTATING_ANGLE_METHODS = {"set", "set_radians", "set_ra", "set_tolerance", "to_positive"}

ANGLE_METHODS_RET = {
    "rad": "rad", "get_ra": "num", "get_tolerance": "num", "dms_str": "str", "ra_str": "str",
    "dms_tuple": "tuple", "ra_tuple": "tuple", "to_positive": "angle+",
}


class V:
    """abstract value"""
    __slots__ = ("atoms", "const", "elems", "origin", "strs")

    def __init__(self, atoms, const=None, elems=None, origin=None, strs=None):
        self.atoms = frozenset(atoms if not isinstance(atoms, str) else [atoms])
        self.const = const
        self.elems = elems
        self.origin = origin   # text of a defining expression (for reports)
        self.strs = strs       # finite set of possible string values (None = unknown)

    def join(self, o):
        if o is None:
            return self
        if self is o:
            return self
        elems = None
        if self.elems is not None and o.elems is not None and len(self.elems) == len(o.elems):
            elems = tuple(a.join(b) for a, b in zip(self.elems, o.elems))
        strs = (self.strs | o.strs) if (self.strs is not None and o.strs is not None) else None
        return V(self.atoms | o.atoms, self.const if self.const == o.const else None, elems,
                 self.origin if self.origin == o.origin else (self.origin or o.origin), strs)

    def only(self, *names):
        return bool(self.atoms) and self.atoms <= set(names)

    def has(self, *names):
        return bool(self.atoms & set(names))

    def __eq__(self, o):
        return isinstance(o, V) and self.atoms == o.atoms and self.const == o.const and self.elems == o.elems \
            and self.strs == o.strs

    def __hash__(self):
        return hash((self.atoms, self.const))

    def __repr__(self):
        return "V(%s%s)" % ("|".join(sorted(self.atoms)), "" if self.const is None else "=%r" % (self.const,))


TOP = V("top")
NUM = V("num")
PARAM = V("param")


def is_angle(v):
    return v.only("angle", "angle+")


class Event:
    def __init__(self, kind, mod, qual, node, msg, key):
        self.kind, self.mod, self.qual, self.node, self.msg, self.key = kind, mod, qual, node, msg, key

    @property
    def site(self):
        return "%s.%s" % (self.mod, self.qual)


class Analysis:
    def __init__(self, repo):
        self.repo = repo
        self.ret = {}        # "Mod.qual" -> V
        self.fields = {}     # ("Mod.Class", field) -> V
        self.events = []
        self.trig_sites = 0
        self.trig_rad = 0
        self.angle_ctor = 0
        self.attr_uses = 0
        self.attr_guarded = 0
        self.functions = 0
        self.validators = {}  # "Mod.qual" -> set of param indexes validated (returns only if typed)
        self.trig_by_func = {}
        self.attr_by_func = {}
        self._run()

    # ------------------------------------------------------------------ driver
    def new_private_helper(self, tgt):
        """FunctionDef if tgt is a private (underscore) function that is not in the frozen inventory of known functions"""
        from .symx import inventory
        mod, _, qual = tgt.partition(".")
        m = self.repo.modules.get(mod)
        if m is None or qual not in m.functions:
            return None
        last = qual.split(".")[-1]
        if not last.startswith("_") or last.startswith("__"):
            return None
        inv = inventory().get(mod)
        if inv is not None and qual in inv["functions"]:
            return None
        return m.functions[qual]

    def _run(self):
        funcs = list(self.repo.all_functions(include_demo=False, include_nested=False))
        # private helpers introduced by a refactoring are not entry points: they are analysed at their call sites
        funcs = [(mn, q, fn) for mn, q, fn in funcs if self.new_private_helper("%s.%s" % (mn, q)) is None]
        for it in range(4):
            before = (dict(self.ret), dict(self.fields))
            self.events = []
            self.wrap_sites = 0
            self.trig_by_func = {}
            self.attr_by_func = {}
            self.trig_sites = self.trig_rad = self.angle_ctor = self.attr_uses = self.attr_guarded = 0
            for mn, q, fn in funcs:
                FuncAnalysis(self, mn, q, fn).run()
            if before == (self.ret, self.fields):
                break
        self.functions = len(funcs)

    def events_for(self, kind, sites=None):
        out = []
        for e in self.events:
            if e.kind != kind:
                continue
            if sites is not None and e.site not in sites and not any(e.site.startswith(s + ".<locals>") for s in sites):
                continue
            out.append(e)
        return out


_CACHE = {}


def analysis_for(repo):
    k = repo.digest()
    if k not in _CACHE:
        _CACHE.clear()
        _CACHE[k] = Analysis(repo)
    return _CACHE[k]


class Terminated(Exception):
    pass


class FuncAnalysis:
    def __init__(self, an, mod, qual, fn, outer_env=None):
        self.an, self.mod, self.qual, self.fn = an, mod, qual, fn
        self.m = an.repo.mod(mod)
        parts = qual.split(".")
        self.cls = parts[0] if parts[0] in self.m.classes else None
        self.retv = None
        self.outer_env = outer_env
        self.closures = {}
        self.param_at_exit = {}
        self.params = []
        self.stable_params = []
        self._env = None

    def key(self):
        return "%s.%s" % (self.mod, self.qual)

    def event(self, kind, node, msg, keytext):
        self.an.events.append(Event(kind, self.mod, self.qual, node, msg, keytext))

    def run(self, actuals=None):
        env = dict(self.outer_env) if self.outer_env else {}
        a = self.fn.args
        params = [x.arg for x in a.posonlyargs + a.args + a.kwonlyargs]
        self.params = params
        assigned = set()
        for n in ast.walk(self.fn):
            if isinstance(n, ast.Name) and isinstance(n.ctx, ast.Store):
                assigned.add(n.id)
        self.stable_params = [p for p in params if p not in assigned]
        if a.vararg and a.vararg.arg not in assigned:
            self.stable_params.append(a.vararg.arg)
        is_method = self.cls is not None and "<locals>" not in self.qual
        static = any(isinstance(d, ast.Name) and d.id == "staticmethod" for d in self.fn.decorator_list)
        for i, p in enumerate(params):
            if is_method and not static and i == 0:
                env[p] = V("obj:%s.%s" % (self.mod, self.cls))
            else:
                env[p] = V("param", origin=p)
        # defaults give no type guarantee (caller may pass anything)
        if a.vararg:
            env[a.vararg.arg] = V("paramseq", origin=a.vararg.arg)
        if a.kwarg:
            env[a.kwarg.arg] = V("paramkw", origin=a.kwarg.arg)
        if actuals:
            for p_, v_ in actuals.items():
                if p_ == "*":
                    if a.vararg:          # f(a, b, c) to def f(*values): the element kinds are those of the actual arguments
                        env[a.vararg.arg] = V("tuple", elems=tuple(v_), origin=a.vararg.arg)
                    continue
                env[p_] = v_
            for p_, d_ in zip(params[len(params) - len(a.defaults):], a.defaults):
                if p_ not in actuals:
                    env[p_] = self.ev(d_, env)
        try:
            self.block(body_without_docstring(self.fn), env)
            # falls off the end
            self.add_ret(V("none"))
            self.note_exit(env)
        except Terminated:
            pass
        val = {}
        for i, p in enumerate(params):
            v = self.param_at_exit.get(p)
            if v is not None and not v.has("param", "top", "undef"):
                val[i] = v
        self.an.validators[self.key()] = val
        if self.retv is not None:
            old = self.an.ret.get(self.key())
            self.an.ret[self.key()] = self.retv if old is None else old.join(self.retv)
        return self.retv

    def add_ret(self, v):
        self.retv = v if self.retv is None else self.retv.join(v)

    def note_exit(self, env):
        for p in self.stable_params:
            v = env.get(p)
            if v is None:
                continue
            old = self.param_at_exit.get(p)
            self.param_at_exit[p] = v if old is None else old.join(v)

    # ------------------------------------------------------------------ statements
    def block(self, stmts, env):
        """Executes in place on env; raises Terminated if every path ends."""
        for s in stmts:
            self.stmt(s, env)

    def stmt(self, s, env):
        if isinstance(s, ast.Assign):
            v = self.ev(s.value, env)
            for t in s.targets:
                self.assign(t, v, env, s.value)
            # k = TABLE.get(p): remembered, so that a later `k is None` test says whether p is one of the table's (string) keys
            c_ = s.value
            if len(s.targets) == 1 and isinstance(s.targets[0], ast.Name) and isinstance(c_, ast.Call) and isinstance(c_.func, ast.Attribute) \
                    and c_.func.attr == "get" and len(c_.args) == 1 and isinstance(c_.args[0], ast.Name) and not c_.keywords:
                keys = self.string_members(c_.func.value)
                if keys is not None:
                    self.__dict__.setdefault("getmap", {})[s.targets[0].id] = (c_.args[0].id, keys)
        elif isinstance(s, ast.AnnAssign):
            if s.value is not None:
                self.assign(s.target, self.ev(s.value, env), env, s.value)
        elif isinstance(s, ast.AugAssign):
            cur = self.ev(s.target, env)
            v = self.binop(s.op, cur, self.ev(s.value, env), s)
            self.assign(s.target, v, env, s)
        elif isinstance(s, ast.Return):
            self.add_ret(self.ev(s.value, env) if s.value is not None else V("none"))
            self.note_exit(env)
            raise Terminated()
        elif isinstance(s, ast.Raise):
            if s.exc is not None:
                self.ev(s.exc, env)
            raise Terminated()
        elif isinstance(s, ast.If):
            self.ev(s.test, env)
            e1, e2 = dict(env), dict(env)
            self.refine(s.test, e1, True)
            self.refine(s.test, e2, False)
            t1 = t2 = False
            if "$dead" in e1:
                t1 = True
            else:
                try:
                    self.block(s.body, e1)
                except Terminated:
                    t1 = True
            if "$dead" in e2:
                t2 = True
            else:
                try:
                    self.block(s.orelse, e2)
                except Terminated:
                    t2 = True
            if t1 and t2:
                raise Terminated()
            if t1:
                env.clear(); env.update(e2)
            elif t2:
                env.clear(); env.update(e1)
            else:
                merged = {}
                str_chain = is_string_dispatch(s.test)
                for k in set(e1) | set(e2):
                    a, b = e1.get(k), e2.get(k)
                    if a is None or b is None:
                        # possibly-unassigned is only tracked for dispatch on a validated
                        # string (R-ENUM); numeric chains are outside this rule
                        merged[k] = (a or b).join(V("undef")) if str_chain else (a or b)
                    else:
                        merged[k] = a.join(b)
                env.clear(); env.update(merged)
        elif isinstance(s, (ast.For, ast.While)):
            if isinstance(s, ast.For):
                it = self.ev(s.iter, env)
                self.assign(s.target, self.elem_of(it), env, s.iter)
            else:
                self.ev(s.test, env)
            for _ in range(3):
                e = dict(env)
                if isinstance(s, ast.While):
                    self.refine(s.test, e, True)
                try:
                    self.block(s.body, e)
                except Terminated:
                    pass
                changed = False
                for k, v in e.items():
                    old = env.get(k)
                    nv = v if old is None else old.join(v)
                    if old is None or nv != old:
                        env[k] = nv
                        changed = True
                if not changed:
                    break
            if s.orelse:
                self.block(s.orelse, env)
            # validation loop: `for v in (a, b, c): if not isinstance(v, T): raise ...` types every listed name
            if isinstance(s, ast.For) and isinstance(s.target, ast.Name) and len(s.body) == 1 and isinstance(s.body[0], ast.If) \
                    and not s.body[0].orelse and s.body[0].body and isinstance(s.body[0].body[-1], ast.Raise):
                seq = self.name_tuple(s.iter)
                t_ = s.body[0].test
                if not seq and isinstance(s.iter, ast.Name) and s.iter.id in env and env[s.iter.id].elems is not None \
                        and isinstance(t_, ast.UnaryOp) and isinstance(t_.op, ast.Not) and isinstance(t_.operand, ast.Call) \
                        and isinstance(t_.operand.func, ast.Name) and t_.operand.func.id == "isinstance" and len(t_.operand.args) == 2 \
                        and isinstance(t_.operand.args[0], ast.Name) and t_.operand.args[0].id == s.target.id:
                    tys = self.type_atoms(t_.operand.args[1])
                    if tys is not None:      # for v in values: if not isinstance(v, T): raise   (values = the *args of a validator)
                        cur = env[s.iter.id]
                        env[s.iter.id] = V(cur.atoms, cur.const, tuple(V(tys, origin=e_.origin) for e_ in cur.elems), cur.origin)
                if seq and isinstance(t_, ast.UnaryOp) and isinstance(t_.op, ast.Not) and isinstance(t_.operand, ast.Call) \
                        and isinstance(t_.operand.func, ast.Name) and t_.operand.func.id == "isinstance" and len(t_.operand.args) == 2 \
                        and isinstance(t_.operand.args[0], ast.Name) and t_.operand.args[0].id == s.target.id:
                    tys = self.type_atoms(t_.operand.args[1])
                    if tys is not None:
                        for nm in seq:
                            cur = env.get(nm)
                            env[nm] = V(tys, origin=(cur.origin if cur else None))
            # table-driven validation: `for value, kind in ((a, Angle), (b, float)): if not isinstance(value, kind): raise`
            if isinstance(s, ast.For) and isinstance(s.target, ast.Tuple) and len(s.target.elts) == 2 and all(isinstance(e_, ast.Name) for e_ in s.target.elts) \
                    and len(s.body) == 1 and isinstance(s.body[0], ast.If) and not s.body[0].orelse and s.body[0].body \
                    and isinstance(s.body[0].body[-1], ast.Raise):
                t_ = s.body[0].test
                it_ = s.iter
                if isinstance(it_, ast.Name):
                    binds = [n for n in ast.walk(self.fn) if isinstance(n, ast.Assign) and len(n.targets) == 1
                             and isinstance(n.targets[0], ast.Name) and n.targets[0].id == it_.id]
                    it_ = binds[0].value if len(binds) == 1 else None
                if isinstance(it_, (ast.Tuple, ast.List)) and it_.elts and all(isinstance(e_, (ast.Tuple, ast.List)) and len(e_.elts) == 2
                                                                              and isinstance(e_.elts[0], ast.Name) for e_ in it_.elts) \
                        and isinstance(t_, ast.UnaryOp) and isinstance(t_.op, ast.Not) and isinstance(t_.operand, ast.Call) \
                        and isinstance(t_.operand.func, ast.Name) and t_.operand.func.id == "isinstance" and len(t_.operand.args) == 2 \
                        and all(isinstance(x_, ast.Name) for x_ in t_.operand.args) \
                        and [x_.id for x_ in t_.operand.args] == [e_.id for e_ in s.target.elts]:
                    for e_ in it_.elts:
                        tys = self.type_atoms(e_.elts[1])
                        if tys is not None:
                            cur = env.get(e_.elts[0].id)
                            env[e_.elts[0].id] = V(tys, origin=(cur.origin if cur else None))
        elif isinstance(s, ast.Expr):
            v = s.value
            if isinstance(v, ast.Call) and isinstance(v.func, ast.Attribute) and isinstance(v.func.value, ast.Name):
                recv = v.func.value.id
                if v.func.attr == "to_positive" and recv in env:
                    rv = self.ev(v, env)
                    if is_angle(env[recv]) or rv.only("angle+"):
                        env[recv] = V("angle+", origin=norm_text(v))
                    return
            self.ev(v, env)
        elif isinstance(s, ast.FunctionDef):
            self.closures[s.name] = s
            env[s.name] = V("closure:" + s.name)
        elif isinstance(s, ast.Try):
            e0 = dict(env)
            t_body = False
            try:
                self.block(s.body, env)
                if s.orelse:
                    self.block(s.orelse, env)
            except Terminated:
                t_body = True
            alive = not t_body
            acc = dict(env) if alive else None
            for h in s.handlers:
                eh = dict(e0)
                for k, v in env.items():
                    eh[k] = v.join(e0.get(k)) if k in e0 else v.join(V("undef"))
                if h.name:
                    eh[h.name] = TOP
                try:
                    self.block(h.body, eh)
                    if acc is None:
                        acc = eh
                    else:
                        for k in set(acc) | set(eh):
                            a, b = acc.get(k), eh.get(k)
                            acc[k] = a.join(b) if (a is not None and b is not None) else (a or b).join(V("undef"))
                    alive = True
                except Terminated:
                    pass
            if acc is not None:
                env.clear(); env.update(acc)
            if s.finalbody:
                self.block(s.finalbody, env)
            if not alive:
                raise Terminated()
        elif isinstance(s, ast.With):
            for it in s.items:
                self.ev(it.context_expr, env)
            self.block(s.body, env)
        elif isinstance(s, (ast.Pass, ast.Import, ast.ImportFrom, ast.Global, ast.Nonlocal, ast.Break, ast.Continue)):
            pass
        elif isinstance(s, ast.Assert):
            self.ev(s.test, env)
            self.refine(s.test, env, True)
        elif isinstance(s, ast.Delete):
            pass
        else:
            raise AnalysisError("absint: unsupported statement %s in %s" % (type(s).__name__, self.key()))

    def elem_of(self, it):
        if it.elems:
            r = None
            for e in it.elems:
                r = e if r is None else r.join(e)
            return r
        if it.has("range"):
            return V("num", origin="range index")
        if it.has("paramseq", "param"):
            return V("param")
        return TOP

    def assign(self, target, v, env, src=None):
        if isinstance(target, ast.Name):
            if v.origin is None and src is not None:
                v = V(v.atoms, v.const, v.elems, norm_text(src)[:80])
            env[target.id] = v
        elif isinstance(target, (ast.Tuple, ast.List)):
            n = len(target.elts)
            for i, e in enumerate(target.elts):
                if v.elems is not None and len(v.elems) == n:
                    self.assign(e, v.elems[i], env, src)
                elif v.has("param", "paramseq") :
                    self.assign(e, V("param"), env, src)
                else:
                    self.assign(e, TOP, env, src)
        elif isinstance(target, ast.Attribute):
            self.ev(target.value, env)
            if isinstance(target.value, ast.Name) and target.value.id == "self" and self.cls:
                k = ("%s.%s" % (self.mod, self.cls), target.attr)
                old = self.an.fields.get(k)
                nv = strip_param(v)
                self.an.fields[k] = nv if old is None else old.join(nv)
        elif isinstance(target, ast.Subscript):
            self.ev(target.value, env)
            self.ev(target.slice, env)
            if isinstance(target.value, ast.Name) and target.value.id in env:
                cur = env[target.value.id]
                env[target.value.id] = V(cur.atoms, None, None, cur.origin)
        elif isinstance(target, ast.Starred):
            self.assign(target.value, TOP, env, src)

    def string_members(self, node):
        """the finite set of strings a membership test against `node` admits: a literal tuple / list / set / dict of string constants
        (keys for a dict), in place or as a module-level name (frozenset(...) / set(...) / tuple(...) of such a literal too)"""
        if isinstance(node, ast.Name):
            g = self.m.globals.get(node.id) if node.id not in {a.arg for a in self.fn.args.args} else None
            return self.string_members(g) if g is not None else None
        if isinstance(node, ast.Call) and isinstance(node.func, ast.Name) and node.func.id in ("frozenset", "set", "tuple", "list") and len(node.args) == 1:
            return self.string_members(node.args[0])
        if isinstance(node, ast.Dict):
            elts = node.keys
        elif isinstance(node, (ast.Tuple, ast.List, ast.Set)):
            elts = node.elts
        else:
            return None
        if elts and all(isinstance(e, ast.Constant) and isinstance(e.value, str) for e in elts):
            return frozenset(e.value for e in elts)
        return None

    # ------------------------------------------------------------------ refinement
    def refine(self, test, env, truth):
        if isinstance(test, ast.UnaryOp) and isinstance(test.op, ast.Not):
            return self.refine(test.operand, env, not truth)
        if isinstance(test, ast.Compare) and len(test.ops) == 1 and isinstance(test.left, ast.Name):
            op = test.ops[0]
            # p in TABLE / p not in TABLE with a finite table of strings
            if isinstance(op, (ast.In, ast.NotIn)) and test.left.id in env:
                keys = self.string_members(test.comparators[0])
                if keys is not None and (isinstance(op, ast.In) == truth):
                    cur = env[test.left.id]
                    ns = keys if cur.strs is None else (cur.strs & keys)
                    if not ns:
                        env["$dead"] = V("dead")
                    env[test.left.id] = V(cur.atoms, cur.const, None, cur.origin, ns)
                    return
            # k is None / k is not None / k == None / k != None after k = TABLE.get(p)
            gm = self.__dict__.get("getmap", {})
            if isinstance(op, (ast.Is, ast.IsNot, ast.Eq, ast.NotEq)) and test.left.id in gm and isinstance(test.comparators[0], ast.Constant) \
                    and test.comparators[0].value is None:
                p_, keys = gm[test.left.id]
                is_none = isinstance(op, (ast.Is, ast.Eq)) == truth
                if not is_none and p_ in env:
                    cur = env[p_]
                    ns = keys if cur.strs is None else (cur.strs & keys)
                    if not ns:
                        env["$dead"] = V("dead")
                    env[p_] = V(cur.atoms, cur.const, None, cur.origin, ns)
                return
        if isinstance(test, ast.Call) and isinstance(test.func, ast.Name) and not test.keywords \
                and not any(isinstance(a_, ast.Starred) for a_ in test.args) and getattr(self, "_pred_depth", 0) < 3:
            # predicate helper introduced by a refactoring: `def _all_angles(*values): return all(isinstance(v, Angle) for v in values)`
            # - its returned expression is read with the actual arguments in place of the parameters
            hf = self.an.new_private_helper("%s.%s" % (self.mod, test.func.id))
            if hf is not None:
                body = body_without_docstring(hf)
                if len(body) == 1 and isinstance(body[0], ast.Return) and body[0].value is not None and not hf.args.kwonlyargs and hf.args.kwarg is None:
                    names = [a_.arg for a_ in hf.args.posonlyargs + hf.args.args]
                    if len(test.args) >= len(names) and (hf.args.vararg is not None or len(test.args) == len(names)):
                        mp = dict(zip(names, test.args))
                        if hf.args.vararg is not None:
                            mp[hf.args.vararg.arg] = ast.Tuple(elts=list(test.args[len(names):]), ctx=ast.Load())

                        class Sub(ast.NodeTransformer):
                            def visit_Name(self_, n_):
                                return copy.deepcopy(mp[n_.id]) if (isinstance(n_.ctx, ast.Load) and n_.id in mp) else n_
                        new = Sub().visit(copy.deepcopy(body[0].value))
                        ast.fix_missing_locations(ast.copy_location(new, test))
                        self._pred_depth = getattr(self, "_pred_depth", 0) + 1
                        try:
                            return self.refine(new, env, truth)
                        finally:
                            self._pred_depth -= 1
        if isinstance(test, ast.BoolOp):
            if (isinstance(test.op, ast.And) and truth) or (isinstance(test.op, ast.Or) and not truth):
                for v in test.values:
                    self.refine(v, env, truth)
            else:
                # disjunction known true (or conjunction known false): join of the alternatives
                alts = []
                for v in test.values:
                    e = dict(env)
                    self.refine(v, e, truth)
                    alts.append(e)
                for k in list(env):
                    vals = [e.get(k) for e in alts]
                    if all(x is not None and x is not env[k] for x in vals):
                        r = vals[0]
                        for x in vals[1:]:
                            r = r.join(x)
                        env[k] = r
                for k in set().union(*[set(e) for e in alts]) - set(env):
                    vals = [e.get(k) for e in alts]
                    if all(x is not None for x in vals):
                        r = vals[0]
                        for x in vals[1:]:
                            r = r.join(x)
                        env[k] = r
            return
        if isinstance(test, ast.Compare) and len(test.ops) == 1 and isinstance(test.ops[0], (ast.Eq, ast.NotEq)) \
                and isinstance(test.left, ast.Name) and isinstance(test.comparators[0], ast.Constant) \
                and isinstance(test.comparators[0].value, str):
            k, lit = test.left.id, test.comparators[0].value
            cur = env.get(k)
            if cur is None:
                return
            eq = isinstance(test.ops[0], ast.Eq) == truth
            if eq:
                if cur.strs is not None and lit not in cur.strs:
                    env["$dead"] = V("dead")
                env[k] = V("str", const=lit, origin=cur.origin, strs=frozenset([lit]))
            elif cur.strs is not None:
                ns = cur.strs - {lit}
                if not ns:
                    env["$dead"] = V("dead")
                env[k] = V(cur.atoms, cur.const, None, cur.origin, ns)
            return
        if isinstance(test, ast.Call) and isinstance(test.func, ast.Name) and test.func.id == "all" and len(test.args) == 1 \
                and isinstance(test.args[0], (ast.GeneratorExp, ast.ListComp)) and len(test.args[0].generators) == 2 and truth:
            # all(isinstance(v, T) for row in ((a, b), (c, d)) for v in row): every name of the nested literal is typed
            g0, g1 = test.args[0].generators
            elt = test.args[0].elt
            rows = g0.iter
            if isinstance(rows, ast.Name):
                binds = [n for n in ast.walk(self.fn) if isinstance(n, ast.Assign) and len(n.targets) == 1
                         and isinstance(n.targets[0], ast.Name) and n.targets[0].id == rows.id]
                rows = binds[0].value if len(binds) == 1 else None
            if isinstance(rows, (ast.Tuple, ast.List)) and rows.elts and all(isinstance(r_, (ast.Tuple, ast.List)) and r_.elts
                                                                            and all(isinstance(e_, ast.Name) for e_ in r_.elts) for r_ in rows.elts) \
                    and not g0.ifs and not g1.ifs and isinstance(g0.target, ast.Name) and isinstance(g1.target, ast.Name) \
                    and isinstance(g1.iter, ast.Name) and g1.iter.id == g0.target.id and isinstance(elt, ast.Call) \
                    and isinstance(elt.func, ast.Name) and elt.func.id == "isinstance" and len(elt.args) == 2 \
                    and isinstance(elt.args[0], ast.Name) and elt.args[0].id == g1.target.id:
                tys = self.type_atoms(elt.args[1])
                if tys is not None:
                    for r_ in rows.elts:
                        for e_ in r_.elts:
                            cur = env.get(e_.id)
                            env[e_.id] = V(tys, origin=(cur.origin if cur else None))
                    if isinstance(g0.iter, ast.Name) and g0.iter.id in env:
                        cur = env[g0.iter.id]
                        env[g0.iter.id] = V(cur.atoms, cur.const, tuple(V("tuple", elems=tuple(env[e_.id] for e_ in r_.elts)) for r_ in rows.elts), cur.origin)
            return
        if isinstance(test, ast.Call) and isinstance(test.func, ast.Name) and test.func.id == "all" and len(test.args) == 1 \
                and isinstance(test.args[0], (ast.GeneratorExp, ast.ListComp)) and len(test.args[0].generators) == 1 and truth:
            # all(isinstance(x, T) for x in (a, b, c))  - also through a local name bound once to such a tuple
            g = test.args[0].generators[0]
            elt = test.args[0].elt
            seq = self.name_tuple(g.iter)
            if not seq and isinstance(g.iter, ast.Name) and g.iter.id in env and env[g.iter.id].elems is not None and not g.ifs \
                    and isinstance(g.target, ast.Name) and isinstance(elt, ast.Call) and isinstance(elt.func, ast.Name) \
                    and elt.func.id == "isinstance" and len(elt.args) == 2 and isinstance(elt.args[0], ast.Name) and elt.args[0].id == g.target.id:
                tys = self.type_atoms(elt.args[1])
                if tys is not None:
                    cur = env[g.iter.id]
                    env[g.iter.id] = V(cur.atoms, cur.const, tuple(V(tys, origin=e_.origin) for e_ in cur.elems), cur.origin)
                return
            if seq and not g.ifs and isinstance(g.target, ast.Name) and isinstance(elt, ast.Call) and isinstance(elt.func, ast.Name) \
                    and elt.func.id == "isinstance" and len(elt.args) == 2 and isinstance(elt.args[0], ast.Name) and elt.args[0].id == g.target.id:
                tys = self.type_atoms(elt.args[1])
                if tys is not None:
                    for nm in seq:
                        cur = env.get(nm)
                        env[nm] = V(tys, origin=(cur.origin if cur else None))
                    if isinstance(g.iter, ast.Name) and g.iter.id in env and env[g.iter.id].elems is not None \
                            and len(env[g.iter.id].elems) == len(seq):
                        cur = env[g.iter.id]       # the tuple the names were collected in carries the refined kinds too
                        env[g.iter.id] = V(cur.atoms, cur.const, tuple(env[nm] for nm in seq), cur.origin)
            return
        if isinstance(test, ast.Call) and isinstance(test.func, ast.Name) and test.func.id == "isinstance" \
                and len(test.args) == 2:
            k = self.refkey(test.args[0])
            if k is None:
                return
            tys = self.type_atoms(test.args[1])
            if tys is None:
                return
            cur = env.get(k)
            if truth:
                env[k] = V(tys, origin=(cur.origin if cur else None))
            else:
                if cur is not None:
                    rest = set(cur.atoms) - set(tys)
                    if "num" in tys:
                        rest -= {"deg", "rad", "ratio"}
                    if "angle" in tys:
                        rest -= {"angle+"}
                    if rest and rest != set(cur.atoms):
                        env[k] = V(rest, origin=cur.origin)
            return

    def name_tuple(self, node):
        """names of a tuple/list of plain names, given literally or through a local bound exactly once to such a literal"""
        if isinstance(node, (ast.Tuple, ast.List)) and node.elts and all(isinstance(e, ast.Name) for e in node.elts):
            return [e.id for e in node.elts]
        if isinstance(node, ast.Name):
            binds = [n for n in ast.walk(self.fn) if isinstance(n, ast.Assign) and len(n.targets) == 1
                     and isinstance(n.targets[0], ast.Name) and n.targets[0].id == node.id]
            if len(binds) == 1:
                return self.name_tuple(binds[0].value) if not isinstance(binds[0].value, ast.Name) else None
        return None

    def refkey(self, node):
        if isinstance(node, ast.Name):
            return node.id
        if isinstance(node, ast.Subscript) and isinstance(node.value, ast.Name) and isinstance(node.slice, ast.Constant):
            return "%s[%r]" % (node.value.id, node.slice.value)
        if isinstance(node, ast.Attribute) and isinstance(node.value, ast.Name):
            return "%s.%s" % (node.value.id, node.attr)
        return None

    def type_atoms(self, node):
        names = []
        if isinstance(node, ast.Tuple):
            for e in node.elts:
                n = self.type_name(e)
                if n is None:
                    return None
                names.append(n)
        else:
            n = self.type_name(node)
            if n is None:
                return None
            names.append(n)
        out = set()
        for n in names:
            if n in ("int", "float"):
                out.add("num")
            elif n == "Angle":
                out.add("angle")
            elif n == "Epoch":
                out.add("epoch")
            elif n in ("list",):
                out.add("list")
            elif n == "tuple":
                out.add("tuple")
            elif n == "str":
                out.add("str")
            elif n == "bool":
                out.add("bool")
            else:
                out.add("obj:" + n)
        return out

    def type_name(self, e):
        if isinstance(e, ast.Name):
            return e.id
        if isinstance(e, ast.Attribute):
            return norm_text(e)
        return None

    # ------------------------------------------------------------------ expressions
    def ev(self, node, env):
        if node is None:
            return V("none")
        if isinstance(node, ast.Constant):
            v = node.value
            if isinstance(v, bool):
                return V("bool", const=v)
            if isinstance(v, (int, float)):
                return V("lit", const=v)
            if isinstance(v, str):
                return V("str", const=v)
            if v is None:
                return V("none")
            return TOP
        if isinstance(node, ast.Name):
            if node.id in env:
                v = env[node.id]
                if v.has("undef") and isinstance(node.ctx, ast.Load):
                    self.event("undef", node, "variable `%s` may be unassigned here: it is assigned only on some branches of an "
                               "if/elif chain without else that does not cover every admitted value" % node.id,
                               "undef:" + node.id)
                return v
            return self.global_name(node.id)
        if isinstance(node, ast.BinOp):
            lv, rv = self.ev(node.left, env), self.ev(node.right, env)
            self.angle_wrap(node, lv)
            return self.binop(node.op, lv, rv, node)
        if isinstance(node, ast.UnaryOp):
            v = self.ev(node.operand, env)
            if isinstance(node.op, ast.USub):
                if v.only("lit") and v.const is not None:
                    return V("lit", const=-v.const)
                if v.only("angle+"):
                    return V("angle")
                return V(v.atoms - {"angle+"} | ({"angle"} if "angle+" in v.atoms else set()), origin=v.origin) if v.atoms else v
            if isinstance(node.op, ast.Not):
                return V("bool")
            return v
        if isinstance(node, ast.BoolOp):
            r = None
            for x in node.values:
                vx = self.ev(x, env)
                r = vx if r is None else r.join(vx)
            return r
        if isinstance(node, ast.Compare):
            self.ev(node.left, env)
            for c in node.comparators:
                self.ev(c, env)
            return V("bool")
        if isinstance(node, ast.IfExp):
            self.ev(node.test, env)
            e1, e2 = dict(env), dict(env)
            self.refine(node.test, e1, True)
            self.refine(node.test, e2, False)
            return self.ev(node.body, e1).join(self.ev(node.orelse, e2))
        if isinstance(node, (ast.Tuple, ast.List)):
            el = tuple(self.ev(e, env) for e in node.elts)
            return V("tuple" if isinstance(node, ast.Tuple) else "list", elems=el)
        if isinstance(node, ast.Dict):
            for k, v in zip(node.keys, node.values):
                if k is not None:
                    self.ev(k, env)
                self.ev(v, env)
            return V("dict")
        if isinstance(node, ast.Subscript):
            k = self.refkey(node)
            base = self.ev(node.value, env)
            if not isinstance(node.slice, ast.Slice):
                idx = self.ev(node.slice, env)
            else:
                for x in (node.slice.lower, node.slice.upper, node.slice.step):
                    if x is not None:
                        self.ev(x, env)
                return V(base.atoms - {"lit"}, origin=base.origin) if base.atoms else base
            if k is not None and k in env:
                return env[k]
            if base.elems is not None and idx.const is not None and isinstance(idx.const, int) \
                    and -len(base.elems) <= idx.const < len(base.elems):
                return base.elems[idx.const]
            if base.elems:
                return self.elem_of(base)
            if base.has("paramseq", "paramkw", "param"):
                return V("param", origin=norm_text(node))
            return TOP
        if isinstance(node, ast.Attribute):
            return self.attribute(node, env)
        if isinstance(node, ast.Call):
            return self.call(node, env)
        if isinstance(node, (ast.ListComp, ast.GeneratorExp, ast.SetComp)):
            e = dict(env)
            for g in node.generators:
                it = self.ev(g.iter, e)
                self.assign(g.target, self.elem_of(it), e, g.iter)
                for c in g.ifs:
                    self.ev(c, e)
            el = self.ev(node.elt, e)
            return V("list", elems=None, origin=None) if False else ListOf(el)
        if isinstance(node, ast.Lambda):
            return V("callable")
        if isinstance(node, ast.JoinedStr):
            return V("str")
        if isinstance(node, ast.Starred):
            return self.ev(node.value, env)
        return TOP

    def angle_wrap(self, node, lv):
        """R-ANGLE-WRAP: `E - 360*round(E/360)` (reduction to (-180, 180]) on an Angle-typed E is
        the identity, because Angle arithmetic already wraps modulo 360"""
        if not isinstance(node.op, ast.Sub):
            return
        r = node.right
        # R-WRAP-SELF: the idiom  E - 360*round(E'/360)  reduces E only if E' is E itself
        if isinstance(r, ast.BinOp) and isinstance(r.op, ast.Mult):
            ps = [r.left, r.right]
            cs = [p_ for p_ in ps if isinstance(p_, ast.Constant) and p_.value in (360, 360.0)]
            cl = [p_ for p_ in ps if isinstance(p_, ast.Call) and isinstance(p_.func, ast.Name) and p_.func.id == "round" and p_.args]
            if len(cs) == 1 and len(cl) == 1:
                a = cl[0].args[0]
                if isinstance(a, ast.BinOp) and isinstance(a.op, ast.Div) and isinstance(a.right, ast.Constant) and a.right.value in (360, 360.0):
                    self.an.wrap_sites = getattr(self.an, "wrap_sites", 0) + 1
                    if norm_text(a.left) != norm_text(node.left):
                        self.event("wrapself", node,
                                   "`%s`: the number of turns is computed from `%s`, not from the value being reduced (`%s`), so that value is not "
                                   "brought into (-180, 180]" % (norm_text(node)[:70], norm_text(a.left)[:30], norm_text(node.left)[:30]),
                                   "wrapself:%s/%s" % (norm_text(node.left)[:30], norm_text(a.left)[:30]))
        if not is_angle(lv):
            return
        if not (isinstance(r, ast.BinOp) and isinstance(r.op, ast.Mult)):
            return
        parts = [r.left, r.right]
        consts = [p for p in parts if isinstance(p, ast.Constant) and p.value in (360, 360.0)]
        calls = [p for p in parts if isinstance(p, ast.Call) and isinstance(p.func, ast.Name) and p.func.id == "round"]
        if len(consts) == 1 and len(calls) == 1 and calls[0].args:
            a = calls[0].args[0]
            if isinstance(a, ast.BinOp) and isinstance(a.op, ast.Div) and norm_text(a.left) == norm_text(node.left) \
                    and isinstance(a.right, ast.Constant) and a.right.value in (360, 360.0):
                self.event("anglewrap", node,
                           "`%s` is applied to an Angle object: Angle arithmetic already wraps modulo 360 (sign kept), so the value is not "
                           "brought into (-180, 180] and differences close to +-360 degrees survive" % norm_text(node)[:70],
                           "anglewrap:" + norm_text(node.left)[:40])

    def global_name(self, name):
        m = self.m
        if name == "pi":
            return V("rad", origin="pi")
        if name in m.globals:
            g = m.globals[name]
            return self.global_value(m, g)
        if name in m.imports:
            src, orig = m.imports[name]
            if src and src.startswith("pymeeus."):
                sm = src.split(".", 1)[1]
                om = self.an.repo.modules.get(sm)
                if om and orig in om.globals:
                    return self.global_value(om, om.globals[orig])
                if om and orig in om.classes:
                    return V("class:%s.%s" % (sm, orig))
                if om and orig in om.functions:
                    return V("func:%s.%s" % (sm, orig))
            if src == "math" and orig == "pi":
                return V("rad", origin="pi")
            return V("ext:" + name)
        if name in m.classes:
            return V("class:%s.%s" % (m.name, name))
        if name in m.functions:
            return V("func:%s.%s" % (m.name, name))
        return V("ext:" + name)

    def global_value(self, m, g):
        if isinstance(g, ast.Constant) and isinstance(g.value, (int, float)):
            return V("lit", const=g.value)
        if isinstance(g, ast.Call) and isinstance(g.func, ast.Name):
            if g.func.id == "Epoch":
                return V("epoch")
            if g.func.id == "Angle":
                return V("angle")
            if g.func.id in m.classes:
                return V("obj:%s.%s" % (m.name, g.func.id))
        if isinstance(g, (ast.List, ast.Tuple)):
            return V("list" if isinstance(g, ast.List) else "tuple", origin="module table")
        if isinstance(g, ast.Dict):
            return V("dict")
        if isinstance(g, ast.BinOp):
            return V("lit")
        return TOP

    def attribute(self, node, env):
        k = self.refkey(node)
        base = self.ev(node.value, env)
        if k is not None and k in env:
            return env[k]
        self.attr_access(node, base, node.attr)
        if is_angle(base) and node.attr == "_deg":
            return V("deg", origin=norm_text(node))
        if base.only("epoch") and node.attr == "_jde":
            return NUM
        for a in base.atoms:
            if a.startswith("obj:"):
                f = self.an.fields.get((a[4:], node.attr))
                if f is not None:
                    return f
        if base.has("ext:datetime"):
            return TOP
        return TOP

    def attr_access(self, node, base, attr):
        """R-GUARD bookkeeping: attribute use on an unvalidated parameter."""
        ab = self.an.attr_by_func.setdefault(self.key().split(".<locals>")[0], [0, 0])
        if base.has("param"):
            self.an.attr_uses += 1
            ab[0] += 1
            self.event("unguarded", node,
                       "attribute `.%s` is used on parameter-derived value `%s` before any isinstance guard establishes its type"
                       % (attr, norm_text(node.value)), "%s.%s" % (norm_text(node.value), attr))
        elif base.origin is not None and (is_angle(base) or base.only("epoch") or any(a.startswith("obj:") for a in base.atoms)):
            self.an.attr_uses += 1
            self.an.attr_guarded += 1
            ab[0] += 1
            ab[1] += 1

    # ------------------------------------------------------------------ arithmetic
    def binop(self, op, a, b, node):
        k = type(op)
        if a.has("angle", "angle+") or b.has("angle", "angle+"):
            if is_angle(a) or is_angle(b):
                # Angle op x -> Angle (operator table of the class); POS only for POS + nonneg literal / POS + POS
                if k is ast.Add:
                    if a.only("angle+") and (b.only("angle+") or (b.only("lit") and b.const is not None and b.const >= 0)):
                        return V("angle+")
                    if b.only("angle+") and a.only("lit") and a.const is not None and a.const >= 0:
                        return V("angle+")
                return V("angle")
            return TOP
        if a.only("epoch") or b.only("epoch"):
            # operator table of class Epoch (read from Epoch.py; re-checked by C02's
            # R-OPCONF): __add__/__radd__/__iadd__ with a number, __sub__/__isub__ with a
            # number or an Epoch - nothing else
            other = b if a.only("epoch") else a
            bad = None
            if not (numeric(other) or other.only("epoch")):
                pass
            elif k not in (ast.Add, ast.Sub):
                bad = "class Epoch defines no `%s` operator" % OPSYM.get(k, k.__name__)
            elif k is ast.Add and a.only("epoch") and b.only("epoch"):
                bad = "Epoch + Epoch is rejected by Epoch.__add__"
            elif k is ast.Sub and b.only("epoch") and not a.only("epoch") and numeric(a):
                bad = "number - Epoch: class Epoch defines no __rsub__"
            if bad is not None and node is not None:
                self.event("optype", node, "this expression always raises TypeError: %s (operands: %s, %s)"
                           % (bad, describe(a), describe(b)), "epoch-op:" + norm_text(node)[:80])
            if k is ast.Sub and a.only("epoch") and b.only("epoch"):
                return V("num", origin="epoch difference (days)")
            if k in (ast.Add, ast.Sub) and a.only("epoch") and numeric(b):
                return V("epoch")
            if k is ast.Add and b.only("epoch") and numeric(a):
                return V("epoch")
            return TOP
        ua, ub = unit_of(a), unit_of(b)
        if a.only("lit") and b.only("lit") and a.const is not None and b.const is not None:
            try:
                c = {ast.Add: lambda: a.const + b.const, ast.Sub: lambda: a.const - b.const,
                     ast.Mult: lambda: a.const * b.const, ast.Div: lambda: a.const / b.const,
                     ast.Pow: lambda: a.const ** b.const, ast.Mod: lambda: a.const % b.const}.get(k, lambda: None)()
            except Exception:
                c = None
            return V("lit", const=c)
        if k in (ast.Add, ast.Sub):
            if ua and ub and ua == ub:
                return V(ua, origin=a.origin or b.origin)
            return NUM if (numeric(a) and numeric(b)) else TOP
        if k is ast.Mult:
            if ua == "ratio" and ub == "ratio":
                return V("ratio")
            if ua and small_int(b):
                return V(ua, origin=a.origin)
            if ub and small_int(a):
                return V(ub, origin=b.origin)
            return NUM if (numeric(a) and numeric(b)) else TOP
        if k is ast.Div:
            if ua == "ratio" and ub == "ratio":
                return V("ratio")
            if ua and small_int(b):
                return V(ua, origin=a.origin)
            return NUM if (numeric(a) and numeric(b)) else TOP
        if k is ast.Mod:
            if ua and b.only("lit"):
                return V(ua, origin=a.origin)
            return NUM if (numeric(a) and numeric(b)) else TOP
        if k is ast.Pow:
            return NUM if (numeric(a) and numeric(b)) else TOP
        return TOP

    # ------------------------------------------------------------------ calls
    def call(self, node, env):
        self._env = env
        f = node.func
        args = [self.ev(a, env) for a in node.args]
        kws = {k.arg: self.ev(k.value, env) for k in node.keywords}
        if isinstance(f, ast.Name):
            name = f.id
            if name in env and any(a.startswith("closure:") for a in env[name].atoms):
                return self.call_closure(name, node, args, env)
            if name in TRIG:
                self.trig_sink(node, name, args, env)
                return V("ratio", origin=norm_text(node)[:60])
            if name in ITRIG:
                self.itrig_sink(node, name, args)
                return V("rad", origin=norm_text(node)[:60])
            if name == "radians":
                self.conv_sink(node, name, args, {"rad", "ratio"})
                return V("rad", origin=norm_text(node)[:60])
            if name == "degrees":
                self.conv_sink(node, name, args, {"deg", "ratio", "angle", "angle+"})
                return V("deg", origin=norm_text(node)[:60])
            if name == "sqrt":
                if args and unit_of(args[0]) == "ratio":
                    return V("ratio", origin=norm_text(node)[:60])
                return NUM
            if name in ("abs", "fabs"):
                if args and is_angle(args[0]):
                    return V("angle+")
                if args and unit_of(args[0]):
                    return V(unit_of(args[0]), origin=args[0].origin)
                return NUM if args and numeric(args[0]) else TOP
            if name == "float":
                if args and is_angle(args[0]):
                    return V("deg", origin=norm_text(node))
                if args and unit_of(args[0]):
                    return V(unit_of(args[0]), origin=args[0].origin)
                return NUM
            if name in ("int", "round", "iint", "floor", "len", "copysign", "fsum", "sum", "max", "min", "ceil"):
                return NUM
            if name == "range":
                return V("range")
            if name == "enumerate":
                inner = self.elem_of(args[0]) if args else TOP
                return ListOf(V("tuple", elems=(V("num"), inner)))
            if name in ("list", "tuple", "sorted", "reversed"):
                if args:
                    return V(("list" if name != "tuple" else "tuple"), elems=args[0].elems)
                return V("list", elems=())
            if name == "isinstance":
                return V("bool")
            if name == "str":
                return V("str")
            if name == "Angle":
                return self.angle_ctor(node, args, kws)
            if name == "Epoch":
                return V("epoch")
            g = self.global_name(name)
            return self.call_global(g, node, args, kws)
        if isinstance(f, ast.Attribute):
            meth = f.attr
            # Class.static / module.func
            if isinstance(f.value, ast.Name) and f.value.id not in env:
                g = self.global_name(f.value.id)
                for a in g.atoms:
                    if a.startswith("class:"):
                        tgt = a[6:] + "." + meth
                        return self.ret_of(tgt, node, args)
                if g.has("ext:datetime") or any(x.startswith("ext:") for x in g.atoms):
                    return TOP
            recv = self.ev(f.value, env)
            self.attr_access(f, recv, meth)
            if is_angle(recv):
                if meth in ANGLE_METHODS_RET:
                    r = ANGLE_METHODS_RET[meth]
                    return V(r, origin=norm_text(node)[:60])
                return self.ret_of("Angle.Angle." + meth, node, args)
            if recv.has("angle", "angle+") and meth == "rad":
                pass
            if meth == "rad" and not node.args:
                if recv.atoms and recv.atoms <= {"deg", "rad", "ratio", "num", "lit"}:
                    self.event("units", node, "`.rad()` is called on a plain number (%s), not an Angle" % describe(recv),
                               "rad-on-number:" + norm_text(f.value))
                return V("rad", origin=norm_text(node)[:60])
            if recv.only("epoch"):
                if meth in ("jde", "mjd", "year", "doy", "mean_sidereal_time", "apparent_sidereal_time"):
                    return NUM
                return self.ret_of("Epoch.Epoch." + meth, node, args)
            for a in recv.atoms:
                if a.startswith("obj:"):
                    return self.ret_of(a[4:] + "." + meth, node, args)
            if meth in ("append", "extend", "insert", "sort", "reverse") and isinstance(f.value, ast.Name) and f.value.id in env:
                cur = env[f.value.id]
                if meth == "append" and args:
                    env[f.value.id] = ListOf(args[0].join(self.elem_of(cur)) if cur.elems else args[0])
                return V("none")
            if meth in ("keys", "values", "items"):
                return V("list")
            if meth == "get" and recv.has("paramkw"):
                return V("param")
            return TOP
        fv = self.ev(f, env)
        if is_angle(fv):
            return V("deg")
        return TOP

    def call_global(self, g, node, args, kws):
        for a in g.atoms:
            if a.startswith("func:"):
                return self.ret_of(a[5:], node, args)
            if a.startswith("class:"):
                cls = a[6:]
                if cls == "Angle.Angle":
                    return self.angle_ctor(node, args, kws)
                if cls == "Epoch.Epoch":
                    return V("epoch")
                return V("obj:" + cls)
        return TOP

    def ret_of(self, tgt, node, args):
        hf = self.an.new_private_helper(tgt)
        if hf is not None and getattr(self, "_depth", 0) < 3:
            # a private helper introduced by a refactoring: analysed in the context of this call (actual argument kinds)
            mod, _, qual = tgt.partition(".")
            sub = FuncAnalysis(self.an, mod, qual, hf)
            sub._depth = getattr(self, "_depth", 0) + 1
            names = [a.arg for a in hf.args.posonlyargs + hf.args.args]
            static = any(isinstance(d, ast.Name) and d.id in ("staticmethod", "classmethod") for d in hf.decorator_list)
            vals = list(args)
            if sub.cls is not None and not static and names and names[0] == "self":
                vals = [V("obj:%s.%s" % (mod, sub.cls))] + vals
            acts = dict(zip(names, vals))
            starred = any(isinstance(a_, ast.Starred) for a_ in node.args)
            if hf.args.vararg is not None and not starred and len(vals) >= len(names):
                acts["*"] = list(vals[len(names):])
            if any(isinstance(a_, ast.Starred) for a_ in node.args) or node.keywords:
                # positions are not known statically (f(*seq) / keywords): parameters without a definite actual are unknown, not
                # "unvalidated caller input"
                extra_ = acts.get("*")
                acts = {n_: (acts[n_] if (n_ in acts and not acts[n_].has("param", "paramseq")) else TOP) for n_ in names}
                if extra_ is not None and not starred:
                    acts["*"] = extra_
                for k_ in node.keywords:
                    if k_.arg in names:
                        acts[k_.arg] = self.ev(k_.value, self._env if self._env is not None else {})
            rv = sub.run(actuals=acts)
            # a helper that only returns when its arguments have certain types validates the caller's names too
            if self._env is not None:
                off = len(vals) - len(node.args)
                for i, a_ in enumerate(node.args):
                    if isinstance(a_, ast.Name) and a_.id in self._env and self._env[a_.id].has("param") and i + off < len(names):
                        v_ = sub.param_at_exit.get(names[i + off])
                        if v_ is not None and not v_.has("param", "top", "undef"):
                            self._env[a_.id] = V(v_.atoms, origin=a_.id)
                if hf.args.vararg is not None and not starred:
                    vx = sub.param_at_exit.get(hf.args.vararg.arg)
                    nfix = len(names) - off
                    if vx is not None and vx.elems is not None:
                        for j, a_ in enumerate(node.args[nfix:]):
                            if j < len(vx.elems) and isinstance(a_, ast.Name) and a_.id in self._env and self._env[a_.id].has("param") \
                                    and not vx.elems[j].has("param", "top", "undef"):
                                self._env[a_.id] = V(vx.elems[j].atoms, origin=a_.id)
            return rv
        val = self.an.validators.get(tgt)
        if val and self._env is not None:
            static = True
            for i, a in enumerate(node.args):
                if i in val and isinstance(a, ast.Name) and a.id in self._env and self._env[a.id].has("param"):
                    self._env[a.id] = V(val[i].atoms, origin=a.id)
        r = self.an.ret.get(tgt)
        if r is None:
            return TOP
        return strip_param(r)

    def call_closure(self, name, node, args, env):
        fn = self.closures.get(name)
        if fn is None:
            return TOP
        sub = FuncAnalysis(self.an, self.mod, self.qual + ".<locals>." + name, fn, outer_env=env)
        e = dict(env)
        for p, v in zip([a.arg for a in fn.args.args], args):
            e[p] = v
        sub.closures = self.closures
        try:
            sub.block(body_without_docstring(fn), e)
            sub.add_ret(V("none"))
        except Terminated:
            pass
        return sub.retv or TOP

    def angle_ctor(self, node, args, kws):
        self.an.angle_ctor += 1
        rad = None
        for k in node.keywords:
            if k.arg == "radians":
                rad = k.value
        if len(node.args) == 1:
            a = args[0]
            if rad is not None and isinstance(rad, ast.Constant) and rad.value is True:
                bad = a.atoms & {"deg", "ratio", "angle", "angle+"}
                if bad:
                    self.event("units", node,
                               "Angle(..., radians=True) receives a value that is %s (defined by `%s`), not radians"
                               % (describe(V(bad)), a.origin or norm_text(node.args[0])),
                               "angle-radians:%s:%s" % (sorted(bad)[0], a.origin or norm_text(node.args[0])))
            elif rad is None:
                if "rad" in a.atoms and not a.only("rad") is None and a.has("rad"):
                    if a.only("rad"):
                        self.event("units", node,
                                   "Angle(x) (degrees) receives a value that is definitely radians (defined by `%s`)"
                                   % (a.origin or norm_text(node.args[0])),
                                   "angle-deg-from-rad:" + (a.origin or norm_text(node.args[0])))
        return V("angle", origin=norm_text(node)[:60])

    # ------------------------------------------------------------------ sinks
    def trig_sink(self, node, name, args, env):
        if not args:
            return
        a = args[0]
        self.an.trig_sites += 1
        tb = self.an.trig_by_func.setdefault(self.key().split(".<locals>")[0], [0, 0])
        tb[0] += 1
        if a.only("rad"):
            self.an.trig_rad += 1
            tb[1] += 1
        bad = a.atoms & {"deg", "ratio", "angle", "angle+"}
        if bad:
            self.event("units", node,
                       "%s() receives a value that is %s (defined by `%s`); radians are required"
                       % (name, describe(V(bad)), a.origin or norm_text(node.args[0])),
                       "%s:%s:%s" % (name, sorted(bad)[0], norm_text(node.args[0])[:80]))

    def itrig_sink(self, node, name, args):
        for i, a in enumerate(args):
            bad = a.atoms & {"deg", "rad", "angle", "angle+"}
            if bad:
                self.event("units", node,
                           "%s() receives an angle-valued argument (%s, defined by `%s`); a ratio is required"
                           % (name, describe(V(bad)), a.origin or norm_text(node.args[i])),
                           "%s:%s:%s" % (name, sorted(bad)[0], norm_text(node.args[i])[:80]))

    def conv_sink(self, node, name, args, wrong):
        if not args:
            return
        a = args[0]
        bad = a.atoms & wrong
        if bad:
            self.event("units", node,
                       "%s() receives a value that is already %s (defined by `%s`)"
                       % (name, describe(V(bad)), a.origin or norm_text(node.args[0])),
                       "%s:%s:%s" % (name, sorted(bad)[0], norm_text(node.args[0])[:80]))


def is_string_dispatch(test):
    if isinstance(test, ast.BoolOp):
        return all(is_string_dispatch(v) for v in test.values)
    return isinstance(test, ast.Compare) and len(test.ops) == 1 and isinstance(test.ops[0], (ast.Eq, ast.NotEq)) \
        and isinstance(test.left, ast.Name) and isinstance(test.comparators[0], ast.Constant) \
        and isinstance(test.comparators[0].value, str)


OPSYM = {ast.Div: "/", ast.Mult: "*", ast.Mod: "%", ast.Pow: "**", ast.FloorDiv: "//"}


def ListOf(el):
    return HomList(el)


class HomList(V):
    """homogeneous list: elems unknown length, element abstract value `el`."""
    __slots__ = ("el",)

    def __init__(self, el):
        V.__init__(self, "list")
        self.el = el

    def join(self, o):
        if isinstance(o, HomList):
            return HomList(self.el.join(o.el))
        return V.join(self, o)


def _elem_of_patch(orig):
    def elem_of(self, it):
        if isinstance(it, HomList):
            return it.el
        return orig(self, it)
    return elem_of


FuncAnalysis.elem_of = _elem_of_patch(FuncAnalysis.elem_of)


def strip_param(v):
    """a callee's unvalidated parameter flowing back is just 'unknown' for the caller."""
    if v.has("param", "paramseq", "paramkw", "undef"):
        atoms = (set(v.atoms) - {"param", "paramseq", "paramkw", "undef"}) | {"top"}
        nv = V(atoms, v.const, tuple(strip_param(e) for e in v.elems) if v.elems else v.elems, v.origin)
        return nv
    if v.elems:
        return V(v.atoms, v.const, tuple(strip_param(e) for e in v.elems), v.origin)
    return v


def unit_of(v):
    for u in ("deg", "rad", "ratio"):
        if v.only(u):
            return u
    return None


def numeric(v):
    return bool(v.atoms) and v.atoms <= {"deg", "rad", "ratio", "num", "lit"}


def small_int(v):
    if not v.only("lit") or v.const is None:
        return False
    c = v.const
    return float(c).is_integer() and 1 <= abs(c) <= 12


def describe(v):
    names = {"deg": "in degrees", "rad": "in radians", "ratio": "a trig ratio (dimensionless)", "epoch": "an Epoch object",
             "angle": "an Angle object", "angle+": "an Angle object", "num": "a plain number", "lit": "a literal"}
    return " / ".join(names.get(a, a) for a in sorted(v.atoms))
