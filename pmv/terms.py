"""Term algebra shared by the symbolic evaluator (symx), the polynomial normal form
(poly) and the sibling comparison.  Terms are nested tuples:

  ('num', Fraction)            ('sym', name)          ('str', s)   ('none',)  ('bool', b)
  ('add', t...) ('mul', t...)  ('pow', base, exp)
  ('call', fname, t...)        ('attr', t, name)      ('idx', t, t)
  ('phi', cond, a, b)          ('cmp', op, a, b)      ('and', t...) ('or', t...) ('not', t)
  ('angle', deg)               ('epoch', jde)         ('tuple', t...) ('list', t...)
  ('loop', ...)                ('opaque', text)

add/mul are flattened, constants folded and operands sorted, so commutative and
associative rewrites of the source do not change the term.
"""
from fractions import Fraction

ZERO = ("num", Fraction(0))
ONE = ("num", Fraction(1))
PI = ("sym", "pi")
NONE = ("none",)


def num(v):
    if isinstance(v, Fraction):
        return ("num", v)
    if isinstance(v, bool):
        return ("bool", v)
    if isinstance(v, int):
        return ("num", Fraction(v))
    if isinstance(v, float):
        return ("num", Fraction(repr(v)))
    raise TypeError(v)


def sym(name):
    return ("sym", name)


def is_num(t):
    return t[0] == "num"


_KEYS = {}
_OKEYS = {}


def _digest(txt):
    import hashlib
    return hashlib.md5(txt.encode()).hexdigest()[:20]


def key(t):
    """injective identity key of a term (used to collect like terms / equal bases):
    short, memoised on object identity (digest of the children's keys)."""
    if not isinstance(t, tuple):
        return repr(t)
    k = _KEYS.get(id(t))
    if k is not None and k[0] is t:
        return k[1]
    if not t:
        r = "()"
    else:
        h = t[0]
        if h == "num":
            r = "n%s/%s" % (t[1].numerator, t[1].denominator)
        elif h == "sym":
            r = "s" + t[1]
        elif isinstance(h, str) and len(t) <= 2 and all(not isinstance(x, tuple) for x in t[1:]):
            r = repr(t)
        else:
            r = (h if isinstance(h, str) else "T") + ":" + _digest("|".join(key(x) for x in t))
    if len(_KEYS) > 2000000:
        _KEYS.clear()
    _KEYS[id(t)] = (t, r)
    return r


def okey(t):
    """ordering key: like key() but insensitive to loop identifiers and loop-variable
    names, so that copies of one loop nest order their operands alike; ties are broken
    by the injective key."""
    if not isinstance(t, tuple):
        return repr(t)
    k = _OKEYS.get(id(t))
    if k is not None and k[0] is t:
        return k[1]
    if not t:
        r = "()"
    else:
        h = t[0]
        if h == "num":
            r = "n%s/%s" % (t[1].numerator, t[1].denominator)
        elif h == "sym":
            r = "s" + t[1]
        elif h in ("lv", "lt") and len(t) == 3:
            r = h
        elif h == "loop" and len(t) == 5:
            r = "loop:" + _digest("|".join([okey(t[2])] + [okey(v) for _, v in t[3]] + [okey(v) for _, v in t[4]]))
        elif h == "loopout" and len(t) == 3:
            r = "lo:" + okey(t[2])
        elif h == "listcomp" and len(t) == 4:
            r = "lc:" + _digest(okey(t[2]) + "|" + okey(t[3]))
        elif isinstance(h, str) and len(t) <= 2 and all(not isinstance(x, tuple) for x in t[1:]):
            r = repr(t)
        else:
            r = (h if isinstance(h, str) else "T") + ":" + _digest("|".join(okey(x) for x in t))
    if len(_OKEYS) > 2000000:
        _OKEYS.clear()
    _OKEYS[id(t)] = (t, r)
    return r


def sortkey(t):
    return (okey(t), key(t))


def add(*ts):
    flat, const = [], Fraction(0)
    for t in ts:
        if t[0] == "add":
            sub = t[1:]
        else:
            sub = (t,)
        for s in sub:
            if s[0] == "num":
                const += s[1]
            else:
                flat.append(s)
    # collect like terms  c*x
    coeffs, order = {}, []
    for s in flat:
        c, rest = split_coeff(s)
        k = key(rest)
        if k not in coeffs:
            coeffs[k] = [Fraction(0), rest]
            order.append(k)
        coeffs[k][0] += c
    out = []
    for k in order:
        c, rest = coeffs[k]
        if c == 0:
            continue
        out.append(rest if c == 1 else _mul_raw(c, rest))
    out.sort(key=sortkey)
    if const != 0 or not out:
        out.append(("num", const))
    if len(out) == 1:
        return out[0]
    return ("add",) + tuple(out)


def split_coeff(t):
    """t == c * rest with c rational."""
    if t[0] == "mul" and t[1][0] == "num":
        rest = t[2:]
        if len(rest) == 1:
            return t[1][1], rest[0]
        return t[1][1], ("mul",) + rest
    return Fraction(1), t


def _mul_raw(c, rest):
    if rest[0] == "mul":
        return ("mul", ("num", c)) + rest[1:]
    return ("mul", ("num", c), rest)


def mul(*ts):
    flat, const = [], Fraction(1)
    for t in ts:
        sub = t[1:] if t[0] == "mul" else (t,)
        for s in sub:
            if s[0] == "num":
                const *= s[1]
            else:
                flat.append(s)
    if const == 0:
        return ZERO
    # combine equal bases into powers with numeric exponents
    bases, order = {}, []
    for s in flat:
        if s[0] == "pow" and s[2][0] == "num":
            b, e = s[1], s[2][1]
        else:
            b, e = s, Fraction(1)
        k = key(b)
        if k not in bases:
            bases[k] = [b, Fraction(0)]
            order.append(k)
        bases[k][1] += e
    out = []
    for k in order:
        b, e = bases[k]
        if e == 0:
            continue
        out.append(b if e == 1 else ("pow", b, ("num", e)))
    out.sort(key=sortkey)
    if not out:
        return ("num", const)
    if const != 1:
        out.insert(0, ("num", const))
    if len(out) == 1:
        return out[0]
    return ("mul",) + tuple(out)


def neg(t):
    return mul(("num", Fraction(-1)), t)


def sub(a, b):
    return add(a, neg(b))


def power(b, e):
    if e[0] == "num":
        if e[1] == 1:
            return b
        if e[1] == 0:
            return ONE
        if b[0] == "num" and e[1].denominator == 1 and abs(e[1]) <= 64:
            if b[1] == 0 and e[1] < 0:
                return ("pow", b, e)
            return ("num", b[1] ** int(e[1]))
        return mul(("pow", b, e))
    return ("pow", b, e)


def div(a, b):
    return mul(a, power(b, ("num", Fraction(-1))))


def call(name, *args):
    return ("call", name) + tuple(args)


def phi(c, a, b):
    if a == b:
        return a
    if c[0] == "not":
        return phi(c[1], b, a)         # canonical polarity: conditions of phi nodes are never negations
    if c == ("bool", True):
        return a
    if c == ("bool", False):
        return b
    return ("phi", c, a, b)


def lnot(c):
    if c[0] == "not":
        return c[1]
    if c[0] == "bool":
        return ("bool", not c[1])
    return ("not", c)


def land(*cs):
    out = []
    for c in cs:
        if c == ("bool", True):
            continue
        if c[0] == "and":
            out.extend(c[1:])
        else:
            out.append(c)
    if not out:
        return ("bool", True)
    if len(out) == 1:
        return out[0]
    return ("and",) + tuple(out)


def walk(t):
    """All distinct subterms (pre-order).  Terms are DAGs (shared subterms are the
    same object), so each object is visited once."""
    stack = [t]
    seen = set()
    while stack:
        x = stack.pop()
        if id(x) in seen or not x:
            continue
        seen.add(id(x))
        yield x
        if isinstance(x, tuple):
            kids = x[1:] if (x and isinstance(x[0], str)) else x
            for ch in kids:
                if isinstance(ch, tuple):
                    stack.append(ch)


def subst(t, mapping, _memo=None):
    """Replace subterms by mapping (dict term->term), bottom-up, re-normalising.
    Memoised on object identity (terms are DAGs)."""
    if _memo is None:
        _memo = {}
    if not isinstance(t, tuple):
        return t
    k = id(t)
    if k in _memo:
        return _memo[k][1]
    r = _subst(t, mapping, _memo)
    _memo[k] = (t, r)      # keep t alive so that ids stay unique
    return r


def _subst(t, mapping, memo):
    if len(t) == 0:
        return t
    h = t[0]
    if isinstance(h, str) and h in ("num", "str", "bool", "opaque", "none"):
        return t
    try:
        if t in mapping:
            return mapping[t]
    except TypeError:
        pass
    if not isinstance(h, str):
        return tuple(subst(x, mapping, memo) for x in t)
    if len(t) == 1:
        return t
    if h == "sym":
        return t
    if h == "call":
        return ("call", t[1]) + tuple(subst(x, mapping, memo) for x in t[2:])
    if h == "attr":
        return ("attr", subst(t[1], mapping, memo), t[2])
    if h == "cmp":
        return ("cmp", t[1], subst(t[2], mapping, memo), subst(t[3], mapping, memo))
    kids = tuple(subst(x, mapping, memo) if isinstance(x, tuple) else x for x in t[1:])
    if h == "add":
        return add(*kids)
    if h == "mul":
        return mul(*kids)
    if h == "pow":
        return power(*kids)
    if h == "phi":
        return phi(*kids)
    return (h,) + kids


def show(t, depth=0):
    """Compact human-readable rendering (for reports)."""
    if not isinstance(t, tuple):
        return str(t)
    if not t:
        return "()"
    h = t[0]
    if not isinstance(h, str):
        return "<" + ", ".join(show(x, depth + 1) for x in t) + ">"
    if h == "num":
        f = t[1]
        return str(f.numerator) if f.denominator == 1 else repr(float(f))
    if h == "sym":
        return t[1]
    if h == "str":
        return repr(t[1])
    if h == "none":
        return "None"
    if h == "bool":
        return str(t[1])
    if depth > 12:
        return "..."
    d = depth + 1
    if h == "add":
        return "(" + " + ".join(show(x, d) for x in t[1:]) + ")"
    if h == "mul":
        return "*".join(show(x, d) for x in t[1:])
    if h == "pow":
        return "%s**%s" % (show(t[1], d), show(t[2], d))
    if h == "call":
        return "%s(%s)" % (t[1], ", ".join(show(x, d) for x in t[2:]))
    if h == "attr":
        return "%s.%s" % (show(t[1], d), t[2])
    if h == "idx":
        return "%s[%s]" % (show(t[1], d), show(t[2], d))
    if h == "phi":
        return "phi(%s ? %s : %s)" % (show(t[1], d), show(t[2], d), show(t[3], d))
    if h == "cmp":
        return "(%s %s %s)" % (show(t[2], d), t[1], show(t[3], d))
    if h in ("and", "or"):
        return "(" + (" %s " % h).join(show(x, d) for x in t[1:]) + ")"
    if h == "not":
        return "not " + show(t[1], d)
    if h in ("angle", "epoch"):
        return "%s<%s>" % (h, show(t[1], d))
    if h in ("tuple", "list"):
        return h + "(" + ", ".join(show(x, d) for x in t[1:]) + ")"
    if h == "opaque":
        return "?<%s>" % t[1][:40]
    return h + "(" + ", ".join(show(x, d) for x in t[1:]) + ")"


def renorm(t, rename=None, _memo=None):
    """rebuild a term bottom-up (re-sorting commutative operands), optionally renaming
    function/symbol name strings with rename(str) -> str."""
    if _memo is None:
        _memo = {}
    if not isinstance(t, tuple):
        if isinstance(t, str) and rename is not None:
            return rename(t)
        return t
    if not t:
        return t
    k = id(t)
    if k in _memo:
        return _memo[k][1]
    h = t[0]
    if h == "num":
        r = t
    elif h == "add":
        r = add(*[renorm(x, rename, _memo) for x in t[1:]])
    elif h == "mul":
        r = mul(*[renorm(x, rename, _memo) for x in t[1:]])
    elif h == "pow":
        r = power(renorm(t[1], rename, _memo), renorm(t[2], rename, _memo))
    elif isinstance(h, str):
        r = (h,) + tuple(renorm(x, rename, _memo) for x in t[1:])
    else:
        r = tuple(renorm(x, rename, _memo) for x in t)
    _memo[k] = (t, r)
    return r
