"""Parity analysis: an abstract interpretation deciding how the result of a numeric routine
behaves under the reflection of one (or more) of its inputs, x -> -x.

Abstract values
    Z   the value is 0 for every input (both even and odd)
    E   even:  f(-x) ==  f(x)
    O   odd:   f(-x) == -f(x)          (for Angle values: modulo 360 degrees)
    T   unknown (with the source line where the symmetry was lost)
plus, for the sentinel idiom `s0 = s + 1.0; while abs(s - s0) > tol: s0 = s; ...`, a relation
"this value is <name>@<version> plus an even quantity", so that `s - s0` is recognised as even.

Control flow: a condition is EVEN when it has the same truth value for x and -x (comparisons of
even quantities); branches and loops under EVEN conditions are executed identically by the
mirrored run, so joins are taken value-wise.  `if x_odd < 0: y = -y` (sign transfer) turns an
even y into an odd one.  While loops are peeled once (the first test sees the entry state, later
tests the state after a full body) and then iterated to a fixpoint.  Anything else gives T.

The analysis never executes the code and works on the ast of /repo's current source."""
import ast

from .frontend import norm_text

ODD_FUNCS = {"sin", "tan", "atan", "asin", "sinh", "tanh", "asinh", "atanh", "radians", "degrees", "float", "int", "round",
             "iint", "cbrt"}
EVEN_FUNCS = {"cos", "cosh"}


class V:
    __slots__ = ("p", "why", "rel")

    def __init__(self, p, why=None, rel=None):
        self.p, self.why, self.rel = p, why, rel

    def __repr__(self):
        return self.p + (("@%s" % (self.why,)) if self.p == "T" and self.why else "")


Z, E, O = V("Z"), V("E"), V("O")


def top(node, msg):
    if msg.startswith("line "):
        return V("T", msg)
    return V("T", "line %d: %s" % (getattr(node, "lineno", 0), msg))


def join(a, b):
    if a.p == b.p:
        return a if a.p != "T" else a
    if a.p == "Z":
        return V(b.p, b.why)
    if b.p == "Z":
        return V(a.p, a.why)
    if a.p == "T":
        return a
    if b.p == "T":
        return b
    return V("T", "joined an even and an odd value")


def add_par(a, b, node):
    if a.p == "Z":
        return V(b.p, b.why)
    if b.p == "Z":
        return V(a.p, a.why)
    if a.p == "T":
        return a
    if b.p == "T":
        return b
    if a.p == b.p:
        return V(a.p)
    return top(node, "sum of an even and an odd quantity: `%s`" % norm_text(node)[:60])


def mul_par(a, b, node):
    if a.p == "Z" or b.p == "Z":
        return Z
    if a.p == "T":
        return a
    if b.p == "T":
        return b
    return E if a.p == b.p else O


class Result:
    def __init__(self):
        self.returns = []          # list of (lineno, value or tuple of values)
        self.bad_conds = []        # (lineno, text, why)
        self.loops = 0
        self.sign_transfers = 0
        self.stmts = 0


class Parity:
    def __init__(self, odd_names=(), odd_exprs=(), even_attr_bases=("self",)):
        self.odd_names = set(odd_names)
        self.odd_exprs = set(odd_exprs)
        self.even_attr_bases = set(even_attr_bases)
        self.res = Result()
        self.ver = {}
        self.break_states = []

    # ------------------------------------------------------------------ expressions
    def ev(self, n, env):
        txt = norm_text(n)
        if txt in self.odd_exprs:
            return O
        if isinstance(n, ast.Constant):
            if isinstance(n.value, bool) or n.value is None or isinstance(n.value, str):
                return E
            return Z if n.value == 0 else E
        if isinstance(n, ast.Name):
            if n.id in env:
                return env[n.id]
            if n.id in self.odd_names:
                return O
            return E                       # module constant / parameter not under reflection
        if isinstance(n, ast.Attribute):
            return E                       # object field / module attribute: independent of the reflected input
        if isinstance(n, ast.UnaryOp):
            v = self.ev(n.operand, env)
            if isinstance(n.op, (ast.USub, ast.UAdd)):
                return V(v.p, v.why)
            return top(n, "unary operator")
        if isinstance(n, ast.BinOp):
            a, b = self.ev(n.left, env), self.ev(n.right, env)
            if isinstance(n.op, (ast.Add, ast.Sub)):
                if isinstance(n.op, ast.Sub):
                    # sentinel: x - (x + even) or (x + even) - x  ->  even
                    for val, other in ((a, n.right), (b, n.left)):
                        if val.rel is not None and isinstance(other, ast.Name) and val.rel == (other.id, self.ver.get(other.id, 0)):
                            return E
                r = add_par(a, b, n)
                if isinstance(n.op, ast.Add) and r.p == "T":
                    # remember `name + even` so that the difference with name is known to be even
                    for val, node_, oth in ((a, n.left, b), (b, n.right, a)):
                        if isinstance(node_, ast.Name) and val.p == "O" and oth.p in ("E", "Z"):
                            return V("T", r.why, rel=(node_.id, self.ver.get(node_.id, 0)))
                return r
            if isinstance(n.op, (ast.Mult, ast.Div)):
                return mul_par(a, b, n)
            if isinstance(n.op, ast.Pow):
                if a.p in ("E", "Z") and b.p in ("E", "Z"):
                    return V(a.p)
                if a.p == "O" and isinstance(n.right, ast.Constant) and isinstance(n.right.value, int):
                    return O if n.right.value % 2 else E
                return top(n, "power of a quantity that is not even")
            if isinstance(n.op, (ast.Mod, ast.FloorDiv)):
                if a.p in ("E", "Z") and b.p in ("E", "Z"):
                    return V(a.p)
                return top(n, "% or // of a quantity that is not even")
            return top(n, "operator")
        if isinstance(n, ast.Call):
            f = n.func
            args = [self.ev(a, env) for a in n.args]
            name = f.id if isinstance(f, ast.Name) else f.attr if isinstance(f, ast.Attribute) else None
            if name == "abs" and len(args) == 1:
                return Z if args[0].p == "Z" else E if args[0].p in ("E", "O") else args[0]
            if name in ODD_FUNCS and len(args) >= 1:
                return V(args[0].p, args[0].why)
            if name in EVEN_FUNCS and len(args) == 1:
                return E if args[0].p != "T" else args[0]
            if name == "sqrt" and len(args) == 1:
                return V(args[0].p) if args[0].p in ("E", "Z") else top(n, "sqrt of a quantity that is not even")
            if name == "copysign" and len(args) == 2:
                mag, sg = args
                if mag.p in ("E", "O") and sg.p in ("E", "O"):
                    return V(sg.p)                          # |mag| is even; the sign follows the second argument
                return top(n, "copysign of quantities of unknown parity") if "T" not in (mag.p, sg.p) else (mag if mag.p == "T" else sg)
            if name == "atan2" and len(args) == 2:
                y, x = args
                if x.p in ("E",) and y.p in ("O", "E", "Z"):
                    return V(y.p)
                return top(n, "atan2 whose second argument is not even")
            if name == "Angle" and args:
                return V(args[0].p, args[0].why)           # the angle in degrees is proportional to the argument
            if isinstance(f, ast.Attribute) and name in ("to_positive", "rad", "__float__", "__call__") and not args:
                v = self.ev(f.value, env)
                return V(v.p, v.why)                       # modulo 360 for to_positive
            if name == "isinstance":
                return E
            if all(a.p in ("E", "Z") for a in args) and not (isinstance(f, ast.Attribute) and self.ev(f.value, env).p in ("O", "T")):
                return E                                   # any function of even quantities is even
            return top(n, "call of %s with an argument that is not even" % (name or "?"))
        if isinstance(n, ast.Tuple):
            return tuple(self.ev(e, env) for e in n.elts)
        if isinstance(n, ast.IfExp):
            c = self.cond(n.test, env)
            a, b = self.ev(n.body, env), self.ev(n.orelse, env)
            if c == "even":
                return join(a, b)
            if isinstance(c, tuple) and c[0] == "sign":
                # sign transfer as an expression: `-y if odd < 0 else y` / `y if odd > 0 else -y`
                for x, y in ((n.body, n.orelse), (n.orelse, n.body)):
                    if isinstance(x, ast.UnaryOp) and isinstance(x.op, ast.USub) and norm_text(x.operand) == norm_text(y):
                        base = self.ev(y, env)
                        if base.p in ("E", "O", "Z"):
                            self.res.sign_transfers += 1
                            return {"E": O, "O": E, "Z": Z}[base.p]
            return top(n, "conditional expression on a condition that is not even")
        if isinstance(n, ast.Compare):
            return E if self.cond(n, env) == "even" else top(n, "comparison used as a value")
        return top(n, "expression kind %s" % type(n).__name__)

    def cond(self, n, env):
        """'even' (same truth value in the mirrored run), ('sign', name) for `odd < 0` style tests, or 'top'."""
        if isinstance(n, ast.BoolOp):
            ks = [self.cond(v, env) for v in n.values]
            bad = [k for k in ks if k != "even"]
            return "even" if not bad else ("top", bad[0][1] if bad[0][0] == "top" else "sign test inside and/or")
        if isinstance(n, ast.UnaryOp) and isinstance(n.op, ast.Not):
            return self.cond(n.operand, env)
        if isinstance(n, ast.Compare) and len(n.ops) == 1:
            a, b = self.ev(n.left, env), self.ev(n.comparators[0], env)
            if isinstance(a, tuple) or isinstance(b, tuple):
                return ("top", "comparison of tuples")
            if a.p in ("E", "Z") and b.p in ("E", "Z"):
                return "even"
            if a.p == "O" and b.p == "Z" and isinstance(n.ops[0], (ast.Lt, ast.Gt, ast.LtE, ast.GtE)):
                return ("sign", norm_text(n.left))
            if isinstance(n.ops[0], (ast.Eq, ast.NotEq)) and {a.p, b.p} <= {"O", "Z"} and "Z" in {a.p, b.p}:
                return "even"                  # odd == 0  <=>  mirrored odd == 0
            for x in (a, b):
                if x.p == "T":
                    return ("top", x.why)
            return ("top", "comparison of an odd quantity with a non-zero one")
        if isinstance(n, ast.Call) and isinstance(n.func, ast.Name) and n.func.id == "isinstance":
            return "even"
        v = self.ev(n, env)
        if not isinstance(v, tuple) and v.p in ("E", "Z"):
            return "even"
        return ("top", v.why if not isinstance(v, tuple) and v.p == "T" else "truth value of a quantity that is not even")

    # ------------------------------------------------------------------ statements
    def assign(self, target, v, env, node):
        if isinstance(target, ast.Name):
            self.ver[target.id] = self.ver.get(target.id, 0) + 1
            env[target.id] = v if not isinstance(v, tuple) else top(node, "tuple value")
            if isinstance(v, tuple):
                env[target.id] = v
        elif isinstance(target, (ast.Tuple, ast.List)):
            if isinstance(v, tuple) and len(v) == len(target.elts):
                for t, x in zip(target.elts, v):
                    self.assign(t, x, env, node)
            else:
                for t in target.elts:
                    self.assign(t, v if not isinstance(v, tuple) else top(node, "unpacking"), env, node)
        # attribute / subscript stores: not tracked (they do not feed the result in the analysed routines)

    def block(self, stmts, env):
        """returns the fall-through environment, or None when every path leaves"""
        for st in stmts:
            env = self.stmt(st, env)
            if env is None:
                return None
        return env

    def taint_assigned(self, stmts, env, node, msg):
        for st in stmts:
            for x in ast.walk(st):
                if isinstance(x, ast.Name) and isinstance(x.ctx, ast.Store):
                    self.ver[x.id] = self.ver.get(x.id, 0) + 1
                    env[x.id] = top(node, msg)
                if isinstance(x, ast.Return):
                    self.res.returns.append((x.lineno, top(node, msg)))

    def stmt(self, st, env):
        self.res.stmts += 1
        if isinstance(st, ast.Assign):
            v = self.ev(st.value, env)
            env = dict(env)
            for t in st.targets:
                self.assign(t, v, env, st)
            return env
        if isinstance(st, ast.AugAssign):
            fake = ast.BinOp(left=ast.Name(id=st.target.id, ctx=ast.Load()) if isinstance(st.target, ast.Name) else st.target,
                             op=st.op, right=st.value)
            ast.copy_location(fake, st)
            ast.fix_missing_locations(fake)
            v = self.ev(fake, env)
            env = dict(env)
            self.assign(st.target, v, env, st)
            return env
        if isinstance(st, ast.Return):
            v = self.ev(st.value, env) if st.value is not None else E
            self.res.returns.append((st.lineno, v))
            return None
        if isinstance(st, ast.Raise):
            return None
        if isinstance(st, (ast.Pass, ast.Expr, ast.Assert, ast.Import, ast.ImportFrom)):
            return env
        if isinstance(st, (ast.Break, ast.Continue)):
            # taken under a condition whose evenness the enclosing `if` has checked: run and mirror image leave the loop
            # (or skip the rest of the body) together; the state at that point is joined at the loop exit by fix()
            self.res.breaks = getattr(self.res, "breaks", 0) + 1
            self.break_states.append(dict(env))
            return None
        if isinstance(st, ast.If):
            c = self.cond(st.test, env)
            if c == "even":
                e1 = self.block(st.body, dict(env))
                e2 = self.block(st.orelse, dict(env))
                if e1 is None:
                    return e2
                if e2 is None:
                    return e1
                out = {}
                for k in set(e1) | set(e2):
                    a, b = e1.get(k), e2.get(k)
                    if a is None or b is None:
                        out[k] = a or b
                    elif isinstance(a, tuple) or isinstance(b, tuple):
                        out[k] = a if a == b else top(st, "tuple join")
                    else:
                        out[k] = join(a, b)
                return out
            if isinstance(c, tuple) and c[0] == "sign" and not st.orelse and len(st.body) == 1:
                # sign transfer: if odd < 0: y = -y
                b = st.body[0]
                if isinstance(b, ast.Assign) and len(b.targets) == 1 and isinstance(b.targets[0], ast.Name) \
                        and isinstance(b.value, ast.UnaryOp) and isinstance(b.value.op, ast.USub) \
                        and isinstance(b.value.operand, ast.Name) and b.value.operand.id == b.targets[0].id:
                    nm = b.targets[0].id
                    cur = env.get(nm, E)
                    env = dict(env)
                    self.ver[nm] = self.ver.get(nm, 0) + 1
                    if not isinstance(cur, tuple) and cur.p in ("E", "O", "Z"):
                        env[nm] = {"E": O, "O": E, "Z": Z}[cur.p]
                        self.res.sign_transfers += 1
                    else:
                        env[nm] = top(st, "sign transfer onto a value of unknown parity")
                    return env
            why = "branch on `%s` may differ between the run and its mirror image" % norm_text(st.test)[:60]
            if isinstance(c, tuple) and c[0] == "top" and c[1]:
                why = c[1] + "; then " + why
            self.res.bad_conds.append((st.lineno, norm_text(st.test), why))
            env = dict(env)
            self.taint_assigned(st.body + st.orelse, env, st, why)
            return env
        if isinstance(st, ast.While):
            self.res.loops += 1
            return self.loop(st, env)
        if isinstance(st, ast.For):
            self.res.loops += 1
            c = self.ev(st.iter, env)
            env = dict(env)
            if isinstance(c, tuple) or c.p not in ("E", "Z"):
                self.taint_assigned([st], env, st, "for-loop over a sequence that is not even")
                return env
            self.assign(st.target, E, env, st)
            return self.fix(st.body, env, st, None)
        raise NotImplementedError("parity: statement %s at line %d" % (type(st).__name__, st.lineno))

    def loop(self, st, env):
        env = dict(env)
        c0 = self.cond(st.test, env)
        if c0 != "even":
            why = "loop test `%s` may differ between the run and its mirror image" % norm_text(st.test)[:60]
            if isinstance(c0, tuple) and c0[0] == "top" and c0[1]:
                why = c0[1] + "; then " + why
            self.res.bad_conds.append((st.lineno, norm_text(st.test), why))
            self.taint_assigned(st.body, env, st, why)
            return env
        # peeled first iteration
        first = self.block(st.body, dict(env))
        if first is None:
            return env
        return self.fix(st.body, first, st, env, test=st.test)

    def fix(self, body, state, st, entry, test=None):
        """fixpoint of the loop body from `state` (the state after the peeled iteration); the result is
        the join of `entry` (zero iterations, if given), and every state at the loop head"""
        head = dict(state)
        for _ in range(12):
            ck = self.cond(test, head) if test is not None else "even"
            if ck != "even":
                why = "loop test `%s` may differ between the run and its mirror image" % norm_text(test)[:60]
                if isinstance(ck, tuple) and ck[0] == "top" and ck[1]:
                    why = ck[1] + "; then " + why
                self.res.bad_conds.append((st.lineno, norm_text(test), why))
                self.taint_assigned(body, head, st, why)
                break
            nxt = self.block(body, dict(head))
            if nxt is None:
                break
            merged = {}
            changed = False
            for k in set(head) | set(nxt):
                a, b = head.get(k), nxt.get(k)
                if a is None or b is None:
                    merged[k] = a or b
                elif isinstance(a, tuple) or isinstance(b, tuple):
                    merged[k] = a
                else:
                    merged[k] = join(a, b)
                    if merged[k].p != a.p:
                        changed = True
            head = merged
            if not changed:
                break
        out = dict(head)
        for bs in self.break_states:
            for k in set(out) | set(bs):
                a_, b_ = out.get(k), bs.get(k)
                if a_ is None or b_ is None:
                    out[k] = a_ or b_
                elif not isinstance(a_, tuple) and not isinstance(b_, tuple):
                    out[k] = join(a_, b_)
        self.break_states = []
        if entry is not None:
            for k in set(out) | set(entry):
                a, b = out.get(k), entry.get(k)
                if a is None or b is None:
                    out[k] = a or b
                elif not isinstance(a, tuple) and not isinstance(b, tuple):
                    # the value seen after the loop when the body never ran is the entry value; the loop test was
                    # even, so run and mirror agree on which of the two it is: value-wise join
                    out[k] = join(a, b) if b.rel is None else a
        return out


def analyse(stmts, odd_names=(), odd_exprs=()):
    p = Parity(odd_names, odd_exprs)
    env = p.block(list(stmts), {})
    return p.res, env


def summarise_returns(res):
    """component-wise join over all return sites -> tuple of V (or a single V)"""
    out = None
    for _, v in res.returns:
        vs = v if isinstance(v, tuple) else (v,)
        if out is None:
            out = list(vs)
        elif len(out) != len(vs):
            return None
        else:
            out = [join(a, b) for a, b in zip(out, vs)]
    return out
