"""R-GUARD front end: attribute use on parameters must be dominated by an
isinstance guard (or a validating callee)."""
from .absint import analysis_for


def check_functions(repo, rep, funcs, rule="R-GUARD"):
    an = analysis_for(repo)
    rep.rule(rule, "every attribute access / method call on a parameter is dominated by an isinstance guard whose failing "
                   "edge raises, or by a call to a callee that returns only for that type")
    sites = set("%s.%s" % f for f in funcs)
    evs = an.events_for("unguarded", sites)
    bad = set()
    for e in evs:
        s = e.site.split(".<locals>")[0]
        parts_ = s.split(".")
        if len(parts_) >= 3 and parts_[1].startswith("_") and not parts_[1].startswith("__"):
            continue                       # method of a private helper class (value objects of the implementation): not part of the API
        bad.add(s)
        rep.violation(rule, s, e.key, e.msg, construct="line %d" % e.node.lineno)
    n = 0
    for f in sorted(sites):
        repo.func(*f.split(".", 1))
        rep.fn(*f.split(".", 1))
        ab = an.attr_by_func.get(f, [0, 0])
        n += ab[0]
        if f not in bad:
            rep.ok(rule, f, "%d attribute uses on typed values, all guarded" % ab[0], sample=ab[0] > 0)
    return n
