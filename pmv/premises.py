"""Premises shared by the property checks.

The symbolic evaluator gives `Angle` / `Epoch` operators the meaning their names have (a + b is a new object holding the sum,
`e -= tau` rebinds the local name and leaves the caller's object alone, comparisons compare the stored values).  Every rule of a
property that reads code using those operators rests on that.  A check that says so under `assumptions` and never looks would pass
vacuously on a tree where an operator was changed; this module looks: operator conformance (R-OPCONF, the rules of C02 / C03) and
absence of writes to the operands (R-EFFECT) for the special methods of both classes."""
from . import effects, effect_engine


def operator_semantics(repo, rep, classes=("Epoch", "Angle")):
    from .props import c02, c03
    rep.rule("R-PREMISE", "the Angle / Epoch operators this check's evaluator assumes are what the classes implement: conformant results, operands never written "
                          "(reported under R-OPCONF / R-EFFECT at the operator)")
    n = 0
    if "Epoch" in classes:
        c02.opconf(repo, rep)
        fam = [("Epoch", q) for q in repo.mod("Epoch").functions if q.startswith("Epoch.__")]
        effects.check_functions(repo, rep, fam)
        n += len(fam)
        an = effect_engine.analysis_for(repo)
        for q in ("__add__", "__sub__", "__iadd__", "__isub__", "__radd__"):
            s = an.summ.get("Epoch.Epoch.%s" % q)
            if s is not None and s.ret_alias:
                rep.violation("R-EFFECT", "Epoch.Epoch.%s" % q, "result-aliases-operand", "the result may be one of the operand objects")
    if "Angle" in classes:
        c03.r_opconf(repo, rep)
        fam = [("Angle", q) for q in repo.mod("Angle").functions if q.startswith("Angle.__")]
        effects.check_functions(repo, rep, fam)
        n += len(fam)
    rep.ok("R-PREMISE", "Angle/Epoch operators", "%d special methods examined (conformance and operand preservation)" % n, sample=False)
