"""placeholder (filled in below)"""
def check_functions(repo, rep, funcs, rule="R-EFFECT"):
    from .effect_engine import check
    return check(repo, rep, funcs, rule)
