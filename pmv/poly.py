"""E4 algebra: terms -> rational functions over Q in atoms, with the Pythagorean
and sqrt relations reduced to a canonical form.

  atoms: free symbols, S[b]/C[b] (sine/cosine of a base angle b), Q[r] (sqrt of a
  rational function r), F[...] (uninterpreted function application).
  trig of an integer linear combination of base angles is expanded by the addition
  theorems; tan = sin/cos; cos(b)^2 -> 1 - sin(b)^2; sqrt(r)^2 -> r.
An identity lhs == rhs is *discharged* iff normal(lhs - rhs) has zero numerator.
The relations are the only axioms (exact real arithmetic; no rounding)."""
from fractions import Fraction

from . import terms as T


EQUAL_LOG = []     # (lhs, rhs, verdict) of every identity decided by the normal form (cross-checked in the thorough tier)


class Poly:
    """Sparse multivariate polynomial; monomial = tuple of (atom, exp) sorted."""
    __slots__ = ("t",)

    def __init__(self, t=None):
        self.t = t or {}

    @staticmethod
    def const(c):
        c = Fraction(c)
        return Poly({(): c}) if c != 0 else Poly()

    @staticmethod
    def atom(a):
        return Poly({((a, 1),): Fraction(1)})

    def is_zero(self):
        return not self.t

    def is_const(self):
        return all(m == () for m in self.t)

    def const_value(self):
        return self.t.get((), Fraction(0))

    def __add__(self, o):
        r = dict(self.t)
        for m, c in o.t.items():
            v = r.get(m, 0) + c
            if v == 0:
                r.pop(m, None)
            else:
                r[m] = v
        return Poly(r)

    def __neg__(self):
        return Poly({m: -c for m, c in self.t.items()})

    def __sub__(self, o):
        return self + (-o)

    def __mul__(self, o):
        if len(self.t) * len(o.t) > 400000:
            raise OverflowError("polynomial too large")
        r = {}
        for m1, c1 in self.t.items():
            for m2, c2 in o.t.items():
                m = mono_mul(m1, m2)
                v = r.get(m, 0) + c1 * c2
                if v == 0:
                    r.pop(m, None)
                else:
                    r[m] = v
        return Poly(r)

    def scale(self, c):
        if c == 0:
            return Poly()
        return Poly({m: v * c for m, v in self.t.items()})

    def __pow__(self, n):
        r = Poly.const(1)
        b = self
        while n:
            if n & 1:
                r = r * b
            n >>= 1
            if n:
                b = b * b
        return r

    def atoms(self):
        s = set()
        for m in self.t:
            for a, e in m:
                s.add(a)
        return s

    def key(self):
        return tuple(sorted(((m, c) for m, c in self.t.items()), key=repr))

    def __eq__(self, o):
        return isinstance(o, Poly) and self.t == o.t

    def __hash__(self):
        return hash(self.key())

    def __repr__(self):
        if not self.t:
            return "0"
        parts = []
        for m, c in sorted(self.t.items(), key=lambda mc: repr(mc[0])):
            ms = "*".join(("%s" % atom_str(a)) + ("^%d" % e if e != 1 else "") for a, e in m)
            cs = str(c) if c.denominator == 1 else "%s/%s" % (c.numerator, c.denominator)
            parts.append(cs + ("*" + ms if ms else ""))
        return " + ".join(parts)


def atom_str(a):
    if a[0] == "S":
        return "sin[%s]" % atom_str(a[1]) if isinstance(a[1], tuple) else "sin[%s]" % (a[1],)
    if a[0] == "C":
        return "cos[%s]" % atom_str(a[1]) if isinstance(a[1], tuple) else "cos[%s]" % (a[1],)
    if a[0] == "V":
        return a[1]
    if a[0] == "B":
        return "{" + repr(Poly(dict(a[1]))) + "}"
    if a[0] == "Q":
        return "sqrt(%s/%s)" % (repr(Poly(dict(a[1]))), repr(Poly(dict(a[2]))))
    if a[0] == "F":
        return "%s(...)" % a[1]
    return repr(a)


def mono_mul(m1, m2):
    if not m1:
        return m2
    if not m2:
        return m1
    d = dict(m1)
    for a, e in m2:
        v = d.get(a, 0) + e
        if v == 0:
            d.pop(a, None)
        else:
            d[a] = v
    return tuple(sorted(d.items(), key=repr))


class Rat:
    __slots__ = ("n", "d")

    def __init__(self, n, d=None):
        self.n = n
        self.d = d if d is not None else Poly.const(1)

    def __add__(self, o):
        if self.d == o.d:
            return Rat(self.n + o.n, self.d)
        return Rat(self.n * o.d + o.n * self.d, self.d * o.d)

    def __neg__(self):
        return Rat(-self.n, self.d)

    def __sub__(self, o):
        return self + (-o)

    def __mul__(self, o):
        return Rat(self.n * o.n, self.d * o.d)

    def inv(self):
        if self.n.is_zero():
            raise ZeroDivisionError("inverse of zero polynomial")
        return Rat(self.d, self.n)

    def __pow__(self, k):
        if k >= 0:
            return Rat(self.n ** k, self.d ** k)
        return self.inv() ** (-k)


class NotAlgebraic(Exception):
    pass


class Algebra:
    """Converter with its own relation set.  `subs` maps symbol names to terms or
    Rats (used to apply hypotheses such as default values)."""

    def __init__(self, funcs_opaque=True, atomize=False):
        self.funcs_opaque = funcs_opaque
        self.cache = {}
        self.atomize = atomize     # replace complicated trig-argument summands by fresh symbols
        self.theta = {}            # term -> symbol name
        self.theta_rev = {}

    # -- public
    def rat(self, t):
        k = T.key(t) if False else t
        if k in self.cache:
            return self.cache[k]
        r = self._rat(t)
        r = Rat(self.reduce(r.n), self.reduce(r.d))
        self.cache[k] = r
        return r

    def is_zero(self, t):
        r = self.rat(t)
        return self.reduce(r.n).is_zero()

    def equal(self, a, b):
        ra, rb = self.rat(a), self.rat(b)
        res = self.reduce(ra.n * rb.d - rb.n * ra.d).is_zero()
        EQUAL_LOG.append((a, b, res))
        return res

    # -- conversion
    def _rat(self, t):
        h = t[0]
        if h == "num":
            return Rat(Poly.const(t[1]))
        if h == "bool":
            return Rat(Poly.const(1 if t[1] else 0))
        if h == "sym":
            return Rat(Poly.atom(("V", t[1])))
        if h == "add":
            r = Rat(Poly())
            for x in t[1:]:
                r = r + self.rat(x)
            return r
        if h == "mul":
            r = Rat(Poly.const(1))
            for x in t[1:]:
                r = r * self.rat(x)
            return r
        if h == "pow":
            b, e = t[1], t[2]
            if e[0] == "num" and e[1].denominator == 1 and abs(e[1]) <= 12:
                return self.rat(b) ** int(e[1])
            if e[0] == "num" and e[1] == Fraction(1, 2):
                return self._sqrt(self.rat(b))
            if e[0] == "num" and e[1] == Fraction(3, 2):
                rb = self.rat(b)
                return rb * self._sqrt(rb)
            if e[0] == "num" and e[1] == Fraction(-1, 2):
                return self._sqrt(self.rat(b)).inv()
            return Rat(Poly.atom(("F", "pow", self.canon(b), self.canon(e))))
        if h == "call":
            name = t[1]
            args = t[2:]
            if name in ("sin", "cos", "tan") and len(args) == 1:
                return self._trig(name, args[0])
            if name == "sqrt" and len(args) == 1:
                return self._sqrt(self.rat(args[0]))
            if name == "red" and len(args) == 1:
                # value reduced modulo 360: kept as an uninterpreted function except
                # under trig functions, where _trig strips it
                return Rat(Poly.atom(("F", "red", self.canon(args[0]))))
            return Rat(Poly.atom(("F", name) + tuple(self.canon(a) for a in args)))
        if h in ("angle", "epoch"):
            return self.rat(t[1])
        if h == "phi":
            return Rat(Poly.atom(("F", "phi", self.canon_any(t[1]), self.canon(t[2]), self.canon(t[3]))))
        if h in ("idx", "attr", "loopout", "opaque", "undef", "lv", "lt", "str", "none", "tuple", "list", "cmp", "and", "or", "not", "listcomp", "dict"):
            return Rat(Poly.atom(("F", "term", repr(t))))
        raise NotAlgebraic("cannot convert %s" % (t[0],))

    def canon_any(self, t):
        try:
            return self.canon(t)
        except (NotAlgebraic, TypeError):
            return repr(t)

    def canon(self, t):
        """Canonical hashable form of a term's value."""
        try:
            r = self.rat(t)
        except NotAlgebraic:
            return ("raw", repr(t))
        return self.rat_key(r)

    def rat_key(self, r):
        n, d = self.reduce(r.n), self.reduce(r.d)
        if d.is_const() and not d.is_zero():
            n = n.scale(1 / d.const_value())
            return ("P", n.key())
        return ("R", n.key(), d.key())

    # -- sqrt
    def _sqrt(self, r):
        n, d = self.reduce(r.n), self.reduce(r.d)
        if n.is_const() and d.is_const():
            v = n.const_value() / d.const_value()
            # perfect squares
            import math
            if v >= 0:
                a, b = v.numerator, v.denominator
                ra, rb = math.isqrt(a), math.isqrt(b)
                if ra * ra == a and rb * rb == b:
                    return Rat(Poly.const(Fraction(ra, rb)))
        if d.is_const():
            n = n.scale(1 / d.const_value())
            d = Poly.const(1)
            atom = ("Q", tuple(sorted(n.t.items(), key=repr)), tuple(sorted(d.t.items(), key=repr)))
            return Rat(Poly.atom(atom))
        # sqrt(n/d) = sqrt(n*d)/d  (d > 0 on the domain of the formulas analysed): keeps
        # the radicand polynomial, so that sqrt(.)^2 reduces
        nd = self.reduce(n * d)
        atom = ("Q", tuple(sorted(nd.t.items(), key=repr)), tuple(sorted(Poly.const(1).t.items(), key=repr)))
        return Rat(Poly.atom(atom), d)

    # -- trig
    def _trig(self, name, arg):
        if arg[0] == "call" and arg[1] == "atan" and len(arg) == 3:
            # sin(atan x) = x/sqrt(1+x^2), cos(atan x) = 1/sqrt(1+x^2)
            x = self.rat(arg[2])
            q = self._sqrt(Rat(Poly.const(1)) + x * x)
            s_, c_ = x * q.inv(), q.inv()
            return s_ if name == "sin" else c_ if name == "cos" else x
        comps = self.angle_components(arg)
        s, c = self.sincos_sum(comps)
        if name == "sin":
            return s
        if name == "cos":
            return c
        return s * c.inv()

    def strip_red(self, t):
        """sin/cos/tan are 360-degree periodic: red(x)*d2r*n (n integer) == x*d2r*n
        inside a trig argument."""
        return t

    def angle_components(self, arg):
        """arg -> list of (integer multiplier, base atom key).  The argument must be
        a polynomial; each monomial c*m with rational c = p/q contributes base
        (m, q) with multiplier p."""
        arg = self._strip_red_term(arg)
        if self.atomize:
            arg = self._atomize_arg(arg)
        r = self.rat(arg)
        n, d = self.reduce(r.n), self.reduce(r.d)
        if not d.is_const():
            return [(1, ("B", tuple(sorted(n.t.items(), key=repr)), tuple(sorted(d.t.items(), key=repr))))]
        n = n.scale(1 / d.const_value())
        comps = []
        for m, c in sorted(n.t.items(), key=lambda mc: repr(mc[0])):
            if m == ():
                # pure number of radians: keep as its own base
                comps.append((1, ("B", ((m, c),))))
                continue
            if m == ((("V", "pi"), 1),):
                # multiples of pi/2 are exact; handled in sincos_sum through base 'halfpi'
                c2 = c * 2
                if c2.denominator == 1:
                    comps.append((int(c2), ("halfpi",)))
                    continue
            if m == ((("V", "d2r"), 1),):
                # a literal number of degrees: multiples of 90 are exact
                c90 = c / 90
                if c90.denominator == 1:
                    comps.append((int(c90), ("halfpi",)))
                    continue
            p, q = c.numerator, c.denominator
            comps.append((p, ("B", ((m, Fraction(1, q)),))))
        return comps

    def _strip_red_term(self, t):
        """Replace red(x) by x where it occurs with an integer coefficient times
        d2r in a sum (periodicity).  Conservative: only top-level summands of the
        form  k * d2r * red(x)  with integer k."""
        def fix(s):
            c, rest = T.split_coeff(s)
            if c.denominator != 1:
                return s
            factors = rest[1:] if rest[0] == "mul" else (rest,)
            if T.sym("d2r") not in factors:
                return s
            new = []
            changed = False
            for f in factors:
                if f[0] == "call" and f[1] in ("red", "pos") and len(f) == 3:
                    new.append(f[2])
                    changed = True
                else:
                    new.append(f)
            if not changed:
                return s
            return self._strip_red_term(T.mul(T.num(c), *new))
        if t[0] == "add":
            return T.add(*[fix(s) for s in t[1:]])
        if t[0] == "mul":
            # distribute d2r over an inner sum: d2r*(a+b)
            factors = t[1:]
            sums = [f for f in factors if f[0] == "add"]
            if len(sums) == 1 and T.sym("d2r") in factors:
                others = [f for f in factors if f is not sums[0]]
                return self._strip_red_term(T.add(*[T.mul(x, *others) for x in sums[0][1:]]))
        return fix(t)

    def _atomize_arg(self, arg):
        """Each top-level summand c*rest of a trig argument: if rest is a plain
        symbol times d2r (or a symbol) it is kept; otherwise the summand (with a
        non-integer c folded in) becomes a fresh symbol TH<n>.  d2r*(a+b) is
        distributed first, so angle differences still expand."""
        arg = self._distribute_d2r(arg)
        summands = arg[1:] if arg[0] == "add" else (arg,)
        out = []
        for s in summands:
            c, rest = T.split_coeff(s)
            factors = rest[1:] if rest[0] == "mul" else (rest,)
            simple = all(f[0] == "sym" or (f[0] == "call" and f[1] in ("degof", "rad") and f[2][0] == "sym") for f in factors) \
                and len(factors) <= 2
            if rest[0] == "num":
                out.append(s)
                continue
            if simple and c.denominator == 1:
                out.append(s)
                continue
            whole = s if c.denominator != 1 else rest
            k = whole
            if k not in self.theta:
                name = "TH%d" % (len(self.theta) + 1)
                self.theta[k] = name
                self.theta_rev[name] = k
            sym = T.sym(self.theta[k])
            out.append(sym if c.denominator != 1 else T.mul(T.num(c), sym))
        return T.add(*out)

    def _distribute_d2r(self, t):
        d2r = T.sym("d2r")
        if t[0] == "add":
            return T.add(*[self._distribute_d2r(x) for x in t[1:]])
        if t[0] == "mul":
            c, rest = T.split_coeff(t)
            factors = rest[1:] if rest[0] == "mul" else (rest,)
            sums = [f for f in factors if f[0] == "add"]
            others = [f for f in factors if f[0] != "add"]
            if len(sums) == 1 and others == [d2r] and c.denominator == 1:
                return T.add(*[self._distribute_d2r(T.mul(T.num(c), x, d2r)) for x in sums[0][1:]])
        return t

    def sincos_sum(self, comps):
        if not comps:
            return Rat(Poly()), Rat(Poly.const(1))
        (k, base), rest = comps[0], comps[1:]
        s1, c1 = self.sincos_mult(k, base)
        if not rest:
            return s1, c1
        s2, c2 = self.sincos_sum(rest)
        return s1 * c2 + c1 * s2, c1 * c2 - s1 * s2

    def sincos_mult(self, k, base):
        if base == ("halfpi",):
            k = k % 4
            return [(Rat(Poly()), Rat(Poly.const(1))), (Rat(Poly.const(1)), Rat(Poly())),
                    (Rat(Poly()), Rat(Poly.const(-1))), (Rat(Poly.const(-1)), Rat(Poly()))][k]
        if k == 0:
            return Rat(Poly()), Rat(Poly.const(1))
        if k < 0:
            s, c = self.sincos_mult(-k, base)
            return -s, c
        s1, c1 = Rat(Poly.atom(("S", base))), Rat(Poly.atom(("C", base)))
        if abs(k) > 8:
            # large multiples are kept atomic (not needed for any identity here)
            b2 = ("B", (("mult", k), base))
            return Rat(Poly.atom(("S", b2))), Rat(Poly.atom(("C", b2)))
        s, c = s1, c1
        for _ in range(k - 1):
            s, c = s * c1 + c * s1, c * c1 - s * s1
        return s, c

    # -- reduction
    def reduce(self, p):
        """cos(b)^2 -> 1 - sin(b)^2 ; sqrt(n/d)^2 -> n/d handled for d const."""
        changed = True
        guard = 0
        while changed:
            changed = False
            guard += 1
            if guard > 200:
                raise OverflowError("reduction did not terminate")
            out = Poly()
            for m, c in p.t.items():
                hit = None
                for a, e in m:
                    if e >= 2 and a[0] in ("C", "Q"):
                        hit = (a, e)
                        break
                if hit is None:
                    out = out + Poly({m: c})
                    continue
                changed = True
                a, e = hit
                rest = tuple((x, y) for x, y in m if x != a)
                if a[0] == "C":
                    repl = Poly.const(1) - Poly.atom(("S", a[1])) ** 2
                    left = e - 2
                    factor = repl
                else:
                    n = Poly(dict(a[1]))
                    d = Poly(dict(a[2]))
                    if not d.is_const():
                        # sqrt(n/d)^2 = n/d : cannot stay polynomial; leave
                        out = out + Poly({m: c})
                        changed = False if not changed else changed
                        continue
                    factor = n.scale(1 / d.const_value())
                    left = e - 2
                base = Poly({rest: c}) if rest else Poly.const(c)
                if left:
                    base = base * Poly({((a, left),): Fraction(1)})
                out = out + base * factor
            p = out
        return p


def eval_numeric(t, env):
    """Numeric value of a closed term (used only for constant relations between
    literals, e.g. 42.1218**2/2 vs 29.7847**2)."""
    import math
    h = t[0]
    if h == "num":
        return float(t[1])
    if h == "sym":
        if t[1] == "pi":
            return math.pi
        if t[1] == "d2r":
            return math.pi / 180
        return env[t[1]]
    if h == "add":
        return sum(eval_numeric(x, env) for x in t[1:])
    if h == "mul":
        r = 1.0
        for x in t[1:]:
            r *= eval_numeric(x, env)
        return r
    if h == "pow":
        return eval_numeric(t[1], env) ** eval_numeric(t[2], env)
    if h == "call":
        f = {"sin": math.sin, "cos": math.cos, "tan": math.tan, "sqrt": math.sqrt, "asin": math.asin,
             "acos": math.acos, "atan": math.atan, "atan2": math.atan2, "abs": abs, "floor": math.floor}.get(t[1])
        if f:
            return f(*[eval_numeric(x, env) for x in t[2:]])
        if t[1] == "copysign" and len(t) == 4:
            return math.copysign(eval_numeric(t[2], env), eval_numeric(t[3], env))
        if t[1] in ("mod", "fmod") and len(t) == 4:
            a_, b_ = eval_numeric(t[2], env), eval_numeric(t[3], env)
            return a_ % b_ if t[1] == "mod" else math.fmod(a_, b_)
        if t[1] in ("int", "float") and len(t) == 3:
            v_ = eval_numeric(t[2], env)
            return float(int(v_)) if t[1] == "int" else v_
    if h in ("angle", "epoch"):
        return eval_numeric(t[1], env)
    if h == "bool":
        return bool(t[1])
    if h == "phi":
        return eval_numeric(t[2] if eval_numeric(t[1], env) else t[3], env)
    if h == "cmp":
        a_, b_ = eval_numeric(t[2], env), eval_numeric(t[3], env)
        return {"Lt": a_ < b_, "LtE": a_ <= b_, "Gt": a_ > b_, "GtE": a_ >= b_, "Eq": a_ == b_, "NotEq": a_ != b_}[t[1]]
    if h == "and":
        return all(eval_numeric(x, env) for x in t[1:])
    if h == "or":
        return any(eval_numeric(x, env) for x in t[1:])
    if h == "not":
        return not eval_numeric(t[1], env)
    raise NotAlgebraic("not numeric: %s" % (t[0],))


# --------------------------------------------------------------------------- second opinion (thorough tier)
def _numeval(t, env, mp, memo):
    """high-precision value of a term at a random point; uninterpreted functions get a pseudo-random value that is
    a deterministic function of their (evaluated) arguments; red()/pos() differ from their argument by a multiple of 360"""
    k = id(t)
    if k in memo:
        return memo[k][1]
    h = t[0]
    if h == "num":
        v = mp.mpf(t[1].numerator) / mp.mpf(t[1].denominator)
    elif h == "bool":
        v = mp.mpf(1 if t[1] else 0)
    elif h == "sym":
        if t[1] == "pi":
            v = mp.pi
        elif t[1] == "d2r":
            v = mp.pi / 180
        else:
            v = env.setdefault(t[1], _rand(mp, "sym:" + t[1]))
    elif h == "add":
        v = mp.mpf(0)
        for x in t[1:]:
            v += _numeval(x, env, mp, memo)
    elif h == "mul":
        v = mp.mpf(1)
        for x in t[1:]:
            v *= _numeval(x, env, mp, memo)
    elif h == "pow":
        b, e = _numeval(t[1], env, mp, memo), _numeval(t[2], env, mp, memo)
        v = mp.power(b, e)
    elif h in ("angle", "epoch"):
        v = _numeval(t[1], env, mp, memo)
    elif h == "call" and t[1] in ("sin", "cos", "tan", "atan", "sqrt", "asin", "acos") and len(t) == 3:
        a = _numeval(t[2], env, mp, memo)
        if t[1] in ("asin", "acos"):
            a = mp.mpf(1) / (2 + abs(a)) if abs(a) > 1 else a     # keep the principal branch defined
            v = getattr(mp, t[1])(a)
        elif t[1] == "sqrt":
            v = mp.sqrt(a)                 # complex for a negative argument: sqrt(x)**2 == x still holds there
        else:
            v = getattr(mp, t[1])(a)
    elif h == "call" and t[1] in ("red", "pos") and len(t) == 3:
        a = _numeval(t[2], env, mp, memo)
        kturns = int(_rand(mp, "turns:%s:%s" % (t[1], mp.nstr(a, 25))) * 5) - 2
        v = a - 360 * kturns
    elif h == "call" and t[1] == "abs" and len(t) == 3:
        v = abs(_numeval(t[2], env, mp, memo))
    else:
        if h == "call":
            args = [mp.nstr(_numeval(x, env, mp, memo), 25) for x in t[2:]]
            v = _rand(mp, "fn:%s(%s)" % (t[1], ",".join(args)))
        else:
            v = _rand(mp, "term:" + repr(T.key(t)))
    memo[k] = (t, v)
    return v


def _rand(mp, label):
    import hashlib
    hsh = hashlib.sha256(label.encode()).hexdigest()
    return mp.mpf(int(hsh[:12], 16)) / mp.mpf(16 ** 12) * 2 + mp.mpf("0.25")


def crosscheck(log, seeds=("a", "b", "c")):
    """re-decide every logged identity by evaluating both sides of the *extracted terms* at pseudo-random points with
    40 digits (Schwartz-Zippel style); returns the list of disagreements with the normal-form verdict"""
    import mpmath as mp
    mp.mp.dps = 40
    bad = []
    for a, b, verdict in log:
        same = True
        try:
            for sd in seeds:
                env = {}
                memo = {}
                # different random points: salt the symbol values
                for x in T.walk(("bag", a, b)):
                    if x[0] == "sym" and x[1] not in ("pi", "d2r"):
                        env[x[1]] = _rand(mp, "sym:%s:%s" % (sd, x[1]))
                va, vb = _numeval(a, env, mp, memo), _numeval(b, env, mp, memo)
                scale = max(abs(va), abs(vb), mp.mpf(1))
                if abs(va - vb) > scale * mp.mpf(10) ** (-25):
                    same = False
                    break
        except Exception as e:     # evaluation failure is not a verdict
            continue
        if same != verdict:
            bad.append((a, b, verdict, same))
    return bad
