"""Symbolic evaluator: maps a function body to terms for its return values and
raise conditions (global value numbering with phi-terms at joins).  This is an
abstract interpretation of the source into the term algebra of terms.py - no input
values, no execution of the library.

Semantics encoded (derived from reading Angle.py / Epoch.py, re-checked by the
R-OPCONF rule on every run of C02/C03):
  Angle(x)                 -> angle<x>        value congruent to x modulo 360
  Angle(x, radians=True)   -> angle<x*180/pi>
  Angle(0, 0, s)           -> angle<s/3600>
  a.rad()                  -> red-free  x*pi/180   (only used under sin/cos/tan or added to such)
  a() / float(a)           -> red(x)
  angle +- angle / number  -> angle<sum>
  Epoch(x) -> epoch<x>; e.jde()/e()/float(e) -> x; epoch - epoch -> number; epoch +- t -> epoch
"""
import ast
from fractions import Fraction

from . import terms as T
from .frontend import AnalysisError, lit_fraction, body_without_docstring, norm_text

MATH_FUNCS = {"sin", "cos", "tan", "asin", "acos", "atan", "atan2", "sqrt", "radians", "degrees",
              "floor", "ceil", "copysign", "fabs", "log", "log10", "exp", "fsum", "hypot"}
BUILTINS = {"abs", "round", "int", "float", "len", "range", "enumerate", "isinstance", "max", "min",
            "sorted", "list", "tuple", "str", "sum", "bool", "zip", "reversed", "divmod", "print"}
MUTATORS = {"append", "extend", "insert", "sort", "reverse", "pop", "remove", "clear"}

# one degree in radians is kept as the symbol d2r (numerically pi/180): trig
# arguments then have integer coefficients and the addition theorems apply
D2R = T.sym("d2r")
DEG2RAD = D2R
RAD2DEG = T.power(D2R, T.num(-1))


class Outcome:
    __slots__ = ("kind", "cond", "value", "env", "node")

    def __init__(self, kind, cond, value, env, node=None):
        self.kind, self.cond, self.value, self.env, self.node = kind, cond, value, env, node


class Ctx:
    """Evaluation context for one module (name resolution)."""

    def __init__(self, repo, modname, cls=None, inline_depth=2):
        self.repo = repo
        self.mod = repo.mod(modname)
        self.modname = modname
        self.cls = cls
        self.loop_counter = 0
        self.inline_depth = inline_depth
        self.opaque_count = 0
        self.notes = []
        self.unroll = 16            # for-loops / comprehensions over literal sequences of at most that length are executed element by element
        self.unroll_while = 0       # > 0: while-loops are unrolled into that many nested ifs (only on request)
        self.pending_raises = []


def eval_function(repo, modname, qual, arg_terms=None, inline_depth=3, refine_guards=True, extra_env=None, unroll=0):
    """Return (outcomes, ctx).  Each outcome: kind in {'ret','raise','fall'}, cond
    (path condition term), value term."""
    fn = repo.func(modname, qual)
    cls = qual.split(".")[0] if "." in qual and "<locals>" not in qual.split(".")[1:2] and qual.split(".")[0] in repo.mod(modname).classes else None
    ctx = Ctx(repo, modname, cls, inline_depth)
    ctx.refine_guards = refine_guards
    ctx.root_tgt, ctx.rec_depth = "%s.%s" % (modname, qual), 0
    if unroll:
        ctx.unroll = max(ctx.unroll, unroll)
        ctx.unroll_while = unroll
    env = bind_params(fn, arg_terms)
    if extra_env:
        env.update(extra_env)          # e.g. {"self._t": ("epoch", sym)}: kinds/values of object fields
    outs = exec_block(ctx, body_without_docstring(fn), env, T.land())
    return outs, ctx


def bind_params(fn, arg_terms=None):
    env = {}
    a = fn.args
    names = [x.arg for x in a.posonlyargs + a.args]
    defaults = [None] * (len(names) - len(a.defaults)) + list(a.defaults)
    for i, n in enumerate(names):
        if arg_terms and n in arg_terms:
            env[n] = arg_terms[n]
        else:
            env[n] = T.sym(n)
    env["$defaults"] = {n: d for n, d in zip(names, defaults) if d is not None}
    if a.vararg:
        env[a.vararg.arg] = (arg_terms or {}).get(a.vararg.arg, T.sym("*" + a.vararg.arg))
    if a.kwarg:
        env[a.kwarg.arg] = (arg_terms or {}).get(a.kwarg.arg, T.sym("**" + a.kwarg.arg))
    for x in a.kwonlyargs:
        env[x.arg] = T.sym(x.arg)
    return env


def return_term(outs):
    """Fold the 'ret' outcomes into one phi-chain term (raise paths dropped)."""
    rets = [o for o in outs if o.kind == "ret"]
    if not rets:
        return None
    t = rets[-1].value
    for o in reversed(rets[:-1]):
        t = merge_phi(o.cond, o.value, t)      # kind-preserving (a phi of two Angles is an Angle)
    return t


# --------------------------------------------------------------------------- statements

def assigned_names(stmts):
    names = []

    def tgt(t):
        if isinstance(t, ast.Name):
            if t.id not in names:
                names.append(t.id)
        elif isinstance(t, (ast.Tuple, ast.List)):
            for e in t.elts:
                tgt(e)
        elif isinstance(t, ast.Attribute) and isinstance(t.value, ast.Name) and t.value.id == "self":
            k = "self." + t.attr
            if k not in names:
                names.append(k)
        elif isinstance(t, (ast.Subscript, ast.Attribute)):
            b = t.value
            while isinstance(b, (ast.Subscript, ast.Attribute)):
                b = b.value
            if isinstance(b, ast.Name) and b.id not in names:
                names.append(b.id)
        elif isinstance(t, ast.Starred):
            tgt(t.value)

    for s in stmts:
        for n in ast.walk(s):
            if isinstance(n, ast.Assign):
                for t in n.targets:
                    tgt(t)
            elif isinstance(n, (ast.AugAssign, ast.AnnAssign)):
                tgt(n.target)
            elif isinstance(n, (ast.For, ast.comprehension)):
                if isinstance(n, ast.For):
                    tgt(n.target)
            elif isinstance(n, ast.Expr) and isinstance(n.value, ast.Call) and isinstance(n.value.func, ast.Attribute) \
                    and isinstance(n.value.func.value, ast.Name) and n.value.func.attr in MUTATORS | {"to_positive", "set"}:
                if n.value.func.value.id not in names:
                    names.append(n.value.func.value.id)
    return names


def exec_block(ctx, stmts, env, cond):
    """Returns list of outcomes; at most one of kind 'fall'."""
    outs = []
    env = dict(env)
    for i, st in enumerate(stmts):
        r = exec_stmt(ctx, st, env, cond)
        pend = getattr(ctx, "pending_raises", None)
        if pend:
            # raise paths of helpers inlined while evaluating this statement
            rcs = []
            for rc, rv in pend:
                outs.append(Outcome("raise", T.land(cond, rc), rv, env, st))
                rcs.append(rc)
            del pend[:]
            stay = fold_bool(T.land(*[T.lnot(rc) for rc in rcs]))
            if stay == ("bool", False):
                r = []                    # the helper raises unconditionally: nothing of this statement survives
            else:
                r = [Outcome(o.kind, T.land(o.cond, stay), o.value, o.env, o.node) for o in r]
        fall = None
        for o in r:
            if o.kind == "fall":
                fall = o
            else:
                outs.append(o)
        if fall is None:
            return outs
        env, cond = fall.env, fall.cond
    outs.append(Outcome("fall", cond, None, env))
    return outs


def exec_stmt(ctx, st, env, cond):
    if isinstance(st, ast.Assign):
        v = ev(ctx, st.value, env)
        env = dict(env)
        for t in st.targets:
            assign(ctx, t, v, env)
        return [Outcome("fall", cond, None, env)]
    if isinstance(st, ast.AnnAssign):
        env = dict(env)
        if st.value is not None:
            assign(ctx, st.target, ev(ctx, st.value, env), env)
        return [Outcome("fall", cond, None, env)]
    if isinstance(st, ast.AugAssign):
        cur = ev(ctx, st.target, env)
        v = binop(ctx, st.op, cur, ev(ctx, st.value, env))
        env = dict(env)
        assign(ctx, st.target, v, env)
        return [Outcome("fall", cond, None, env)]
    if isinstance(st, ast.Return):
        v = ev(ctx, st.value, env) if st.value is not None else T.NONE
        return [Outcome("ret", cond, v, env, st)]
    if isinstance(st, ast.Raise):
        exc = st.exc
        name = "?"
        if isinstance(exc, ast.Call) and isinstance(exc.func, ast.Name):
            name = exc.func.id
        elif isinstance(exc, ast.Name):
            name = exc.id
        return [Outcome("raise", cond, ("str", name), env, st)]
    if isinstance(st, ast.If):
        c = fold_bool(ev(ctx, st.test, env))
        if c == ("bool", True):
            return exec_block(ctx, st.body, env, cond)
        if c == ("bool", False):
            return exec_block(ctx, st.orelse, env, cond) if st.orelse else [Outcome("fall", cond, None, env)]
        env_t, env_f = dict(env), dict(env)
        if getattr(ctx, "refine_guards", True):
            refine(ctx, st.test, env_t, True)
            refine(ctx, st.test, env_f, False)
        r1 = exec_block(ctx, st.body, env_t, T.land(cond, c))
        r2 = exec_block(ctx, st.orelse, env_f, T.land(cond, T.lnot(c))) if st.orelse else \
            [Outcome("fall", T.land(cond, T.lnot(c)), None, env_f)]
        outs = [o for o in r1 + r2 if o.kind != "fall"]
        f1 = [o for o in r1 if o.kind == "fall"]
        f2 = [o for o in r2 if o.kind == "fall"]
        if f1 and f2:
            e1, e2 = f1[0].env, f2[0].env
            merged = {}
            for k in set(e1) | set(e2):
                if k.startswith("$"):
                    merged[k] = e1.get(k, e2.get(k))
                    continue
                a, b = e1.get(k), e2.get(k)
                if a is None or b is None:
                    # defined on one branch only: possibly-undefined on the other
                    a = a if a is not None else ("undef", k)
                    b = b if b is not None else ("undef", k)
                if a != b and a[0] == "list" and b[0] == "list" and len(a) == len(b):
                    # a local list updated in place on one branch: merge element by element, so that later item reads / stores still see a list
                    merged[k] = ("list",) + tuple(merge_phi(c, x, y) for x, y in zip(a[1:], b[1:]))
                else:
                    merged[k] = merge_phi(c, a, b)
            c1, c2 = f1[0].cond, f2[0].cond
            if c1 == T.land(cond, c) and c2 == T.land(cond, T.lnot(c)):
                mc = cond
            else:
                mc = ("or", c1, c2)      # some sub-branch left by return/raise: keep the exact path condition
            outs.append(Outcome("fall", mc, None, merged))
        elif f1:
            outs.append(Outcome("fall", f1[0].cond, None, f1[0].env))
        elif f2:
            outs.append(Outcome("fall", f2[0].cond, None, f2[0].env))
        return outs
    if isinstance(st, (ast.For, ast.While)):
        return exec_loop(ctx, st, env, cond)
    if isinstance(st, ast.Expr):
        v = st.value
        if isinstance(v, ast.Constant):
            return [Outcome("fall", cond, None, env)]
        env = dict(env)
        if isinstance(v, ast.Yield):
            # generator body: the values are collected in order (only straight-line / unrolled code reaches here with a definite order)
            env["$yield"] = env.get("$yield", ("list",)) + ((ev(ctx, v.value, env) if v.value is not None else T.NONE),)
            return [Outcome("fall", cond, None, env)]
        if isinstance(v, ast.Call) and isinstance(v.func, ast.Attribute) and isinstance(v.func.value, ast.Attribute) \
                and isinstance(v.func.value.value, ast.Name) and v.func.value.value.id == "self":
            # self.<field>.append(x) / .extend(seq) on a field that currently holds a literal list
            key_, meth_ = "self." + v.func.value.attr, v.func.attr
            cur_ = env.get(key_)
            if cur_ is not None and cur_[0] == "list" and meth_ in ("append", "extend") and len(v.args) == 1:
                a_ = ev(ctx, v.args[0], env)
                if meth_ == "append":
                    env[key_] = cur_ + (a_,)
                    return [Outcome("fall", cond, None, env)]
                if a_[0] in ("list", "tuple"):
                    env[key_] = cur_ + tuple(a_[1:])
                    return [Outcome("fall", cond, None, env)]
        if isinstance(v, ast.Call) and isinstance(v.func, ast.Attribute) and isinstance(v.func.value, ast.Name):
            recv, meth = v.func.value.id, v.func.attr
            if meth in MUTATORS and recv in env:
                args = [ev(ctx, a, env) for a in v.args]
                if meth == "append" and env[recv][0] == "list" and len(args) == 1:
                    env[recv] = env[recv] + (args[0],)       # literal list grows
                    return [Outcome("fall", cond, None, env)]
                env[recv] = T.call("." + meth, env[recv], *args)
                return [Outcome("fall", cond, None, env)]
            if meth == "to_positive" and recv in env:
                env[recv] = to_positive(env[recv])
                return [Outcome("fall", cond, None, env)]
        ev(ctx, v, env)  # evaluated for completeness (no effect modelled)
        return [Outcome("fall", cond, None, env)]
    if isinstance(st, ast.Pass):
        return [Outcome("fall", cond, None, env)]
    if isinstance(st, ast.FunctionDef):
        env = dict(env)
        env[st.name] = ("closure", id(st))
        ctx.__dict__.setdefault("closures", {})[id(st)] = st
        return [Outcome("fall", cond, None, env)]
    if isinstance(st, ast.Try):
        # body evaluated; handlers only contribute raise outcomes (the repo uses
        # try only to convert an exception class)
        r = exec_block(ctx, st.body, env, cond)
        outs = list(r)
        for h in st.handlers:
            hr = exec_block(ctx, h.body, env, T.land(cond, ("opaque", "except")))
            outs.extend(o for o in hr if o.kind != "fall")
        if st.finalbody:
            pass
        return outs
    if isinstance(st, (ast.Import, ast.ImportFrom, ast.Global, ast.Nonlocal, ast.Assert, ast.Delete)):
        return [Outcome("fall", cond, None, env)]
    if isinstance(st, (ast.Break, ast.Continue)):
        return [Outcome("fall", cond, None, env)]
    if isinstance(st, ast.With):
        return exec_block(ctx, st.body, env, cond)
    raise AnalysisError("symx: unsupported statement %s" % type(st).__name__)


KNOWN_TYPE_NAMES = {"int", "float", "str", "bool", "list", "tuple", "dict", "complex", "Angle", "Epoch", "Interpolation", "CurveFitting",
                    "Ellipsoid", "Earth", "Minor", "date", "datetime"}


def fold_bool(c):
    """constant folding of conditions whose operands are literals (used when a
    function is specialised for a literal argument, e.g. target="new")"""
    h = c[0]
    if c == T.NONE:
        return ("bool", False)            # truth value of a literal None (e.g. kwargs.get("flag") on a literal dict)
    if h in ("num", "str"):
        return ("bool", bool(c[1]))
    if h in ("tuple", "list") and all(isinstance(x, tuple) for x in c[1:]):
        return ("bool", len(c) > 1)
    if h == "cmp":
        a, b = c[2], c[3]
        if c[1] in ("Is", "IsNot", "Eq", "NotEq") and (a == T.NONE or b == T.NONE):
            # identity / equality with a literal None: decided when the other side is None itself or a value that cannot be None
            o = b if a == T.NONE else a
            same = True if o == T.NONE else (False if (o[0] in ("num", "str", "bool", "tuple", "list", "dict", "epoch", "angle", "add", "mul", "pow")
                                                       or is_numeric_term(o)) else None)
            if same is not None:
                return ("bool", same if c[1] in ("Is", "Eq") else not same)
        if c[1] in ("In", "NotIn") and a[0] == "str" and b[0] == "dict":
            present = any(k == a for k, _ in b[1])
            return ("bool", present if c[1] == "In" else not present)
        if c[1] in ("In", "NotIn") and b[0] == "dict" and is_literal_key(a) and all(is_literal_key(k) for k, _ in b[1]):
            present = any(k == a for k, _ in b[1])
            return ("bool", present if c[1] == "In" else not present)
        if c[1] in ("Lt", "LtE", "Gt", "GtE") and ((a[0] == "call" and a[1] == "abs" and b[0] == "num") or (b[0] == "call" and b[1] == "abs" and a[0] == "num")):
            # |k * pi^n * copysign(1, anything)| against a number: the magnitude is a constant (bisection steps d * s with s = +-1)
            ma, mb = const_magnitude(a), const_magnitude(b)
            if ma is not None and mb is not None and abs(ma - mb) > 1e-9 * max(ma, mb, 1e-300):
                r = {"Lt": ma < mb, "LtE": ma <= mb, "Gt": ma > mb, "GtE": ma >= mb}[c[1]]
                return ("bool", r)
        if c[1] in ("Lt", "LtE", "Gt", "GtE") and (a[0] != "num" or b[0] != "num"):
            # two closed constants (numbers, powers of pi): decided numerically unless they are closer than rounding could tell
            va, vb = const_value(a), const_value(b)
            if va is not None and vb is not None and abs(va - vb) > 1e-9 * max(abs(va), abs(vb), 1e-300):
                return ("bool", {"Lt": va < vb, "LtE": va <= vb, "Gt": va > vb, "GtE": va >= vb}[c[1]])
        if a[0] in ("str", "num") and b[0] == a[0]:
            x, y = a[1], b[1]
            try:
                r = {"Eq": x == y, "NotEq": x != y, "Lt": x < y, "LtE": x <= y, "Gt": x > y, "GtE": x >= y}.get(c[1])
            except TypeError:
                r = None
            if r is not None:
                return ("bool", bool(r))
        return c
    if h == "not":
        x = fold_bool(c[1])
        return ("bool", not x[1]) if x[0] == "bool" else ("not", x)
    if h in ("and", "or"):
        parts = [fold_bool(x) for x in c[1:]]
        if h == "and":
            if any(x == ("bool", False) for x in parts):
                return ("bool", False)
            parts = [x for x in parts if x != ("bool", True)]
            if not parts:
                return ("bool", True)
        else:
            if any(x == ("bool", True) for x in parts):
                return ("bool", True)
            parts = [x for x in parts if x != ("bool", False)]
            if not parts:
                return ("bool", False)
        return parts[0] if len(parts) == 1 else (h,) + tuple(parts)
    if h == "call" and c[1] == "isinstance" and len(c) == 4 and c[2][0] == "str" and c[3] == ("sym", "str"):
        return ("bool", True)
    if h == "call" and c[1] == "isinstance" and len(c) == 4 and is_numeric_term(c[2]):
        # convention: a symbol named NUM_* stands for an int/float argument
        tys = c[3][1:] if c[3][0] == "tuple" else (c[3],)
        names = [x[1].split(".")[-1] for x in tys if x[0] == "sym"]
        if len(names) == len(tys) and all(n in KNOWN_TYPE_NAMES for n in names):
            return ("bool", "int" in names or "float" in names)
    if h == "call" and c[1] == "isinstance" and len(c) == 4 and c[2][0] == "pyobj":
        # ('pyobj', 'datetime.datetime', id): an instance of a named stdlib class
        tys = c[3][1:] if c[3][0] == "tuple" else (c[3],)
        names = []
        for x in tys:
            if x[0] == "sym":
                names.append(x[1].split(".")[-1] if not x[1].startswith("datetime") else x[1])
            elif x[0] == "attr" and x[1][0] == "sym":
                names.append("%s.%s" % (x[1][1], x[2]))
            else:
                return c
        mro = {"datetime.datetime": {"datetime.datetime", "datetime.date"}, "datetime.date": {"datetime.date"}}.get(c[2][1], {c[2][1]})
        return ("bool", bool(mro & set(names)))
    if h == "call" and c[1] == "isinstance" and len(c) == 4 and c[2][0] in ("tuple", "list", "str"):
        tys = c[3][1:] if c[3][0] == "tuple" else (c[3],)
        names = [x[1].split(".")[-1] for x in tys if x[0] == "sym"]
        if len(names) == len(tys) and all(n in KNOWN_TYPE_NAMES for n in names):
            return ("bool", c[2][0] in names)
    if h == "call" and c[1] == "isinstance" and len(c) == 4 and c[2][0] in ("angle", "epoch"):
        kind = {"angle": "Angle", "epoch": "Epoch"}[c[2][0]]
        tys = c[3][1:] if c[3][0] == "tuple" else (c[3],)
        names = [x[1].split(".")[-1] for x in tys if x[0] == "sym"]
        if len(names) == len(tys) and all(n in KNOWN_TYPE_NAMES for n in names):
            return ("bool", kind in names)
    return c


_NT_SPECS = {}


def namedtuple_spec(ctx, name):
    """(field names, default terms) when `name` is bound at module level to namedtuple("...", fields[, defaults=(literals)]), else None"""
    key = (id(ctx.repo), ctx.modname, name)
    if key not in _NT_SPECS:
        spec = None
        g = ctx.mod.globals.get(name)
        if isinstance(g, ast.Call) and ((isinstance(g.func, ast.Name) and g.func.id == "namedtuple") or
                                        (isinstance(g.func, ast.Attribute) and g.func.attr == "namedtuple")) and len(g.args) >= 2:
            fn_ = g.args[1]
            fields = None
            if isinstance(fn_, ast.Constant) and isinstance(fn_.value, str):
                fields = fn_.value.replace(",", " ").split()
            elif isinstance(fn_, (ast.Tuple, ast.List)) and all(isinstance(e, ast.Constant) and isinstance(e.value, str) for e in fn_.elts):
                fields = [e.value for e in fn_.elts]
            dfl = []
            ok = fields is not None
            for k in g.keywords:
                if k.arg == "defaults" and isinstance(k.value, (ast.Tuple, ast.List)) and \
                        all(isinstance(e, ast.Constant) and isinstance(e.value, (int, float)) and not isinstance(e.value, bool) for e in k.value.elts):
                    dfl = [T.num(Fraction(str(e.value))) for e in k.value.elts]
                elif k.arg in ("defaults", "rename", "module"):
                    ok = ok and k.arg == "module"
            if ok:
                spec = (fields, dfl)
        _NT_SPECS[key] = spec
    return _NT_SPECS[key]


def const_value(t):
    """value of a closed constant built from numbers and pi with + * ** (None otherwise)"""
    import math
    h = t[0]
    if h == "num":
        return float(t[1])
    if t == T.PI:
        return math.pi
    if h in ("add", "mul"):
        vals = [const_value(x) for x in t[1:]]
        if any(v is None for v in vals):
            return None
        r = 0.0 if h == "add" else 1.0
        for v in vals:
            r = r + v if h == "add" else r * v
        return r
    if h == "pow" and t[2][0] == "num" and t[2][1].denominator == 1:
        b = const_value(t[1])
        if b is None or (b == 0 and t[2][1] < 0):
            return None
        return b ** int(t[2][1])
    return None


def const_magnitude(t):
    """|t| as a float when it does not depend on any input: products of numbers, powers of pi and copysign(c, x) factors"""
    import math
    h = t[0]
    if h == "num":
        return abs(float(t[1]))
    if t == T.PI:
        return math.pi
    if h == "call" and t[1] == "abs" and len(t) == 3:
        return const_magnitude(t[2])
    if h == "call" and t[1] == "copysign" and len(t) == 4:
        return const_magnitude(t[2])
    if h == "mul":
        r = 1.0
        for x in t[1:]:
            m = const_magnitude(x)
            if m is None:
                return None
            r *= m
        return r
    if h == "pow" and t[2][0] == "num" and t[2][1].denominator == 1:
        m = const_magnitude(t[1])
        if m is None or (m == 0 and t[2][1] < 0):
            return None
        return m ** int(t[2][1])
    if h == "add":
        # a difference of two partial sums sharing all but one term (e0 - ef in a bisection): expand, cancel, and look at what is left
        mono = _expand_sum(t)
        if mono is not None and len(mono) == 1:
            (fac, coef), = mono
            r = abs(float(coef))
            for f in fac:
                m = const_magnitude(f)
                if m is None:
                    return None
                r *= m
            return r
    return None


def _expand_sum(t, limit=400):
    """t as {sorted tuple of non-numeric factors: rational coefficient}, products distributed over sums; None if it grows beyond `limit`"""
    def ex(x):
        if x[0] == "num":
            return {(): x[1]}
        if x[0] == "add":
            out = {}
            for y in x[1:]:
                e = ex(y)
                if e is None:
                    return None
                for k, c in e.items():
                    out[k] = out.get(k, 0) + c
            return out if len(out) <= limit else None
        if x[0] == "mul":
            out = {(): Fraction(1)}
            for y in x[1:]:
                e = ex(y)
                if e is None:
                    return None
                nxt = {}
                for k1, c1 in out.items():
                    for k2, c2 in e.items():
                        k = tuple(sorted(k1 + k2, key=lambda z: z[0]))
                        nxt[k] = nxt.get(k, 0) + c1 * c2
                if len(nxt) > limit:
                    return None
                out = nxt
            return out
        # other factors are identified by object identity (terms are DAGs: hashing or printing a deep one is exponential); pi by name
        atoms[id(x) if x != T.PI else 0] = x
        return {((id(x) if x != T.PI else 0, ),): Fraction(1)}
    atoms = {}
    e = ex(t)
    if e is None:
        return None
    return [(tuple(atoms[i[0]] for i in k), c) for k, c in e.items() if c != 0]      # a list: deep terms must not be hashed


def is_literal_key(t):
    """a hashable literal: number, string, bool, None or a tuple of such"""
    return t[0] in ("num", "str", "bool", "none") or (t[0] == "tuple" and all(is_literal_key(x) for x in t[1:]))


def is_numeric_term(t):
    """arithmetic over literals and NUM_* symbols (the convention for int/float arguments)"""
    h = t[0]
    if h == "num":
        return True
    if h == "sym":
        return t[1].startswith("NUM_")
    if h in ("add", "mul"):
        return all(is_numeric_term(x) for x in t[1:])
    if h == "pow":
        return is_numeric_term(t[1]) and is_numeric_term(t[2])
    if h == "call" and t[1] in ("float", "abs", "int", "round", "floor") and len(t) >= 3:
        return all(is_numeric_term(x) for x in t[2:])
    return False


def merge_phi(c, a, b):
    if a == b:
        return a
    if a[0] == "angle" and b[0] == "angle":
        return ("angle", T.phi(c, a[1], b[1]))
    if a[0] == "epoch" and b[0] == "epoch":
        return ("epoch", T.phi(c, a[1], b[1]))
    return T.phi(c, a, b)


def iter_items(it):
    """elements of a literal iterable term (list/tuple literal, range/zip/enumerate/reversed of
    literals), or None"""
    if it[0] in ("tuple", "list", "gen"):
        return list(it[1:])
    if it[0] == "rec":
        return list(it[2:])
    if it[0] == "call" and it[1] == "range" and all(a[0] == "num" and a[1].denominator == 1 for a in it[2:]):
        return [T.num(i) for i in range(*[int(a[1]) for a in it[2:]])]
    if it[0] == "call" and it[1] in ("zip", "enumerate", "reversed"):
        subs = [iter_items(a) for a in it[2:]]
        if any(x is None for x in subs) or not subs:
            return None
        if it[1] == "zip":
            return [("tuple",) + tuple(xs) for xs in zip(*subs)]
        if it[1] == "enumerate":
            return [("tuple", T.num(i), x) for i, x in enumerate(subs[0])]
        return list(reversed(subs[0]))
    if it[0] == "call" and it[1] in ("combinations", "itertools.combinations") and len(it) == 4 and is_int_literal(it[3]) and 0 <= it[3][1] <= 3:
        sub = iter_items(it[2])
        if sub is None or len(sub) > 12:
            return None
        import itertools
        return [("tuple",) + tuple(c) for c in itertools.combinations(sub, int(it[3][1]))]
    return None


def exec_unrolled(ctx, st, items, env, cond):
    outs = []
    env = dict(env)
    for item in items:
        assign(ctx, st.target, item, env)
        r = exec_block(ctx, st.body, env, cond)
        fall = None
        for o in r:
            if o.kind == "fall":
                fall = o
            else:
                outs.append(o)
        if fall is None:
            return outs
        env, cond = dict(fall.env), fall.cond
    outs.append(Outcome("fall", cond, None, env))
    return outs


def _break_form(st):
    """True when every `break` of the loop is the last statement of the body of a top-level `if` of the loop body and the
    loop has no `continue` - the form that unrolls into nested ifs"""
    n_break = sum(1 for b in st.body for x in ast.walk(b) if isinstance(x, ast.Break))
    if any(isinstance(x, ast.Continue) for b in st.body for x in ast.walk(b)):
        return False
    top = 0
    for b in st.body:
        if isinstance(b, ast.If) and b.body and isinstance(b.body[-1], ast.Break):
            top += 1
            if sum(1 for x in ast.walk(b) if isinstance(x, ast.Break)) != 1:
                return False
    return n_break == top


def exec_unrolled_break(ctx, st, items, env, cond):
    """for x in (i1, .., in): B; if c: break; B' [else: E]   ==   x = i1; B; if c: pass else: B'; x = i2; ... ; E"""
    env = dict(env)
    tag = "$it%d_" % (getattr(st, "lineno", 0))
    for k, it in enumerate(items):
        env[tag + str(k)] = it

    def xform(stmts, cont):
        for p_, s_ in enumerate(stmts):
            if isinstance(s_, ast.If) and s_.body and isinstance(s_.body[-1], ast.Break):
                new = ast.If(test=s_.test, body=s_.body[:-1] or [ast.Pass()], orelse=list(s_.orelse) + xform(stmts[p_ + 1:], cont))
                ast.copy_location(new, s_)
                return list(stmts[:p_]) + [new]
        return list(stmts) + cont

    def build(k):
        if k == len(items):
            return list(st.orelse)
        head = ast.Assign(targets=[st.target], value=ast.Name(id=tag + str(k), ctx=ast.Load()))
        ast.copy_location(head, st)
        return [head] + xform(st.body, build(k + 1))

    stmts = build(0) or [ast.Pass()]
    for x in stmts:
        ast.fix_missing_locations(x)
    return exec_block(ctx, stmts, env, cond)


def _normalise_do_while(st):
    """`while True: B; if c: break`  ->  `while not c: B`  (symbolically: the exit condition is the one tested after the
    body; the loop-carried values and the state at exit are the same)"""
    if isinstance(st, ast.While) and isinstance(st.test, ast.Constant) and st.test.value is True and not st.orelse and st.body:
        last = st.body[-1]
        if isinstance(last, ast.If) and not last.orelse and len(last.body) == 1 and isinstance(last.body[0], ast.Break) \
                and not any(isinstance(x, (ast.Break, ast.Continue)) for b in st.body[:-1] for x in ast.walk(b)):
            new = ast.While(test=ast.UnaryOp(op=ast.Not(), operand=last.test), body=st.body[:-1] or [ast.Pass()], orelse=[])
            ast.copy_location(new, st)
            ast.fix_missing_locations(new)
            return new
    return st


def _normalise_counting_while(st, env):
    """i = 0 ... `while i < N: B; i += 1`  ->  `for i in range(N): B`  when B neither assigns i nor leaves the loop early
    (the counter's value after the loop is not modelled: it is made opaque by the caller)"""
    if not (isinstance(st, ast.While) and not st.orelse and len(st.body) >= 2):
        return st, None
    t, last = st.test, st.body[-1]
    if not (isinstance(t, ast.Compare) and len(t.ops) == 1 and isinstance(t.ops[0], ast.Lt) and isinstance(t.left, ast.Name)):
        return st, None
    i = t.left.id
    if not (isinstance(last, ast.AugAssign) and isinstance(last.op, ast.Add) and isinstance(last.target, ast.Name) and last.target.id == i
            and isinstance(last.value, ast.Constant) and last.value.value == 1 and type(last.value.value) is int):
        return st, None
    if env.get(i) != T.ZERO:
        return st, None
    body = st.body[:-1]
    if i in assigned_names(body) or any(isinstance(x, (ast.Break, ast.Continue, ast.Return)) for b in body for x in ast.walk(b)):
        return st, None
    bound_names = {n.id for n in ast.walk(t.comparators[0]) if isinstance(n, ast.Name)}
    if bound_names & set(assigned_names(body)):
        return st, None
    new = ast.For(target=ast.Name(id=i, ctx=ast.Store()), iter=ast.Call(func=ast.Name(id="range", ctx=ast.Load()), args=[t.comparators[0]], keywords=[]),
                  body=body, orelse=[])
    ast.copy_location(new, st)
    ast.fix_missing_locations(new)
    return new, i


def exec_loop(ctx, st, env, cond):
    st = _normalise_do_while(st)
    counter = None
    if not getattr(ctx, "unroll_while", 0):
        st, counter = _normalise_counting_while(st, env)
    if counter is not None:
        outs = exec_loop(ctx, st, env, cond)
        for o in outs:
            if o.kind == "fall" and counter in o.env:
                o.env[counter] = ("opaque", "counter %s after its loop" % counter)
        return outs
    if ctx.unroll and isinstance(st, ast.For) and (st.orelse or any(isinstance(x, ast.Break) for b in st.body for x in ast.walk(b))) \
            and _break_form(st):
        items = iter_items(ev(ctx, st.iter, env))
        if items is not None and len(items) <= ctx.unroll:
            return exec_unrolled_break(ctx, st, items, env, cond)
    if ctx.unroll and isinstance(st, ast.For) and not st.orelse:
        items = iter_items(ev(ctx, st.iter, env))
        if items is not None and len(items) <= ctx.unroll and \
                not any(isinstance(x, (ast.Break, ast.Continue)) for b in st.body for x in ast.walk(b)):
            return exec_unrolled(ctx, st, items, env, cond)
    if getattr(ctx, "unroll_while", 0) and isinstance(st, ast.While) and not st.orelse and getattr(st, "_pmv_unroll", True) \
            and any(isinstance(x, ast.Break) for b in st.body for x in ast.walk(b)) and _break_form(st):
        # while c: S1; if b: break; S2   unrolled:  if c: S1; if b: pass else: S2; <next iteration>
        def xform_w(stmts, cont):
            for p_, s_ in enumerate(stmts):
                if isinstance(s_, ast.If) and s_.body and isinstance(s_.body[-1], ast.Break):
                    new = ast.If(test=s_.test, body=s_.body[:-1] or [ast.Pass()], orelse=list(s_.orelse) + xform_w(stmts[p_ + 1:], cont))
                    ast.copy_location(new, s_)
                    return list(stmts[:p_]) + [new]
            return list(stmts) + cont
        inner = [ast.Raise(exc=ast.Call(func=ast.Name(id="RuntimeError", ctx=ast.Load()), args=[ast.Constant(value="$unroll-bound")], keywords=[]),
                           cause=None)]
        for _ in range(ctx.unroll_while):
            inner = [ast.If(test=st.test, body=xform_w(list(st.body), inner), orelse=[])]
        node = inner[0]
        ast.copy_location(node, st)
        ast.fix_missing_locations(node)
        return exec_stmt(ctx, node, env, cond)
    if getattr(ctx, "unroll_while", 0) and isinstance(st, ast.While) and not st.orelse and getattr(st, "_pmv_unroll", True) \
            and not any(isinstance(x, (ast.Break, ast.Continue)) for b in st.body for x in ast.walk(b)):
        # bounded unrolling: while c: B  ==  if c: B; if c: B; ... ; beyond the bound the path raises
        inner = [ast.Raise(exc=ast.Call(func=ast.Name(id="RuntimeError", ctx=ast.Load()), args=[ast.Constant(value="$unroll-bound")], keywords=[]),
                           cause=None)]
        for _ in range(ctx.unroll_while):
            inner = [ast.If(test=st.test, body=list(st.body) + inner, orelse=[])]
        node = inner[0]
        ast.copy_location(node, st)
        ast.fix_missing_locations(node)
        return exec_stmt(ctx, node, env, cond)
    if any(isinstance(x, (ast.Yield, ast.YieldFrom)) for b in st.body for x in ast.walk(b)):
        ctx.gen_unknown = True            # yields inside a loop that is not unrolled: the generated sequence is not a finite list of terms
    ctx.loop_counter += 1
    lid = ctx.loop_counter
    body_assigned = assigned_names(st.body)
    env_in = dict(env)
    if isinstance(st, ast.For):
        it = ev(ctx, st.iter, env)
        tnames = assigned_names([ast.Assign(targets=[st.target], value=ast.Constant(value=0))])
        header = ("for", it, tuple(tnames))
    else:
        tnames = []
        it = None
        header = None
    lv = {}
    for k, n in enumerate(body_assigned):
        lv[n] = ("lv", lid, n)
        env_in[n] = unwrap_keep_kind(env.get(n), ("lv", lid, n))
    for n in tnames:
        env_in[n] = ("lt", lid, n)
    if isinstance(st, ast.While):
        header = ("while", ev(ctx, st.test, env_in))
    r = exec_block(ctx, st.body, env_in, T.land(cond, ("inloop", lid)))
    outs = [o for o in r if o.kind != "fall"]
    fall = [o for o in r if o.kind == "fall"]
    env_out = dict(env)
    if fall:
        be = fall[0].env
        body_terms = tuple((n, be.get(n, ("undef", n))) for n in body_assigned)
    else:
        body_terms = ()
    # only live-in variables (whose pre-loop value is read in the body) carry an
    # initial value; leftovers of earlier loops with the same name are dead
    used = set()
    for x in T.walk(("probe", header, body_terms) + tuple(o.value for o in outs if o.value is not None)):
        if isinstance(x, tuple) and len(x) == 3 and x[0] == "lv" and x[1] == lid:
            used.add(x[2])
    inits = tuple((n, env.get(n, ("undef", n))) for n in body_assigned if n in used)
    loop_term = ("loop", lid, header, inits, body_terms)
    bt_map = dict(body_terms)
    for n in body_assigned:
        if bt_map.get(n) == ("lv", lid, n) and n in env:
            env_out[n] = env[n]        # unchanged by the body (e.g. `q += f0(x) * 0`)
            continue
        res = ("loopout", n, loop_term)
        prev = env.get(n)
        if prev is not None and prev[0] in ("angle", "epoch"):
            # AugAssign on Angle/Epoch in a loop keeps the kind
            bt = dict(body_terms).get(n)
            if bt is not None and bt[0] == prev[0]:
                res = (prev[0], ("loopout", n, loop_term))
        env_out[n] = res
    for n in tnames:
        env_out[n] = ("loopout", n, loop_term)
    outs.append(Outcome("fall", cond, None, env_out))
    return outs


def unwrap_keep_kind(prev, symt):
    if prev is not None and prev[0] in ("angle", "epoch"):
        return (prev[0], symt)
    return symt


def assign(ctx, target, v, env):
    if isinstance(target, ast.Name):
        env[target.id] = v
    elif isinstance(target, (ast.Tuple, ast.List)):
        n = len(target.elts)
        if v[0] == "rec":
            v = ("tuple",) + tuple(v[2:])
        if v[0] in ("tuple", "list") and len(v) - 1 == n:
            for e, x in zip(target.elts, v[1:]):
                assign(ctx, e, x, env)
        else:
            for i, e in enumerate(target.elts):
                assign(ctx, e, subscript(v, T.num(i)) if v[0] == "phi" else ("idx", v, T.num(i)), env)
    elif isinstance(target, ast.Subscript):
        b = target.value
        if isinstance(b, ast.Name):
            idx = ev(ctx, target.slice, env)
            cur = env.get(b.id, T.sym(b.id))
            if cur[0] in ("list",) and idx[0] == "num" and idx[1].denominator == 1 and 0 <= idx[1] < len(cur) - 1:
                items = list(cur[1:])
                items[int(idx[1])] = v
                env[b.id] = ("list",) + tuple(items)
            elif cur[0] == "dict":
                d = dict(cur[1])
                d[idx] = v
                env[b.id] = ("dict", tuple(sorted(d.items(), key=lambda kv: repr(kv[0]))))
            else:
                env[b.id] = T.call(".setitem", cur, idx, v)
        else:
            ctx.notes.append("store to nested subscript ignored: " + norm_text(target))
    elif isinstance(target, ast.Attribute):
        b = target.value
        if isinstance(b, ast.Name):
            cur = env.get(b.id, T.sym(b.id))
            if b.id == "self":
                env["self." + target.attr] = v
            else:
                env[b.id] = T.call(".setattr", cur, ("str", target.attr), v)
    else:
        raise AnalysisError("symx: unsupported assignment target " + norm_text(target))


# --------------------------------------------------------------------------- guards

def refine(ctx, test, env, truth):
    """isinstance-based refinement: after `if not (isinstance(p, Angle) and ...): raise`
    the fall-through knows p is an Angle.  Only Angle and Epoch are tracked."""
    if isinstance(test, ast.UnaryOp) and isinstance(test.op, ast.Not):
        return refine(ctx, test.operand, env, not truth)
    if isinstance(test, ast.BoolOp):
        if isinstance(test.op, ast.And) and truth:
            for v in test.values:
                refine(ctx, v, env, True)
        elif isinstance(test.op, ast.Or) and not truth:
            for v in test.values:
                refine(ctx, v, env, False)
        return
    if isinstance(test, ast.Call) and isinstance(test.func, ast.Name) and test.func.id == "isinstance" and truth \
            and len(test.args) == 2 and isinstance(test.args[0], ast.Name):
        n = test.args[0].id
        ty = test.args[1]
        if isinstance(ty, ast.Name) and ty.id in ("Angle", "Epoch") and n in env:
            env[n] = coerce(env[n], ty.id.lower())


def coerce(t, kind):
    if t[0] == kind:
        return t
    if t[0] == "phi":
        a, b = coerce(t[2], kind), coerce(t[3], kind)
        return (kind, T.phi(t[1], a[1], b[1]))
    if t[0] in ("angle", "epoch"):
        return t
    return (kind, T.call("degof" if kind == "angle" else "jdeof", t))


def to_positive(t):
    if t[0] == "angle":
        if t[1][0] == "call" and t[1][1] == "pos":
            return t
        return ("angle", T.call("pos", t[1]))
    return T.call(".to_positive", t)


# --------------------------------------------------------------------------- expressions

def ev(ctx, node, env):
    if isinstance(node, ast.Constant):
        v = node.value
        if isinstance(v, bool):
            return ("bool", v)
        if isinstance(v, (int, float)):
            return ("num", lit_fraction(node))
        if isinstance(v, str):
            return ("str", v)
        if v is None:
            return T.NONE
        return ("opaque", repr(v))
    if isinstance(node, ast.Name):
        return lookup(ctx, node.id, env)
    if isinstance(node, ast.BinOp):
        return binop(ctx, node.op, ev(ctx, node.left, env), ev(ctx, node.right, env))
    if isinstance(node, ast.UnaryOp):
        v = ev(ctx, node.operand, env)
        if isinstance(node.op, ast.USub):
            if v[0] == "angle":
                return ("angle", T.neg(v[1]))
            return T.neg(v)
        if isinstance(node.op, ast.UAdd):
            return v
        if isinstance(node.op, ast.Not):
            return T.lnot(v)
        return T.call("invert", v)
    if isinstance(node, ast.BoolOp):
        vs = [ev(ctx, v, env) for v in node.values]
        return (("and",) if isinstance(node.op, ast.And) else ("or",)) + tuple(vs)
    if isinstance(node, ast.Compare):
        left = ev(ctx, node.left, env)
        parts = []
        for op, c in zip(node.ops, node.comparators):
            r = ev(ctx, c, env)
            if isinstance(op, (ast.In, ast.NotIn)) and r[0] in ("tuple", "list") and len(r) > 1 and all(x[0] in ("num", "str") for x in r[1:]):
                # x in (a, b)  ==  x == a or x == b
                eqs = tuple(("cmp", "Eq", cmpval(left), x) for x in r[1:])
                alt = eqs[0] if len(eqs) == 1 else ("or",) + eqs
                parts.append(alt if isinstance(op, ast.In) else T.lnot(alt))
            else:
                parts.append(("cmp", type(op).__name__, cmpval(left), cmpval(r)))
            left = r
        return parts[0] if len(parts) == 1 else ("and",) + tuple(parts)
    if isinstance(node, ast.Call) and isinstance(node.func, ast.Name) and node.func.id == "next" and len(node.args) == 1 and not node.keywords \
            and isinstance(node.args[0], ast.Name) and env.get(node.args[0].id, ("?",))[0] == "gen" and len(env[node.args[0].id]) > 1:
        g = env[node.args[0].id]
        env[node.args[0].id] = ("gen",) + tuple(g[2:])       # the generator object advances
        return g[1]
    if isinstance(node, ast.IfExp):
        c = fold_bool(ev(ctx, node.test, env))
        if c == ("bool", True):
            return ev(ctx, node.body, env)
        if c == ("bool", False):
            return ev(ctx, node.orelse, env)
        return merge_phi(c, ev(ctx, node.body, env), ev(ctx, node.orelse, env))
    if isinstance(node, ast.Tuple):
        return ("tuple",) + tuple(ev(ctx, e, env) for e in node.elts)
    if isinstance(node, ast.List):
        return ("list",) + tuple(ev(ctx, e, env) for e in node.elts)
    if isinstance(node, ast.Dict):
        return ("dict", tuple(sorted(((ev(ctx, k, env), ev(ctx, v, env)) for k, v in zip(node.keys, node.values)),
                                     key=lambda kv: repr(kv[0]))))
    if isinstance(node, ast.Subscript):
        base = ev(ctx, node.value, env)
        if isinstance(node.slice, ast.Slice):
            sl = node.slice
            parts = tuple(ev(ctx, x, env) if x is not None else T.NONE for x in (sl.lower, sl.upper, sl.step))
            if base[0] in ("tuple", "list") and all(x == T.NONE or (x[0] == "num" and x[1].denominator == 1) for x in parts):
                lo, hi, stp = (None if x == T.NONE else int(x[1]) for x in parts)
                return (base[0],) + tuple(base[1:][slice(lo, hi, stp)])
            return T.call("slice", base, *parts)
        idx = ev(ctx, node.slice, env)
        return subscript(base, idx)
    if isinstance(node, ast.Attribute) and not (isinstance(node.value, ast.Name) and node.value.id == "self"):
        rv_ = None
        if isinstance(node.value, ast.Name) and env.get(node.value.id, ("?",))[0] == "rec":
            rv_ = env[node.value.id]
        elif isinstance(node.value, ast.Call):
            rv_ = ev(ctx, node.value, env)
            if rv_[0] != "rec":
                rv_ = None
        if rv_ is not None and node.attr in rv_[1]:
            return rv_[2 + rv_[1].index(node.attr)]
    if isinstance(node, ast.Attribute):
        if isinstance(node.value, ast.Name) and node.value.id == "self":
            k = "self." + node.attr
            if k in env:
                return env[k]
            sv = env.get("self")
            if sv is not None and sv[0] == "epoch" and node.attr == "_jde":
                return sv[1]
            if sv is not None and sv[0] == "angle" and node.attr == "_deg":
                return T.call("red", sv[1])
            return ("attr", T.sym("self"), node.attr)
        if isinstance(node.value, ast.Name) and node.value.id == "operator" and node.value.id not in env and node.attr in OPERATOR_FUNCS:
            return ("funcref", "operator." + node.attr)
        if isinstance(node.value, ast.Name) and node.value.id not in env:
            # Class.method / module.function used as a value (handed to a helper as a callable)
            tgt_ = resolve_name(ctx, node.value.id)
            mod_, _, cls_ = tgt_.partition(".")
            m_ = ctx.repo.modules.get(mod_)
            if m_ is not None and cls_ and ("%s.%s" % (cls_, node.attr)) in m_.functions:
                return ("funcref", "%s.%s.%s" % (mod_, cls_, node.attr))
        base = ev(ctx, node.value, env)
        if base[0] == "angle" and node.attr == "_deg":
            return T.call("red", base[1])
        if base[0] == "epoch" and node.attr == "_jde":
            return base[1]
        return ("attr", base, node.attr)
    if isinstance(node, ast.Call):
        return ev_call(ctx, node, env)
    if isinstance(node, ast.ListComp) or isinstance(node, ast.GeneratorExp):
        return ev_comp(ctx, node, env)
    if isinstance(node, ast.Lambda):
        return ("opaque", norm_text(node))
    if isinstance(node, ast.JoinedStr):
        return ("opaque", norm_text(node))
    if isinstance(node, ast.Starred):
        return T.call("*", ev(ctx, node.value, env))
    ctx.opaque_count += 1
    return ("opaque", norm_text(node))


def cmpval(t):
    """Value observed by a comparison."""
    if t[0] == "angle":
        return T.call("red", t[1])
    if t[0] == "epoch":
        return t[1]
    return t


def ev_comp(ctx, node, env):
    if getattr(ctx, "unroll", 0) and len(node.generators) == 1:
        g = node.generators[0]
        items = iter_items(ev(ctx, g.iter, env))
        if items is not None and len(items) <= ctx.unroll:
            out = []
            for item in items:
                env2 = dict(env)
                assign(ctx, g.target, item, env2)
                keep = [fold_bool(ev(ctx, c, env2)) for c in g.ifs]
                if all(k == ("bool", True) for k in keep):
                    out.append(ev(ctx, node.elt, env2))
                elif any(k == ("bool", False) for k in keep):
                    continue
                else:
                    out = None
                    break
            if out is not None:
                return ("list",) + tuple(out)
    ctx.loop_counter += 1
    lid = ctx.loop_counter
    env2 = dict(env)
    gens = []
    for g in node.generators:
        it = ev(ctx, g.iter, env2)
        for n in assigned_names([ast.Assign(targets=[g.target], value=ast.Constant(value=0))]):
            env2[n] = ("lt", lid, n)
        gens.append((it, tuple(ev(ctx, c, env2) for c in g.ifs)))
    return ("listcomp", lid, ev(ctx, node.elt, env2), tuple(gens))


def lookup(ctx, name, env):
    if name in env:
        return env[name]
    if name == "pi":
        return T.PI
    if name in ("True", "False"):
        return ("bool", name == "True")
    m = ctx.mod
    if name in m.globals:
        gnode = m.globals[name]
        return global_value(ctx, m.name, name, gnode)
    if name in m.functions:
        return ("funcref", "%s.%s" % (m.name, name))      # a module-level function used as a value (handed over as a callable)
    if name in m.imports:
        src, orig = m.imports[name]
        if src and src.startswith("pymeeus."):
            sm = src.split(".", 1)[1]
            if sm in ctx.repo.modules and orig in ctx.repo.modules[sm].globals:
                return global_value(ctx, sm, orig, ctx.repo.modules[sm].globals[orig])
            return ("sym", "%s.%s" % (sm, orig))
        return ("sym", name)
    return ("sym", name)


_WRITTEN_GLOBALS = {}
_MUTATORS = {"append", "extend", "insert", "pop", "remove", "clear", "update", "setdefault", "popitem", "sort", "reverse", "add", "discard"}


def written_globals(repo, modname):
    """names of module-level objects that some function of the module stores into, mutates through a method, rebinds with `global`,
    or hands to a local alias that is then written: their initial literal is not their value"""
    key = (id(repo), modname)
    if key not in _WRITTEN_GLOBALS:
        m = repo.modules.get(modname)
        out = set()
        if m is not None:
            globs = set(m.globals)
            for fn in ast.walk(m.tree):
                if not isinstance(fn, (ast.FunctionDef, ast.Lambda)):
                    continue
                alias = {}
                for n in ast.walk(fn):
                    if isinstance(n, ast.Assign) and isinstance(n.value, ast.Name) and n.value.id in globs:
                        for t in n.targets:
                            if isinstance(t, ast.Name):
                                alias[t.id] = n.value.id

                def base(x):
                    while isinstance(x, (ast.Subscript, ast.Attribute)):
                        x = x.value
                    if isinstance(x, ast.Name):
                        return alias.get(x.id, x.id if x.id in globs else None)
                    return None
                for n in ast.walk(fn):
                    if isinstance(n, ast.Global):
                        out.update(n.names)
                    tg = []
                    if isinstance(n, ast.Assign):
                        tg = n.targets
                    elif isinstance(n, (ast.AugAssign, ast.AnnAssign)):
                        tg = [n.target]
                    elif isinstance(n, ast.Delete):
                        tg = n.targets
                    for t in tg:
                        if isinstance(t, (ast.Subscript, ast.Attribute)) and base(t) is not None:
                            out.add(base(t))
                    if isinstance(n, ast.Call) and isinstance(n.func, ast.Attribute) and n.func.attr in _MUTATORS and base(n.func.value) is not None:
                        out.add(base(n.func.value))
        _WRITTEN_GLOBALS[key] = out
    return _WRITTEN_GLOBALS[key]


def global_value(ctx, modname, name, gnode):
    """Module-level constant: numbers and Angle/Epoch constructions are folded,
    tables stay symbolic (('sym','Mod.NAME'))."""
    if isinstance(gnode, (ast.List, ast.Dict, ast.Set)) and name in written_globals(ctx.repo, modname):
        return ("sym", "%s.%s" % (modname, name))       # module-level state, not a constant
    if isinstance(gnode, ast.Constant) and isinstance(gnode.value, (int, float)) and not isinstance(gnode.value, bool):
        return ("num", lit_fraction(gnode))
    if isinstance(gnode, (ast.BinOp, ast.UnaryOp)):
        try:
            sub = Ctx(ctx.repo, modname)
            return ev(sub, gnode, {})
        except AnalysisError:
            pass
    if isinstance(gnode, ast.Call) and isinstance(gnode.func, ast.Name) and gnode.func.id in ("Epoch", "Angle"):
        sub = Ctx(ctx.repo, modname)
        return ev(sub, gnode, {})
    inv = inventory().get(modname)
    if isinstance(gnode, (ast.Tuple, ast.List)) and len(gnode.elts) <= 64 and (inv is None or name not in inv["globals"]):
        try:
            sub = Ctx(ctx.repo, modname)
            v = ev(sub, gnode, {})
            if all(x[0] in ("num", "tuple", "list", "str", "sym") for x in v[1:]):
                return v                   # a small literal sequence introduced by a refactoring (numbers, strings, type names)
        except AnalysisError:
            pass
    if isinstance(gnode, ast.Call) and (inv is None or name not in inv["globals"]):
        # a constant computed once at import time by a refactoring (e.g. sin(Angle(0, 0, 8.794).rad())): folded when it is closed
        try:
            sub = Ctx(ctx.repo, modname)
            sub.unroll = max(sub.unroll, 80)
            sub.unroll_while = 80             # a table built at import time by a short loop (halving steps, cumulative sums)
            v = ev(sub, gnode, {})
            if v[0] in ("num", "mul", "add", "call", "pow", "angle", "epoch") and not any(x[0] in ("sym", "opaque", "lt", "lv") and x != T.PI
                                                                                          and not (x[0] == "sym" and x[1] in ("d2r", "pi")) for x in T.walk(v)):
                return v
            if v[0] in ("tuple", "list") and 0 < len(v) - 1 <= 128 and all(const_value(x) is not None for x in v[1:]):
                return v
        except AnalysisError:
            pass
    if isinstance(gnode, ast.Dict) and len(gnode.keys) <= 64 and all(isinstance(k, ast.Constant) for k in gnode.keys) \
            and (getattr(ctx, "unroll_while", 0) or inv is None or name not in inv["globals"]):
        sub = Ctx(ctx.repo, modname)
        return ev(sub, gnode, {})             # small literal lookup table (unroll mode only)
    return ("sym", "%s.%s" % (modname, name))


def binop(ctx, op, a, b):
    k = type(op)
    ka, kb = a[0], b[0]
    if ka == "angle" or kb == "angle":
        return angle_binop(k, a, b)
    if ka == "epoch" or kb == "epoch":
        return epoch_binop(k, a, b)
    if k is ast.Add:
        if ka in ("list", "tuple") and kb == ka:
            return (ka,) + a[1:] + b[1:]
        if ka == "str" or kb == "str":
            return T.call("concat", a, b)
        return T.add(a, b)
    if k is ast.Sub:
        return T.sub(a, b)
    if k is ast.Mult:
        for seq, cnt in ((a, b), (b, a)):
            if seq[0] in ("list", "tuple") and is_int_literal(cnt) and 0 <= cnt[1] <= 64:
                return (seq[0],) + seq[1:] * int(cnt[1])          # [x] * n: a literal sequence repeated
        return T.mul(a, b)
    if k is ast.Div:
        return T.div(a, b)
    if k is ast.Pow:
        return T.power(a, b)
    if k is ast.Mod:
        if ka == "num" and kb == "num" and b[1] != 0:
            return T.num(a[1] % b[1])
        return T.call("mod", a, b)
    if k is ast.FloorDiv:
        if ka == "num" and kb == "num" and b[1] != 0:
            return T.num(Fraction(a[1] // b[1]))
        if b == T.ONE:
            return T.call("floor", a)
        if kb == "num" and b[1] != 0:
            return T.call("floor", T.div(a, b))          # a // k  ==  floor(a / k): one normal form for INT(a / k) and a // k
        return T.call("floordiv", a, b)
    return T.call(k.__name__, a, b)


def is_int_literal(t):
    return t[0] == "num" and t[1].denominator == 1


def angle_binop(k, a, b):
    ka, kb = a[0], b[0]
    av = a[1] if ka == "angle" else a
    bv = b[1] if kb == "angle" else b
    if k is ast.Add:
        return ("angle", T.add(av, bv))
    if k is ast.Sub:
        return ("angle", T.sub(av, bv))
    if k is ast.Mult:
        # exact modulo 360 only for an integer factor; otherwise the reduced
        # value is what gets multiplied
        other = bv if ka == "angle" else av
        mine = av if ka == "angle" else bv
        if ka == "angle" and kb == "angle":
            return ("angle", T.mul(T.call("red", av), T.call("red", bv)))
        if is_int_literal(other):
            return ("angle", T.mul(mine, other))
        return ("angle", T.mul(T.call("red", mine), other))
    if k is ast.Div:
        if ka == "angle" and kb != "angle":
            return ("angle", T.div(T.call("red", av), bv))
        if ka != "angle":
            return ("angle", T.div(av, T.call("red", bv)))
        return ("angle", T.div(T.call("red", av), T.call("red", bv)))
    if k is ast.Mod:
        return ("angle", T.call("amod", av, bv))
    if k is ast.Pow:
        return ("angle", T.power(T.call("red", av) if ka == "angle" else av,
                                 T.call("red", bv) if kb == "angle" else bv))
    return T.call(k.__name__, a, b)


def epoch_binop(k, a, b):
    ka, kb = a[0], b[0]
    if k is ast.Sub:
        if ka == "epoch" and kb == "epoch":
            return T.sub(a[1], b[1])
        if ka == "epoch":
            return ("epoch", T.sub(a[1], b))
        # number - epoch is not defined by the class; keep generic
        return T.sub(a, b[1])
    if k is ast.Add:
        if ka == "epoch" and kb != "epoch":
            return ("epoch", T.add(a[1], b))
        if kb == "epoch" and ka != "epoch":
            return ("epoch", T.add(b[1], a))
    return T.call(k.__name__, a, b)


def kw(node, name):
    for k in node.keywords:
        if k.arg == name:
            return k.value
    return None


def ev_call(ctx, node, env):
    f = node.func
    args = []
    for a in node.args:
        v = ev(ctx, a, env)
        if isinstance(a, ast.Starred) and v[0] == "call" and v[1] == "*" and v[2][0] in ("tuple", "list"):
            args.extend(v[2][1:])          # f(*literal_tuple)
        else:
            args.append(v)
    kws = {k.arg: ev(ctx, k.value, env) for k in node.keywords if k.arg}
    star_kw = []
    for k in node.keywords:
        if k.arg is None:
            v = ev(ctx, k.value, env)
            if v[0] == "dict" and all(kk[0] == "str" for kk, _ in v[1]):
                for kk, vv in v[1]:            # f(**{"a": x})  ==  f(a=x)
                    kws.setdefault(kk[1], vv)
            else:
                star_kw.append(v)
    # ---- plain names
    if isinstance(f, ast.Name):
        name = f.id
        nt = namedtuple_spec(ctx, name) if name not in env else None
        if nt is not None and not star_kw and not any(a_[0] == "call" and a_[1] == "*" for a_ in args):
            # NAME = namedtuple("NAME", fields[, defaults=...]) at module level: a record of named values (read by attribute, index, unpacking)
            fields, dfl = nt
            vals = list(args)
            if len(vals) <= len(fields) and all(k_ in fields for k_ in kws):
                slots = dict(zip(fields, vals))
                slots.update(kws)
                for fld, d_ in zip(fields[len(fields) - len(dfl):], dfl):
                    slots.setdefault(fld, d_)
                if all(fld in slots for fld in fields):
                    return ("rec", tuple(fields)) + tuple(slots[fld] for fld in fields)
        if name == "next" and name not in env and len(node.args) == 2 and isinstance(node.args[0], ast.GeneratorExp) \
                and len(node.args[0].generators) == 1 and getattr(ctx, "unroll", 0):
            # next((e for x in literal if c), default)  ==  c1 ? e1 : (c2 ? e2 : ... default)
            g = node.args[0].generators[0]
            items = iter_items(ev(ctx, g.iter, env))
            if items is not None and len(items) <= ctx.unroll:
                res = ev(ctx, node.args[1], env)
                for item in reversed(items):
                    env2 = dict(env)
                    assign(ctx, g.target, item, env2)
                    conds = [fold_bool(ev(ctx, c, env2)) for c in g.ifs]
                    c_ = fold_bool(T.land(*conds)) if conds else ("bool", True)
                    val = ev(ctx, node.args[0].elt, env2)
                    res = val if c_ == ("bool", True) else res if c_ == ("bool", False) else merge_phi(c_, val, res)
                return res
        if name == "divmod" and name not in env and len(args) == 2 and not kws:
            return ("tuple", binop(ctx, ast.FloorDiv(), args[0], args[1]), binop(ctx, ast.Mod(), args[0], args[1]))
        if name in env and env[name][0] == "closure":
            return inline_closure(ctx, ctx.closures[env[name][1]], args, kws, env)
        if name in env and env[name][0] == "funcref":
            return repo_call(ctx, env[name][1], args, kws, star_kw, env)       # a callable parameter bound to a repository function
        if name in env and env[name][0] == "sym" and env[name][1] in ("sin", "cos", "tan", "asin", "acos", "atan", "sqrt") and len(args) == 1:
            return math_call(env[name][1], args)                               # a callable parameter bound to a math function
        if name in env and env[name][0] in ("angle", "epoch", "zerofn"):
            return call_value(env[name], args)
        if name in env and env[name][0] == "sym":
            return T.call("apply", env[name], *args)
        if name == "Angle":
            return make_angle(args, kws)
        if name == "Epoch":
            return make_epoch(args, kws, star_kw)
        if name in MATH_FUNCS and name in ctx.mod.imports or name in ("sin", "cos", "tan", "asin", "acos", "atan", "atan2", "sqrt", "radians", "degrees"):
            return math_call(name, args)
        if name == "iint" or name == "floor":
            return T.call("floor", *[numval(a) for a in args])
        if name == "abs":
            a = args[0]
            if a[0] == "angle":
                return ("angle", T.call("abs", T.call("red", a[1])))
            if a[0] == "num":
                return ("num", abs(a[1]))
            return T.call("abs", a)
        if name == "float":
            a = args[0]
            if a[0] == "angle":
                return T.call("red", a[1])
            if a[0] == "epoch":
                return a[1]
            if a[0] == "num":
                return a
            return T.call("float", a)
        if name == "int":
            if len(args) == 1 and args[0][0] == "num":
                return T.num(Fraction(int(args[0][1])))          # int() of a literal
            return T.call("int", numval(args[0]))
        if name == "round":
            return T.call("round", *[numval(a) for a in args])
        if name == "bool" and len(args) == 1 and args[0][0] in ("bool", "num"):
            return ("bool", bool(args[0][1]))
        if name in ("max", "min") and args and not kws:
            seq = list(args[0][1:]) if len(args) == 1 and args[0][0] in ("tuple", "list") else list(args) if len(args) > 1 else None
            if seq and all(x[0] == "num" for x in seq):
                return (max if name == "max" else min)(seq, key=lambda x: x[1])
        if name in ("list", "tuple") and len(args) == 1 and args[0][0] in ("tuple", "list"):
            return (name,) + tuple(args[0][1:])
        if name in ("all", "any") and len(args) == 1 and args[0][0] in ("tuple", "list"):
            vals = [fold_bool(x) for x in args[0][1:]]
            if all(v[0] == "bool" for v in vals):
                return ("bool", (all if name == "all" else any)(v[1] for v in vals))
        if name in ("sorted", "list", "tuple", "max", "min") and len(args) == 1 and args[0][0] == "dict":
            args = [("list",) + tuple(k for k, _ in args[0][1])]      # iterating a dict yields its keys
            if name in ("max", "min") and all(x[0] == "num" for x in args[0][1:]) and len(args[0]) > 1:
                return (max if name == "max" else min)(args[0][1:], key=lambda x: x[1])
            if name in ("list", "tuple"):
                return (name,) + tuple(args[0][1:])
        if name in ("list", "tuple") and len(args) == 1 and not kws and args[0][0] in ("tuple", "list"):
            return (name,) + tuple(args[0][1:])                       # list(literal) / tuple(literal): a copy
        if name in ("list", "tuple") and len(args) == 1 and not kws and args[0][0] == "call" and args[0][1] in ("range", "zip", "enumerate", "reversed"):
            items_ = iter_items(args[0])
            if items_ is not None and len(items_) <= 64:
                return (name,) + tuple(items_)                         # list(range(3)), list(zip(lit, lit)) ...
        if name == "sorted" and len(args) == 1 and not kws and args[0][0] in ("tuple", "list") and all(x[0] == "num" for x in args[0][1:]):
            return ("list",) + tuple(sorted(args[0][1:], key=lambda x: x[1]))
        if name == "sorted" and len(args) == 1 and not kws and args[0][0] in ("tuple", "list") and len(args[0]) > 1 \
                and all(x[0] == "tuple" and len(x) > 1 and all(y[0] == "num" for y in x[1:]) for x in args[0][1:]):
            return ("list",) + tuple(sorted(args[0][1:], key=lambda x: tuple(y[1] for y in x[1:])))      # sorted(d.items()) of a numeric table
        if name == "len" and len(args) == 1 and args[0][0] in ("tuple", "list"):
            return T.num(len(args[0]) - 1)
        if name == "len" and len(args) == 1 and args[0][0] == "str":
            return T.num(len(args[0][1]))
        if name == "int" and len(args) == 1 and args[0][0] == "num" and not kws:
            return T.num(Fraction(int(args[0][1])))
        if name in BUILTINS or name in MATH_FUNCS:
            return T.call(name, *args)
        # module function / imported function
        tgt = resolve_name(ctx, name)
        return repo_call(ctx, tgt, args, kws, star_kw, env)
    # ---- attribute calls
    if isinstance(f, ast.Attribute):
        meth = f.attr
        # Class.static(...)
        if isinstance(f.value, ast.Name) and f.value.id not in env:
            base = f.value.id
            if base in ("Angle", "Epoch", "Interpolation", "CurveFitting") or base in ctx.mod.classes or base in ctx.mod.imports:
                tgt = resolve_name(ctx, base)
                if base == "Angle" and meth in ("reduce_deg",):
                    return T.call("red", *args)
                return repo_call(ctx, tgt + "." + meth, args, kws, star_kw, env)
        recv = ev(ctx, f.value, env)
        if recv[0] == "sym" and "." not in recv[1] and "*" not in recv[1]:
            # a class handed over as a value (`helper(Earth, epoch)` ... `planet.method(epoch)`): the call of one of its methods
            cname = recv[1]
            tgt_c = None
            if cname in ctx.repo.modules and cname in ctx.repo.modules[cname].classes:
                tgt_c = "%s.%s" % (cname, cname)
            elif cname in ctx.mod.classes:
                tgt_c = "%s.%s" % (ctx.mod.name, cname)
            if tgt_c is not None:
                m_c = ctx.repo.modules[tgt_c.split(".")[0]]
                if ("%s.%s" % (tgt_c.split(".")[1], meth)) in m_c.functions:
                    return repo_call(ctx, tgt_c + "." + meth, args, kws, star_kw, env)
        if recv[0] == "str" and not kws and meth in ("strip", "lstrip", "rstrip", "capitalize", "lower", "upper", "title") \
                and all(a_[0] == "str" for a_ in args) and len(args) <= 1:
            return ("str", getattr(recv[1], meth)(*[a_[1] for a_ in args]))       # pure method of a literal string
        if recv[0] in ("list", "tuple") and meth == "index" and len(args) == 1 and args[0] in recv[1:] \
                and all(x[0] in ("num", "sym", "str") for x in recv[1:]) and (args[0][0] != "str" or all(x[0] == "str" for x in recv[1:])):
            return T.num(recv[1:].index(args[0]))          # position in a literal list of distinct atoms
        if recv[0] == "dict" and meth in ("keys", "values") and not args:
            return ("list",) + tuple((k if meth == "keys" else v) for k, v in recv[1])
        if recv[0] == "dict" and meth == "items" and not args:
            return ("list",) + tuple(("tuple", k, v) for k, v in recv[1])
        if recv[0] == "dict" and meth == "get" and args and args[0][0] == "str":
            for k, v in recv[1]:           # literal_dict.get("key"[, default])
                if k == args[0]:
                    return v
            return args[1] if len(args) > 1 else T.NONE
        if recv[0] == "angle":
            if meth == "rad":
                return T.mul(recv[1], DEG2RAD)
            if meth == "to_positive":
                return to_positive(recv)
            if meth == "get_ra":
                return T.div(T.call("red", recv[1]), T.num(15))
        if recv[0] in ("epoch", "angle") and ctx.inline_depth > 0:
            tgt_ = ("Epoch.Epoch." if recv[0] == "epoch" else "Angle.Angle.") + meth
            fn_ = new_helper(ctx, tgt_)
            if fn_ is not None:                 # a method introduced by a refactoring, called on a typed receiver
                return inline_repo(ctx, tgt_, fn_, [recv] + args, kws, star_kw, env)
        if recv[0] == "angle":
            a2_, k2_ = _positionalise(ctx, "Angle.Angle." + meth, [recv] + list(args), kws)
            return T.call("Angle.Angle." + meth, *a2_, *[("kw", k, v) for k, v in sorted(k2_.items())])
        if recv[0] == "epoch":
            if meth in ("jde",):
                return recv[1]
            if meth == "mjd":
                return T.sub(recv[1], T.num(Fraction("2400000.5")))
            a2_, k2_ = _positionalise(ctx, "Epoch.Epoch." + meth, [recv] + list(args), kws)
            return T.call("Epoch.Epoch." + meth, *a2_, *[("kw", k, v) for k, v in sorted(k2_.items())])
        if meth == "rad" and not args:
            return T.call("rad", recv)
        if meth == "jde" and not args:
            return T.call("jdeof", recv)
        if recv == T.sym("self") and ctx.cls:
            return repo_call(ctx, "%s.%s.%s" % (ctx.modname, ctx.cls, meth), [recv] + args, kws, star_kw, env)
        return T.call("." + meth, recv, *args, *[("kw", k, v) for k, v in sorted(kws.items())])
    # ---- call of a call result, e.g. a()()
    fv = ev(ctx, f, env)
    return call_value(fv, args)


def subscript(base, idx, _depth=4):
    if base[0] == "rec":
        base = ("tuple",) + tuple(base[2:])
    if base[0] in ("tuple", "list") and idx[0] == "num" and idx[1].denominator == 1:
        i = int(idx[1])
        if -len(base) + 1 <= i < len(base) - 1:
            return base[1:][i]
    if base[0] == "dict":
        for k, v in base[1]:
            if k == idx:
                return v
        keys = {k for k, _ in base[1]}
        if keys == {("bool", True), ("bool", False)} and idx[0] != "bool":
            # table[bool(flag)] / table[predicate]: a two-way selection
            d = dict(base[1])
            c = idx[2] if (idx[0] == "call" and idx[1] == "bool" and len(idx) == 3) else idx
            return merge_phi(c, d[("bool", True)], d[("bool", False)])
    if _depth > 0 and base[0] in ("tuple", "list", "dict") and idx[0] == "phi":
        # literal[c ? i : j]  ==  c ? literal[i] : literal[j]
        x, y = subscript(base, idx[2], _depth - 1), subscript(base, idx[3], _depth - 1)
        if x[0] != "idx" and y[0] != "idx":
            return merge_phi(idx[1], x, y)
    if _depth > 0 and base[0] == "phi" and base[2][0] in ("tuple", "list", "dict") and base[3][0] in ("tuple", "list", "dict", "phi"):
        x, y = subscript(base[2], idx, _depth - 1), subscript(base[3], idx, _depth - 1)
        if x[0] != "idx" and y[0] != "idx":
            return merge_phi(base[1], x, y)
    return ("idx", base, idx)


def call_value(fv, args, _depth=4):
    if fv == ("zerofn",):
        return T.ZERO
    if fv[0] == "phi" and _depth > 0 and fv[2][0] in ("angle", "epoch", "phi") and fv[3][0] in ("angle", "epoch", "phi"):
        return merge_phi(fv[1], call_value(fv[2], args, _depth - 1), call_value(fv[3], args, _depth - 1))
    if fv[0] == "angle" and not args:
        def push(t, d=6):
            # red(c ? x : y) == c ? red(x) : red(y)
            if t[0] == "phi" and d > 0:
                return T.phi(t[1], push(t[2], d - 1), push(t[3], d - 1))
            return T.call("red", t)
        return push(fv[1])
    if fv[0] == "epoch" and not args:
        return fv[1]
    return T.call("apply", fv, *args)


def numval(t):
    if t[0] == "angle":
        return T.call("red", t[1])
    if t[0] == "epoch":
        return t[1]
    return t


def math_call(name, args):
    a = [numval(x) for x in args]
    if name == "radians":
        return T.mul(a[0], DEG2RAD)
    if name == "degrees":
        return T.mul(a[0], RAD2DEG)
    if name == "sqrt":
        return T.power(a[0], T.num(Fraction(1, 2))) if False else T.call("sqrt", a[0])
    return T.call(name, *a)


def make_angle(args, kws):
    rad = kws.get("radians")
    ra = kws.get("ra")
    if ra is not None and ra != ("bool", False):
        return ("angle", T.call("ra2deg", *args))
    if len(args) == 0:
        return ("angle", T.ZERO)
    if len(args) == 1:
        a = args[0]
        if a[0] == "angle":
            return a
        if rad is not None and rad == ("bool", True):
            return ("angle", T.mul(numval(a), RAD2DEG))
        if rad is not None and rad != ("bool", False):
            return ("angle", T.phi(rad, T.mul(numval(a), RAD2DEG), numval(a)))
        if a[0] in ("tuple", "list"):
            return make_angle(list(a[1:]), {})
        return ("angle", a)
    if len(args) in (2, 3):
        d, m = args[0], args[1]
        s = args[2] if len(args) == 3 else T.ZERO
        if d == T.ZERO and m == T.ZERO:
            return ("angle", T.div(numval(s), T.num(3600)))
        if all(x[0] == "num" for x in (d, m, s)):
            neg = any(x[1] < 0 for x in (d, m, s))
            v = abs(d[1]) + abs(m[1]) / 60 + abs(s[1]) / 3600
            return ("angle", ("num", -v if neg else v))
        return ("angle", T.call("dms2deg", d, m, s))
    return ("angle", T.call("dms2deg", *args))


def make_epoch(args, kws, star_kw):
    if len(args) == 1 and not kws and not star_kw:
        a = args[0]
        if a[0] == "epoch":
            return a
        if a[0] in ("num", "add", "mul", "sym", "call", "phi", "pow"):
            if a[0] == "sym" and a[1].startswith("*"):
                return ("epoch", T.call("date2jde", a))
            return ("epoch", a)
    if len(args) == 3 and not kws and not star_kw and all(a[0] == "num" for a in args) \
            and args[0][1].denominator == 1 and args[1][1].denominator == 1 and args[0][1] >= 1583:
        # literal Gregorian date: folded with the standard civil-date -> JD formula
        # (constant folding of a literal; the library's own conversion is C01's subject)
        y, m, d = int(args[0][1]), int(args[1][1]), args[2][1]
        a = (14 - m) // 12
        yy = y + 4800 - a
        mm = m + 12 * a - 3
        jdn = 1 + (153 * mm + 2) // 5 + 365 * yy + yy // 4 - yy // 100 + yy // 400 - 32045
        return ("epoch", ("num", Fraction(jdn) - Fraction(1, 2) + (d - 1)))
    extra = [("kw", k, v) for k, v in sorted(kws.items())] + [("kw", "**", v) for v in star_kw]
    return ("epoch", T.call("date2jde", *args, *extra))


def resolve_name(ctx, name):
    m = ctx.mod
    if name in m.functions:
        return "%s.%s" % (m.name, name)
    if name in m.classes:
        return "%s.%s" % (m.name, name)
    if name in m.imports:
        src, orig = m.imports[name]
        if src and src.startswith("pymeeus."):
            return "%s.%s" % (src.split(".", 1)[1], orig)
        return name
    return name


# return kinds of repository functions that the evaluator relies on (checked
# against the callee's source by check_return_kinds, see rules_common)
RETURNS_EPOCH = {"Epoch.Epoch.check_input_date"}
RETURNS_ANGLE = {"Coordinates.mean_obliquity", "Coordinates.true_obliquity",
                 "Coordinates.nutation_longitude", "Coordinates.nutation_obliquity",
                 "Coordinates.angular_separation"}


_INVENTORY = None


def inventory():
    global _INVENTORY
    if _INVENTORY is None:
        import json
        import os
        p = os.path.join(os.path.dirname(os.path.abspath(__file__)), "inventory.json")
        _INVENTORY = json.load(open(p)) if os.path.exists(p) else {}
    return _INVENTORY


def new_helper(ctx, tgt):
    """FunctionDef of tgt if it is a function of the analysed tree that is NOT in the frozen inventory of
    known functions (i.e. a helper introduced by a refactoring), else None"""
    mod, _, qual = tgt.partition(".")
    m = ctx.repo.modules.get(mod)
    if m is None or qual not in m.functions:
        return None
    inv = inventory().get(mod)
    if inv is not None and qual in inv["functions"]:
        if tgt == getattr(ctx, "root_tgt", None) and getattr(ctx, "rec_depth", 0) < 1:
            return m.functions[qual]          # the analysed function calling itself (e.g. set((x,)) -> set(x)): one level is unfolded
        return None
    return m.functions[qual]


def inline_repo(ctx, tgt, fn, args, kws, star_kw, env):
    """evaluate the body of a new helper with the actual arguments; its raise paths are queued in ctx.pending_raises and
    picked up by exec_block of the caller"""
    mod, _, qual = tgt.partition(".")
    cls = qual.split(".")[0] if "." in qual and qual.split(".")[0] in ctx.repo.modules[mod].classes else None
    sub = Ctx(ctx.repo, mod, cls, ctx.inline_depth - 1)
    sub.loop_counter = ctx.loop_counter + 1000 * (4 - ctx.inline_depth)
    sub.unroll, sub.unroll_while = ctx.unroll, getattr(ctx, "unroll_while", 0)
    sub.refine_guards = getattr(ctx, "refine_guards", True)
    sub.pending_raises = []
    sub.root_tgt = getattr(ctx, "root_tgt", None)
    sub.rec_depth = getattr(ctx, "rec_depth", 0) + (1 if tgt == sub.root_tgt else 0)
    a = fn.args
    names = [x.arg for x in a.posonlyargs + a.args]
    cenv = {}
    defaults = [None] * (len(names) - len(a.defaults)) + list(a.defaults)
    for n, d in zip(names, defaults):
        if d is not None:
            cenv[n] = ev(sub, d, {})
    pos = list(args)
    is_static = any(isinstance(d, ast.Name) and d.id in ("staticmethod", "classmethod") for d in fn.decorator_list)
    if is_static and pos and pos[0] == T.sym("self") and (not names or names[0] != "self"):
        pos = pos[1:]                 # static method called through the instance
    elif cls and not is_static and names and names[0] == "self" and (not pos or pos[0] != T.sym("self")) \
            and len(pos) < len([n for n in names if n not in kws]):
        pos = [T.sym("self")] + pos
    for n, v in zip(names, pos):
        cenv[n] = v
    if a.vararg:
        cenv[a.vararg.arg] = ("tuple",) + tuple(pos[len(names):])
    extra_kw = []
    for k, v in kws.items():
        if a.kwarg and k not in names and k not in [x.arg for x in a.kwonlyargs]:
            extra_kw.append((("str", k), v))
        else:
            cenv[k] = v
    if a.kwarg:
        if star_kw and star_kw[0][0] == "dict":
            cenv[a.kwarg.arg] = ("dict", tuple(sorted(tuple(star_kw[0][1]) + tuple(extra_kw), key=lambda kv: repr(kv[0]))))
        elif star_kw and not extra_kw:
            cenv[a.kwarg.arg] = star_kw[0]
        else:
            cenv[a.kwarg.arg] = ("dict", tuple(sorted(extra_kw, key=lambda kv: repr(kv[0]))))
    for n in names:
        cenv.setdefault(n, T.sym(n))
    for k, v in (env or {}).items():
        if isinstance(k, str) and k.startswith("self.") and cenv.get("self") == T.sym("self"):
            cenv[k] = v
    outs = exec_block(sub, body_without_docstring(fn), cenv, T.land())
    ctx.loop_counter = max(ctx.loop_counter, sub.loop_counter)
    pend = getattr(ctx, "pending_raises", None)
    if pend is None:
        pend = ctx.pending_raises = []
    for o in outs:
        if o.kind == "raise":
            pend.append((o.cond, o.value))
    for c, v in sub.pending_raises:
        pend.append((c, v))
    # field writes of a method helper are visible to the caller
    falls = [o for o in outs if o.kind in ("fall", "ret")]
    if env is not None and len(falls) == 1:
        for k, v in falls[0].env.items():
            if isinstance(k, str) and k.startswith("self.") and cenv.get("self") == T.sym("self"):
                env[k] = v
    if any(isinstance(x, (ast.Yield, ast.YieldFrom)) for x in ast.walk(fn)):
        return _generator_value(sub, outs)
    t = return_term(outs)
    return T.NONE if t is None else t


def _generator_value(ctx, outs):
    """('gen', v1, v2, ...) for a generator function whose yields were all reached in a definite order, else an opaque call"""
    unknown = getattr(ctx, "gen_unknown", False)
    ctx.gen_unknown = False
    ends = [o for o in outs if o.kind in ("fall", "ret")]
    if unknown or len(ends) != 1 or ends[0].cond != T.land() and ends[0].cond != ("bool", True):
        ctx.opaque_count += 1
        return T.call("generator", T.num(ctx.opaque_count))
    return ("gen",) + tuple(ends[0].env.get("$yield", ("list",))[1:])


def _positionalise(ctx, tgt, args, kws):
    """f(a, y=c, x=b) -> f(a, b, c) for a known function f(p, x, y): keyword arguments that continue the positional
    parameters are moved into place, so that the call term does not depend on how the arguments were spelled"""
    if not kws:
        return args, kws
    mod, _, qual = tgt.partition(".")
    m = ctx.repo.modules.get(mod)
    fn = m.functions.get(qual) if m is not None else None
    if fn is None or fn.args.vararg is not None:
        return args, kws
    names = [x.arg for x in fn.args.posonlyargs + fn.args.args]
    if any(isinstance(d, ast.Name) and d.id == "classmethod" for d in fn.decorator_list):
        names = names[1:]
    args, kws = list(args), dict(kws)
    while len(args) < len(names) and names[len(args)] in kws:
        args.append(kws.pop(names[len(args)]))
    return args, kws


OPERATOR_FUNCS = {"lt": "Lt", "le": "LtE", "gt": "Gt", "ge": "GtE", "eq": "Eq", "ne": "NotEq",
                  "add": ast.Add, "sub": ast.Sub, "mul": ast.Mult, "truediv": ast.Div, "mod": ast.Mod, "floordiv": ast.FloorDiv, "pow": ast.Pow}


def repo_call(ctx, tgt, args, kws, star_kw, env=None):
    if tgt.startswith("operator.") and tgt[9:] in OPERATOR_FUNCS and len(args) == 2 and not kws and not star_kw:
        op = OPERATOR_FUNCS[tgt[9:]]
        if isinstance(op, str):
            return ("cmp", op, cmpval(args[0]), cmpval(args[1]))       # operator.lt(a, b) == a < b
        return binop(ctx, op(), args[0], args[1])
    fn = new_helper(ctx, tgt) if ctx.inline_depth > 0 else None
    if fn is not None:
        return inline_repo(ctx, tgt, fn, args, kws, star_kw, env)
    args, kws = _positionalise(ctx, tgt, args, kws)
    extra = [("kw", k, v) for k, v in sorted(kws.items())] + [("kw", "**", v) for v in star_kw]
    t = T.call(tgt, *args, *extra)
    if tgt in RETURNS_EPOCH:
        return ("epoch", T.call("jdeof", t))
    if tgt in RETURNS_ANGLE:
        return ("angle", T.call("degof", t))
    return t


def inline_closure(ctx, fn, args, kws, outer_env):
    if ctx.inline_depth <= 0:
        return T.call("closure:" + fn.name, *args)
    names = [a.arg for a in fn.args.args]
    env = dict(outer_env)
    for n, v in zip(names, args):
        env[n] = v
    for k, v in kws.items():
        env[k] = v
    ctx.inline_depth -= 1
    try:
        outs = exec_block(ctx, body_without_docstring(fn), env, T.land())
    finally:
        ctx.inline_depth += 1
    t = return_term(outs)
    if t is None:
        return T.NONE
    return t


def canon_loops(t):
    """alpha-normalise loops: identifiers renumbered in order of first appearance,
    loop-carried variable names replaced by their position in the loop body, loop
    targets by order of appearance - two copies of one loop nest compare equal."""
    lids = {}
    vnames = {}
    tnames = {}

    def lid_of(i):
        if i not in lids:
            lids[i] = len(lids) + 1
        return lids[i]

    def rec(x):
        if not isinstance(x, tuple) or not x:
            return x
        h = x[0]
        if h == "loop" and len(x) == 5:
            l = lid_of(x[1])
            for k, (n, _) in enumerate(x[4]):
                vnames.setdefault((x[1], n), "v%d" % k)
            header = rec(x[2])
            inits = tuple((vnames.get((x[1], n), n), rec(v)) for n, v in x[3])
            body = tuple((vnames.get((x[1], n), n), rec(v)) for n, v in x[4])
            return ("loop", l, header, inits, body)
        if h == "lv" and len(x) == 3:
            return ("lv", lid_of(x[1]), vnames.get((x[1], x[2]), x[2]))
        if h == "lt" and len(x) == 3:
            k = (x[1], x[2])
            if k not in tnames:
                tnames[k] = "t%d" % sum(1 for kk in tnames if kk[0] == x[1])
            return ("lt", lid_of(x[1]), tnames[k])
        if h == "loopout" and len(x) == 3 and isinstance(x[2], tuple) and x[2] and x[2][0] == "loop":
            inner = rec(x[2])
            lid = x[2][1]
            return ("loopout", vnames.get((lid, x[1]), tnames.get((lid, x[1]), x[1])), inner)
        if h == "listcomp" and len(x) == 4:
            return ("listcomp", lid_of(x[1])) + tuple(rec(y) for y in x[2:])
        if isinstance(h, str):
            return (h,) + tuple(rec(y) for y in x[1:])
        return tuple(rec(y) for y in x)
    return rec(t)
